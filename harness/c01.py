"""C01 — result models accept and preserve every conformant response.

Tie (DESIGN.md §3 C01):
  * class-IR correspondence: the REAL ResultTypesGenerator (per operation, then per fragment
    definition, fragment ASTs shared as in PackageGenerator) vs lean Model/ResultTypes.lean, inside
    and outside the finding regions (the model reproduces the defects);
  * pydantic reference semantics (lean Spec/Pyd.lean on the MODEL's classes) vs the REAL pydantic on
    the REAL generated classes, on executor responses;
  * property oracle: real package -> real client through MockTransport -> graphql-core executes the
    sent document with PRNG-driven resolvers -> the returned object must expose every response key
    under its Python name with an equal value, be of the class whose __typename literal contains
    the runtime type, and dump back to the response.
Failures inside a finding region (trigger predicate of Model/Triggers01.lean true AND signature
listed) are known findings; anything else is a violation.
"""
from __future__ import annotations

import json
from pathlib import Path
from typing import Any, Dict, List, Optional, Tuple

from . import common, e2e, engine, rt_common, wire
from .common import Ctx, Failure, LeanStatus, Mismatch, Result

PROP = "C01"
CONFIGS = [
    {},
    {"async_client": False},
    {"opentelemetry_client": True},
    {"async_client": False, "opentelemetry_client": True},
]


def fingerprint_items() -> List[Tuple[str, Optional[str]]]:
    rt = "ariadne_codegen/client_generators/result_types.py"
    rf = "ariadne_codegen/client_generators/result_fields.py"
    items: List[Tuple[str, Optional[str]]] = [(rt, f"ResultTypesGenerator.{m}") for m in (
        "__init__", "_parse_type_definition", "_resolve_selection_set", "_get_inline_fragment_root_type", "_unpack_fragment",
        "_add_typename_field_to_selections", "_process_field_name", "_get_field_from_schema", "_process_field_implementation",
        "_parse_field_selection_set_types", "_get_typename_values", "_get_extra_bases_from_mixin_directives", "generate")]
    items += [(rf, f) for f in ("parse_operation_field", "parse_operation_field_type", "parse_scalar_type", "parse_interface_type",
                                "parse_object_type", "parse_enum_type", "parse_union_type", "parse_list_type",
                                "get_inline_fragments_from_selection_set", "get_fragments_on_subtype", "annotate_nested_unions",
                                "parse_directives", "generate_typename_annotation")]
    items.append(("ariadne_codegen/codegen.py", "model_has_forward_refs"))
    return items


def e2e_oracle(ctx: Ctx, cases: List[Dict[str, Any]], res: Result, region: str, pyd_corr: bool) -> None:
    if not cases:
        return
    trig = rt_common.triggers_of(cases)
    # how many inputs lie in the decidable region of a PROVED pipeline theorem (C01_partial_plain / _abstract / _mixin /
    # _mixabs; the Lean predicates themselves, asked from the driver), how many are supported but covered by
    # correspondence + oracle only, how many lie in a finding region
    region_lines = []
    for c in cases:
        env_, ops_ = rt_common.env_and_ops(c)
        region_lines.append({"op": "regions", **env_, "operations": ops_})
    proved_of: List[List[str]] = []
    for t, rg in zip(trig, common.run_driver(rt_common.DRIVER, region_lines)):
        names = [k for k in ("plain", "abstract", "mixin", "mixabs", "unpacked") if isinstance(rg, dict) and rg.get(k)]
        proved_of.append(names)
        for k in names:
            res.count("theorem-region:inside " + k + " (proved)")
        res.count("theorem-region:inside a finding region" if t else
                  "theorem-region:inside some proved region" if names else
                  "theorem-region:supported, unproved (correspondence + oracle only)")
        if isinstance(rg, dict) and not rg.get("valid", True):
            res.count("theorem-region:Lean validDoc rejects a graphql-core-valid document")
    runs = engine.pmap_forked(e2e.run_case, [(rt_common.strip_case(c),) for c in cases], timeout=180)
    pyd_lines: List[Dict[str, Any]] = []
    pyd_index: List[Tuple[int, int, Any]] = []
    exec_lines: List[Dict[str, Any]] = []
    exec_index: List[Tuple[int, int]] = []
    valid_lines: List[Dict[str, Any]] = []
    valid_index: List[int] = []
    for ci, (c, (status, r)) in enumerate(zip(cases, runs)):
        res.evaluations += 1
        res.count(f"e2e:{region}:packages")
        for t in trig[ci]:
            res.count("e2e:trigger:" + t)
        verdicts = rt_common.judge_c01(c, status, r)
        n_calls = len(r.get("calls", [])) if status == "ok" and isinstance(r, dict) else 0
        res.count("e2e:calls", n_calls)
        if not verdicts and n_calls:
            res.distinct.add(common.stable_hash([c["sdl"], c["queries"], c["config"]]))
        for sig, detail, extra in verdicts:
            if sig.startswith("harness-"):
                raise common.Infra(f"e2e runner failed: {detail}")
            res.failures.append(Failure(sig, rt_common.assign_trigger(PROP, trig[ci], sig),
                                        {"sdl": c["sdl"], "queries": c["queries"], "config": c["config"], "calls": c["calls"], **extra,
                                         "triggers": trig[ci], "proved_regions": proved_of[ci]}, detail))
            res.count("e2e:failure:" + sig)
            if proved_of[ci]:
                # the real code fails the property on an input for which a pipeline THEOREM says the model passes:
                # model or reference semantics disagree with reality here (reported as a violation like any other failure)
                res.count("e2e:failure-inside-a-proved-region")
        # pydantic reference semantics vs real pydantic, on the responses of this run (only where the
        # class IR is known to be the real one: outside the finding regions)
        if pyd_corr and status == "ok" and r.get("gen") == "ok" and r.get("import") == "ok" and not trig[ci]:
            env, ops = rt_common.env_and_ops(c)
            by_op: Dict[str, List[Any]] = {}
            for k, call in enumerate(r["calls"]):
                data = (call.get("response") or {}).get("data")
                if data is not None and not (call.get("response") or {}).get("errors"):
                    by_op.setdefault(call["op"], []).append((k, data))
            for oi, o in enumerate(ops):
                items = by_op.get(o["name"], [])
                if items:
                    pyd_lines.append({"op": "validate", **env, "operations": ops, "index": oi,
                                      "payloads": [wire.enc(d) for _, d in items]})
                    pyd_index.append((ci, oi, items))
        # reference semantics of the executor / validator (lean Spec/Exec.lean, Spec/Validate.lean) vs graphql-core:
        # every answer of the real executor must satisfy respOK for the document as SENT; every case (all of them
        # passed graphql-core's validate) must satisfy validDoc
        if pyd_corr and status == "ok" and r.get("gen") == "ok" and r.get("import") == "ok":
            env0, ops0 = rt_common.env_and_ops(c)
            valid_lines.append({"op": "validDoc", **env0, "operations": ops0})
            valid_index.append(ci)
            for k, call in enumerate(r["calls"]):
                resp = call.get("response") or {}
                if call.get("sent") and resp.get("data") is not None and not resp.get("errors"):
                    try:
                        senv, sops = rt_common.env_and_ops({"sdl": c["sdl"], "queries": call["sent"]["query"], "snake": c.get("snake", True)})
                    except Exception:
                        continue
                    sop = next((o for o in sops if o["name"] == call["op"]), None)
                    if sop:
                        exec_lines.append({"op": "respOK", **senv, "operation": sop, "payloads": [wire.enc(resp["data"])]})
                        exec_index.append((ci, k))
        if len(res.samples) < 6 and status == "ok" and r.get("calls"):
            call = r["calls"][0]
            res.sample({"observation": "e2e", "queries": c["queries"][:500], "config": c["config"],
                        "response": json.dumps((call.get("response") or {}).get("data"))[:300], "verdict": [v[0] for v in verdicts] or "ok"})
    if exec_lines:
        for (ci, k), out in zip(exec_index, common.run_driver(rt_common.DRIVER, exec_lines)):
            res.count("exec:respOK-checked")
            if out != [True]:
                call = runs[ci][1]["calls"][k]
                res.mismatches.append(Mismatch("execRespOK", {"sdl": cases[ci]["sdl"], "sent": call["sent"]["query"], "response": call["response"]["data"]},
                                               "graphql-core returned this answer", out))
    if valid_lines:
        for ci, out in zip(valid_index, common.run_driver(rt_common.DRIVER, valid_lines)):
            res.count("validate:validDoc-checked")
            if out is not True:
                res.mismatches.append(Mismatch("validDoc", {"sdl": cases[ci]["sdl"], "queries": cases[ci]["queries"]}, "graphql-core validate accepts", out))
    if pyd_lines:
        outs = common.run_driver(rt_common.DRIVER, pyd_lines)
        for (ci, oi, items), out in zip(pyd_index, outs):
            r = runs[ci][1]
            if not isinstance(out, list):
                res.mismatches.append(Mismatch("pydValidate", {"sdl": cases[ci]["sdl"], "queries": cases[ci]["queries"], "op": oi}, "classes generated", out))
                continue
            for (k, data), mo in zip(items, out):
                call = r["calls"][k]
                res.count("pyd:validations")
                impl_ok = call["outcome"] == "ok"
                model_ok = "ok" in mo
                same = impl_ok == model_ok
                if same and impl_ok and "dump" in call:
                    same = common.same_json(call["dump"], wire.dec(mo["ok"]))
                if not same:
                    res.mismatches.append(Mismatch("pydValidate", {"sdl": cases[ci]["sdl"], "queries": cases[ci]["queries"], "payload": data},
                                                   {"accepted": impl_ok, "dump": call.get("dump"), "message": call.get("message", "")[:200]},
                                                   mo if not model_ok else {"ok": wire.dec(mo["ok"])}))


def corpus_cases() -> List[Tuple[str, Dict[str, Any]]]:
    out = []
    d = common.CORPUS / PROP
    if d.exists():
        for f in sorted(d.glob("*.json")):
            out.append((f.stem, json.loads(f.read_text())))
    return out


def replay_corpus(ctx: Ctx, res: Result) -> None:
    items = corpus_cases()
    if not items:
        return
    cases = [c["case"] for _, c in items]
    trig = rt_common.triggers_of(cases)
    runs = engine.pmap_forked(e2e.run_case, [(rt_common.strip_case(c),) for c in cases], timeout=180)
    for (name, entry), t, (status, r) in zip(items, trig, runs):
        verdicts = rt_common.judge_c01(entry["case"], status, r)
        fid = entry.get("finding")
        res.count("corpus:replayed")
        if fid:
            res.witness_status[fid] = "reproduces" if verdicts else "gone"
        for sig, detail, extra in verdicts:
            if sig.startswith("harness-"):
                raise common.Infra(f"e2e runner failed on corpus {name}: {detail}")
            res.failures.append(Failure(sig, rt_common.assign_trigger(PROP, t, sig), {**entry["case"], **extra, "triggers": t, "corpus": name}, detail))


def run(ctx: Ctx, st: Optional[LeanStatus]) -> Result:
    res = Result()
    res.rule = ("seeded type-directed schemas (objects, interfaces incl. interface-implements-interface, unions, enums, custom scalars) and "
                "operations grown from them (aliases, nesting, all wrappers, inline/named fragments, nested fragments, @skip/@include), filtered "
                "by graphql-core validate; responses from graphql-core executing the SENT document with PRNG resolvers (runtime types, nulls, "
                "list lengths 0..3). Distinct non-trivial = distinct definitions with >1 generated class (class IR) + distinct packages whose "
                "calls all passed (e2e).")
    res.extra["fingerprints"] = common.fingerprints(ctx, fingerprint_items())
    driver_ok = st is not None and st.driver_ok
    replay_corpus(ctx, res)
    # A. class IR: model vs real generator, default region and every finding region
    if driver_ok:
        n = ctx.budget(120, 1200)
        rt_common.class_ir_correspondence(ctx, rt_common.draw_cases(ctx, "ir-default", n), res, "default")
        rt_common.class_ir_correspondence(ctx, rt_common.shape_cases(ctx), res, "shapes")
        allf: Dict[str, float] = {}
        for f in rt_common.TRIGGER_FEATURES.values():
            allf.update(f)
        allf = {k: min(v, 0.3) for k, v in allf.items()}
        allf["abstract_in_mixin"] = 1.0
        rt_common.class_ir_correspondence(ctx, rt_common.draw_cases(ctx, "ir-findings", ctx.budget(60, 600), allf), res, "finding-regions")
    else:
        res.mismatches.append(Mismatch("resultTypes", {}, "driver not built", None))
    # B/C. property oracle + pydantic reference semantics
    n = ctx.budget(48, 480)
    base = rt_common.draw_cases(ctx, "e2e-default", n)
    for i, c in enumerate(base):
        c["config"].update(CONFIGS[i % len(CONFIGS)])
    e2e_oracle(ctx, base, res, "default", pyd_corr=driver_ok)
    # hand-written shapes with SHARED fragment definitions (the grown documents spread every fragment once)
    e2e_oracle(ctx, rt_common.shape_cases(ctx), res, "shapes", pyd_corr=driver_ok)
    per = ctx.budget(6, 40)
    for trig_name, feats in rt_common.TRIGGER_FEATURES.items():
        e2e_oracle(ctx, rt_common.draw_cases(ctx, "e2e-" + trig_name, per, feats), res, "region:" + trig_name, pyd_corr=False)
    res.oracle_only += [
        "import of the emitted package in CPython / pydantic class construction (oracle run in a forked child)",
        "black/isort/autoflake post-processing is a black box between the class IR and the imported classes",
        "graphql-core executes the sent document (reference executor); Spec/Exec.lean covers leaf completion only",
    ]
    res.assumptions += ["pydantic smart-mode unions pick the unique member whose typename__ literal matches (validated by the pydValidate correspondence)"]
    return res


def search(ctx: Ctx) -> Result:
    res = Result()
    cases = rt_common.shape_cases(ctx) + rt_common.draw_cases(ctx, "search", 400)
    for i, c in enumerate(cases):
        c["config"].update(CONFIGS[i % len(CONFIGS)])
    e2e_oracle(ctx, cases, res, "search", pyd_corr=False)
    return res


def replay(ctx: Ctx, payload: Dict[str, Any]) -> int:
    inp = payload.get("input")
    if not inp or "sdl" not in inp:
        print(json.dumps(payload, indent=1)[:3000])
        return 1
    case = {k: inp[k] for k in ("sdl", "queries", "config", "calls") if k in inp}
    status, r = engine.forked(e2e.run_case, case, timeout=180)
    verdicts = rt_common.judge_c01(case, status, r)
    for v in verdicts:
        print("FAIL", v[0], v[1][:300])
    print("triggers:", rt_common.triggers_of([case])[0])
    return 1 if verdicts else 0
