"""C10 oracle worker.  Executed as a SCRIPT in a fresh interpreter

    PYTHONHASHSEED=<n> PYTHONPATH=<repo> /venv/bin/python harness/c10_sub.py <job.json>

so that str hashing (hence set iteration order) really differs between runs - forked children of
the check process would inherit the parent's hash seed.  One worker runs every case of the job for
its hash seed; each single generation runs in an os.fork()ed child of the worker (same hash seed,
pristine module state: plugins mutate module-level AST constants of ariadne-codegen).

Job:  {"scratch": dir, "cases": [case, ...], "order_seed": int, "texts": bool (file texts instead of sha256; replay/diagnosis)}
Case: {"id", "strategy": "client"|"graphqlschema", "schema": str|{rel: text}, "queries": str|{rel: text}|null,
       "config": {...}, "extra_files": {rel: text}}
Output (stdout, one JSON object): {"hashseed": ..., "results": {id: {"fresh": {file: sha256} | {"error": ...},
       "again": {...}}}}
"again" = the same generation run a second time over the directory the first run left behind.

Imports nothing from the harness package: only the standard library and, in the forked child,
the working tree's ariadne_codegen (first on PYTHONPATH).
"""
import contextlib
import hashlib
import io
import json
import os
import random
import shutil
import sys
import tempfile
import traceback
from pathlib import Path


def write_tree(base: Path, src, default_name: str, rng: random.Random) -> str:
    """Write one file, or a directory tree whose entries are CREATED in an order drawn from rng."""
    if src is None:
        return ""
    if isinstance(src, str):
        p = base / default_name
        p.write_text(src)
        return default_name  # relative to the cwd of the generation (= base): the "Source:" comment must not vary
    d = base / (default_name.split(".")[0] + "_dir")
    items = list(src.items())
    rng.shuffle(items)
    for rel, text in items:
        f = d / rel
        f.parent.mkdir(parents=True, exist_ok=True)
        f.write_text(text)
    return d.name


def snapshot(root: Path, skip: set, texts: bool = False) -> dict:
    out = {}
    for p in sorted(root.rglob("*")):
        rel = p.relative_to(root).as_posix()
        if rel.split("/")[0] in skip or "__pycache__" in rel:
            continue
        if p.is_dir():
            out[rel + "/"] = "dir"
        else:
            out[rel] = p.read_bytes().decode("utf-8", "replace") if texts else hashlib.sha256(p.read_bytes()).hexdigest()
    return out


def generate_once(root: Path, case: dict, schema_path: str, queries_path: str) -> dict:
    """fork; child runs the real entry point; returns {} or {"error": ...}"""
    r, w = os.pipe()
    pid = os.fork()
    if pid == 0:
        os.close(r)
        msg = {}
        try:
            os.chdir(root)  # BEFORE importing: isort's default config looks at the cwd at import time, as in a CLI run
            from ariadne_codegen import main as ac_main

            buf = io.StringIO()
            if case["strategy"] == "client":
                cfg = {"schema_path": schema_path, "target_package_name": "gen_pkg"}
                if queries_path:
                    cfg["queries_path"] = queries_path
                cfg.update(case.get("config") or {})
                with contextlib.redirect_stdout(buf):
                    ac_main.client({"tool": {"ariadne-codegen": cfg}})
            else:
                cfg = {"schema_path": schema_path}
                cfg.update(case.get("config") or {})
                with contextlib.redirect_stdout(buf):
                    ac_main.graphql_schema({"tool": {"ariadne-codegen": cfg}})
            # the list of generated files printed by the CLI is part of the observable output
            out = buf.getvalue()
            msg = {"stdout_files": out.split("Generated files:")[1].split() if "Generated files:" in out else []}
        except BaseException as e:  # noqa: BLE001
            msg = {"error": type(e).__name__, "message": str(e)[:500], "tb": traceback.format_exc()[-1500:]}
        try:
            os.write(w, json.dumps(msg).encode())
        finally:
            os._exit(0)
    os.close(w)
    chunks = []
    while True:
        b = os.read(r, 65536)
        if not b:
            break
        chunks.append(b)
    os.close(r)
    os.waitpid(pid, 0)
    try:
        return json.loads(b"".join(chunks).decode() or "{}")
    except ValueError:
        return {"error": "ChildDied"}


def run_case(scratch: Path, case: dict, order_seed: int, texts: bool = False) -> dict:
    root = Path(tempfile.mkdtemp(prefix="case-", dir=scratch))
    try:
        rng = random.Random(f"{order_seed}:{case['id']}")
        schema_path = write_tree(root, case["schema"], "schema.graphql", rng)
        queries_path = write_tree(root, case.get("queries"), "queries.graphql", rng)
        extra = list((case.get("extra_files") or {}).items())
        rng.shuffle(extra)
        for rel, text in extra:
            f = root / rel
            f.parent.mkdir(parents=True, exist_ok=True)
            f.write_text(text)
        inputs = {p.name for p in root.iterdir()}
        res = {}
        for phase in ("fresh", "again"):
            msg = generate_once(root, case, schema_path, queries_path)
            if "error" in msg:
                res[phase] = msg
                break
            snap = snapshot(root, inputs, texts)
            snap["<stdout files>"] = " ".join(msg.get("stdout_files", []))
            res[phase] = snap
        return res
    finally:
        shutil.rmtree(root, ignore_errors=True)


def main() -> int:
    job = json.loads(Path(sys.argv[1]).read_text())
    scratch = Path(job["scratch"])
    results = {}
    for case in job["cases"]:
        results[case["id"]] = run_case(scratch, case, job["order_seed"], bool(job.get("texts")))
    sys.stdout.write(json.dumps({"hashseed": os.environ.get("PYTHONHASHSEED"), "results": results}))
    return 0


if __name__ == "__main__":
    sys.exit(main())
