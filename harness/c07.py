"""C07 — custom scalars are parsed and serialised exactly once per occurrence.

Tie (DESIGN.md §3 C07):
  correspondence
    * `ScalarData` name splitting + `generate_scalar_imports` of the REAL code vs `Model.Scalars`
      on random configurations (dotted / relative paths, deprecated `import` key, empty strings);
    * annotations of REAL generated result classes (classes inlined along their forward references)
      vs `Model.ResultAnn.annOfR` over the response shape of the operation; annotations of REAL
      generated input classes and the `variables` dict are C03's observations (same generator run);
    * the call-log reference semantics `Spec.PydLog` vs the REAL pydantic: dynamically built models /
      `TypeAdapter`s over random annotations with instrumented parse / serialize functions, on
      conformant and corrupted values (validation) and on random instances (dump);
    * the call log of a whole request (`Model.ArgSend.send`) vs the log recorded in REAL packages;
    * the scalar imports + emitted classes of the REAL `InputTypesGenerator.generate(types_to_include)` module
      (both values of `include_all_inputs`, roots = the real ArgumentsGenerator's used inputs) vs
      `Model.InputImports.generate`;
    * a generated method / input class whose text does not fit the IR is a mismatch (and the method is still
      called by the oracle through a loose reading of its text);
    * unions: `Spec.PydUnionLog.validateU` vs the REAL pydantic on random annotations with tagged (`Field(discriminator=…)`)
      and plain unions of model classes under every Optional / List nesting, conformant and corrupted values;
    * abstract result positions (interface / union fields resolved with inline fragments, under every wrapper nesting,
      nested inside member classes): annotations of REAL generated classes (unions, literals, discriminators kept as
      syntax) vs `Model.ResultUnion.annField`; the scalar imports of REAL result modules vs `Model.ResultUnion.resultImports`;
  oracle (the property itself): real packages with instrumented scalars (ten configuration
    families; result selections with plain / optional / list / nested-object / fragment positions and abstract positions -
    interface and union fields with inline fragments under every wrapper nesting, a scalar selected on the interface level
    standing in every member class), real calls: every non-null response occurrence reaches user code as parse(raw), parse
    called once for it and never for null; every non-null argument occurrence is transmitted as
    serialize(value), called once for it and never for None / an omitted argument; type-only scalars
    round-trip, unconfigured ones pass through; every module imports and binds the names its annotations / calls use
    (result modules, input_types.py, client.py) under every include_all_inputs / include_all_enums combination.
    Scalar VALUES include present-but-falsy ones (`TZ("")`, `TZ(0)`, `TZ([])`, `0`: families H, I, J) at every position.
"""
from __future__ import annotations

import json
import random
from typing import Any, Dict, List, Optional, Tuple

from . import argwire, c03, common, engine, wire
from .common import Ctx, Failure, LeanStatus, Mismatch, Result

PROP = "C07"

FINGERPRINTS = [
    ("ariadne_codegen/client_generators/scalars.py", "ScalarData"),
    ("ariadne_codegen/client_generators/scalars.py", "generate_result_scalar_annotation"),
    ("ariadne_codegen/client_generators/scalars.py", "generate_input_scalar_annotation"),
    ("ariadne_codegen/client_generators/scalars.py", "generate_scalar_imports"),
    ("ariadne_codegen/client_generators/result_fields.py", "parse_scalar_type"),
    ("ariadne_codegen/client_generators/result_fields.py", "parse_list_type"),
    ("ariadne_codegen/client_generators/result_fields.py", "parse_operation_field_type"),
    ("ariadne_codegen/client_generators/result_fields.py", "parse_operation_field"),
    ("ariadne_codegen/client_generators/result_fields.py", "annotate_nested_unions"),
    ("ariadne_codegen/client_generators/result_fields.py", "parse_interface_type"),
    ("ariadne_codegen/client_generators/result_fields.py", "parse_union_type"),
    ("ariadne_codegen/client_generators/result_types.py", "ResultTypesGenerator._process_field_implementation"),
    ("ariadne_codegen/codegen.py", "generate_union_annotation"),
    ("ariadne_codegen/client_generators/input_fields.py", "parse_input_field_type"),
    ("ariadne_codegen/client_generators/arguments.py", "ArgumentsGenerator._get_dict_value"),
    ("ariadne_codegen/client_generators/arguments.py", "ArgumentsGenerator._parse_named_type_node"),
    ("ariadne_codegen/client_generators/custom_arguments.py", "ArgumentGenerator._get_dict_value"),
    ("ariadne_codegen/client_generators/client.py", "ClientGenerator.generate"),
    ("ariadne_codegen/client_generators/input_types.py", "InputTypesGenerator.generate"),
    ("ariadne_codegen/client_generators/input_types.py", "InputTypesGenerator.__init__"),
    ("ariadne_codegen/client_generators/input_types.py", "InputTypesGenerator._save_dependencies"),
    ("ariadne_codegen/client_generators/input_types.py", "InputTypesGenerator._filter_class_defs"),
    ("ariadne_codegen/client_generators/input_types.py", "InputTypesGenerator._get_dependencies_of_type"),
    ("ariadne_codegen/client_generators/package.py", "PackageGenerator._generate_input_types"),
    ("ariadne_codegen/client_generators/arguments.py", "ArgumentsGenerator.generate"),
    ("ariadne_codegen/client_generators/result_types.py", "ResultTypesGenerator._add_enums_scalars_fragments_imports"),
    ("ariadne_codegen/config.py", "get_client_settings"),
]

# --------------------------------------------------------------------------------------------
# 1. ScalarData / imports
# --------------------------------------------------------------------------------------------

NAME_PARTS = ["", "a", "Code", "parse_code", "serialize", "datetime", "pkg", "custom_scalars", "x1", "_p"]


def rand_name(rng: random.Random) -> Optional[str]:
    r = rng.random()
    if r < 0.12:
        return None
    if r < 0.18:
        return ""
    n = rng.randint(1, 3)
    s = ".".join(rng.choice(NAME_PARTS[1:]) for _ in range(n))
    if rng.random() < 0.25:
        s = "." + s
    if rng.random() < 0.05:
        s = s + "."
    return s


def child_imports(items: List[Dict[str, Any]]) -> List[Dict[str, Any]]:
    import warnings

    out = []
    try:
        from ariadne_codegen.client_generators.scalars import ScalarData, generate_scalar_imports
    except (ImportError, AttributeError) as e:
        return [{"observer_error": f"{type(e).__name__}: {e}"} for _ in items]
    for it in items:
        try:
            d = ScalarData(type_=it["type"], serialize=it.get("serialize"), parse=it.get("parse"), import_=it.get("import"))
            with warnings.catch_warnings():
                warnings.simplefilter("ignore")
                imps = generate_scalar_imports(d)
            out.append({"imports": [{"module": i.module, "names": [a.name for a in i.names]} for i in imps if i.level == 0] +
                        [{"module": "<level>", "names": []} for i in imps if i.level != 0],
                        "typeName": d.type_name, "parseName": d.parse_name, "serializeName": d.serialize_name,
                        "namesToImport": list(d.names_to_import)})
        except (AttributeError, TypeError) as e:
            out.append({"observer_error": f"{type(e).__name__}: {e}"})
    return out


def run_imports(ctx: Ctx, st: Optional[LeanStatus], res: Result) -> None:
    rng = ctx.sub_rng("imports")
    items = []
    for _ in range(ctx.budget(1000, 10000)):
        t = rand_name(rng)
        items.append({"op": "imports", "type": t if t is not None else "int", "serialize": rand_name(rng), "parse": rand_name(rng),
                      "import": rng.choice([None, None, "", ".custom_scalars", "pkg.mod"])})
    status, real = engine.forked(child_imports, items)
    if status != "ok":
        raise common.Infra(f"imports child failed: {real}")
    if st is None or not st.driver_ok:
        return
    model = common.run_driver(PROP, items)
    for it, r, m in zip(items, real, model):
        res.seen(["imports", it], nontrivial=True)
        if "observer_error" in r:
            res.mismatches.append(Mismatch("scalar-imports", it, "observer: " + r["observer_error"], m))
            continue
        dotted = any("." in (it.get(k) or "") for k in ("type", "serialize", "parse"))
        res.count("imports:" + ("import-key" if it.get("import") else "no-import-key") + ("+dotted" if dotted else ""))
        py_trig = bool(it.get("import")) and any("." in n for n in r["namesToImport"])
        mv = {k: m[k] for k in ("imports", "typeName", "parseName", "serializeName", "namesToImport")}
        if not common.same_json(r, mv):
            res.mismatches.append(Mismatch("scalar-imports", it, r, mv))
        if py_trig != m["trigImportKeyDotted"]:
            res.mismatches.append(Mismatch("triggers", it, {"trigImportKeyDotted": py_trig}, {"trigImportKeyDotted": m["trigImportKeyDotted"]}))
        if py_trig:
            res.count("imports:inside:trigImportKeyDotted")


# --------------------------------------------------------------------------------------------
# 2. pydantic with call logs (third-party reference semantics)
# --------------------------------------------------------------------------------------------


def rand_leaf(rng: random.Random, side: str) -> Dict[str, Any]:
    r = rng.random()
    if side == "result":
        if r < 0.55:
            return {"k": "before", "type": "Sc", "parse": rng.choice(["parse_a", "parse_b"])}
        return {"k": "name", "n": "Any"}
    if r < 0.55:
        return {"k": "ser", "type": "Sc", "fn": rng.choice(["serialize_a", "serialize_b"])}
    return {"k": "name", "n": "Any"}


def rand_rann(rng: random.Random, depth: int = 0) -> Dict[str, Any]:
    r = rng.random()
    opt = rng.random() < 0.5
    if depth < 3 and r < 0.3:
        return {"k": "list", "item": rand_rann(rng, depth + 1), "opt": opt}
    if depth < 2 and r < 0.5:
        n = rng.randint(1, 3)
        return {"k": "obj", "fields": [[f"k{i}", rand_rann(rng, depth + 1)] for i in range(n)], "opt": opt}
    return {"k": "leaf", "l": rand_leaf(rng, "result"), "opt": opt}


def rand_value_for(rng: random.Random, ann: Dict[str, Any], corrupt: float, depth: int = 0) -> Any:
    if rng.random() < corrupt:
        return rng.choice([None, 5, "x", [], {}, [None], {"k0": None}])
    if ann["opt"] and rng.random() < 0.3:
        return None
    if ann["k"] == "list":
        return [rand_value_for(rng, ann["item"], corrupt, depth + 1) for _ in range(rng.randint(0, 3))]
    if ann["k"] == "obj":
        return {k: rand_value_for(rng, a, corrupt, depth + 1) for k, a in ann["fields"]}
    return rng.choice(["r", 3, ["a", None], {"z": 1}, "", 0, False])


def child_pydantic(items: List[Dict[str, Any]]) -> List[Dict[str, Any]]:
    """REAL pydantic on the annotation languages of Spec.PydLog, with instrumented functions"""
    from typing import Annotated, Any as TAny, List as TList, Optional as TOptional

    from pydantic import BaseModel, BeforeValidator, ConfigDict, Field, PlainSerializer, TypeAdapter, ValidationError, create_model

    log: List[Any] = []

    class Sc:
        def __init__(self, raw: Any) -> None:
            self.raw = raw

    class Unset:
        pass

    def mk_parse(name: str) -> Any:
        def parse(raw: Any) -> Any:
            log.append([name, wire.enc(raw)])
            return Sc(raw)

        return parse

    def canon(v: Any) -> Any:
        if v is None or isinstance(v, (bool, int, float, str)):
            return v
        if isinstance(v, Sc):
            return {"$leaf": wire.enc(v.raw)}
        if isinstance(v, list):
            return [canon(x) for x in v]
        if isinstance(v, dict):
            return {"$dict": [[k, canon(x)] for k, x in v.items()]}
        return {"$opaque": True}

    def kind(v: Any) -> str:
        return ("None" if v is None else "bool" if isinstance(v, bool) else "number" if isinstance(v, (int, float)) else "str" if isinstance(v, str)
                else "list" if isinstance(v, list) else "dict" if isinstance(v, dict) else "model" if isinstance(v, BaseModel) else "scalar")

    def mk_ser(name: str) -> Any:
        def ser(v: Any) -> Any:
            log.append([name, canon(v)])
            if isinstance(v, Sc):
                return {"$ser": name, "v": v.raw}
            return {"$ser": name, "other": kind(v)}

        return ser

    counter = [0]

    def build(ann: Dict[str, Any]) -> Any:
        if ann["k"] == "leaf":
            l = ann["l"]
            if l["k"] == "before":
                t: Any = Annotated[Sc, BeforeValidator(mk_parse(l["parse"]))]
            elif l["k"] == "ser":
                t = Annotated[Sc, PlainSerializer(mk_ser(l["fn"]))]
            else:
                t = TAny
        elif ann["k"] == "list":
            t = TList[build(ann["item"])]  # type: ignore
        else:
            counter[0] += 1
            fields = {}
            for i, (k, a) in enumerate(ann["fields"]):
                fields[f"f{i}"] = (build(a), Field(alias=k))
            t = create_model(f"M{counter[0]}", __config__=ConfigDict(arbitrary_types_allowed=True, populate_by_name=True), **fields)  # type: ignore
        return TOptional[t] if ann["opt"] else t

    def to_py(v: Any, classes: Dict[str, Any]) -> Any:
        """AV JSON -> python value for dumping (model instances of dynamically built classes)"""
        if v is None:
            return None
        k = v["k"]
        if k in ("bool", "int", "float", "str"):
            return v["v"]
        if k == "enum":
            return v["v"]
        if k == "custom":
            return Sc(wire.dec(v["j"]))
        if k == "list":
            return [to_py(x, classes) for x in v["xs"]]
        if k == "model":
            counter[0] += 1
            fields = {}
            kwargs = {}
            for i, f in enumerate(v["fields"]):
                fields[f"f{i}"] = (nann(f["ann"]), Field(default=None, alias=f["key"]))
                if not (isinstance(f["v"], dict) and f["v"].get("k") == "unset"):
                    kwargs[f["key"]] = to_py(f["v"], classes)
            cls = create_model(f"D{counter[0]}", __config__=ConfigDict(arbitrary_types_allowed=True, populate_by_name=True), **fields)  # type: ignore
            return cls.model_construct(_fields_set={f"f{i}" for i, f in enumerate(v["fields"]) if not (isinstance(f["v"], dict) and f["v"].get("k") == "unset")},
                                       **{f"f{i}": to_py(f["v"], classes) for i, f in enumerate(v["fields"])
                                          if not (isinstance(f["v"], dict) and f["v"].get("k") == "unset")})
        raise ValueError(k)

    def nann(ann: Dict[str, Any]) -> Any:
        if ann["k"] == "list":
            t: Any = TList[nann(ann["item"])]  # type: ignore
        else:
            l = ann["l"]
            t = Annotated[TAny, PlainSerializer(mk_ser(l["fn"]))] if l["k"] == "ser" else TAny
        return TOptional[t] if ann["opt"] else t

    def pv(v: Any) -> Any:
        """a dumped python value in the encoding of Driver/ArgWire.lean encPV"""
        if v is None or isinstance(v, (bool, int, float, str)):
            return v
        if isinstance(v, Sc):
            return {"$leaf": wire.enc(v.raw)}
        if isinstance(v, list):
            return [pv(x) for x in v]
        if isinstance(v, dict):
            if set(v.keys()) == {"$ser", "v"} or set(v.keys()) == {"$ser", "other"}:
                return {"$leaf": wire.enc(v)}
            return {"$dict": [[k, pv(x)] for k, x in v.items()]}
        return {"$opaque": True}

    out = []
    for it in items:
        log.clear()
        try:
            if it["op"] == "validate":
                ta = TypeAdapter(build(it["ann"]), config=None if it["ann"]["k"] == "obj" and not it["ann"]["opt"] else ConfigDict(arbitrary_types_allowed=True))
                ok = True
                try:
                    ta.validate_python(wire.dec(it["j"]))
                except ValidationError:
                    ok = False
                out.append({"calls": list(log), "ok": ok})
            else:
                import warnings

                inst = to_py(it["v"], {})
                with warnings.catch_warnings():
                    warnings.simplefilter("ignore")
                    ta = TypeAdapter(nann(it["ann"]) if it["v"] is None or it["v"]["k"] != "model" else TOptional[type(inst)],
                                     config=ConfigDict(arbitrary_types_allowed=True) if (it["v"] is None or it["v"]["k"] != "model") else None)
                    d = ta.dump_python(inst, by_alias=True, exclude_unset=True)
                out.append({"ok": {"p": pv(d), "calls": list(log)}})
        except BaseException as e:  # noqa: BLE001
            out.append({"exception": f"{type(e).__name__}: {str(e)[:200]}"})
    return out


def rand_dump_value(rng: random.Random, ann: Dict[str, Any], depth: int = 0) -> Any:
    """an AV (with nested model instances carrying their own field annotations) that pydantic accepts for `ann`"""
    if ann["opt"] and rng.random() < 0.3:
        return None
    if ann["k"] == "list":
        return {"k": "list", "xs": [rand_dump_value(rng, ann["item"], depth + 1) for _ in range(rng.randint(0, 3))]}
    if ann["l"]["k"] == "ser":
        return {"k": "custom", "scalar": "Sc", "j": wire.enc(rng.choice(["r", 3, ["a"], {"z": 1}, ""]))}
    if depth < 3 and rng.random() < 0.4:
        fields = []
        for i in range(rng.randint(1, 3)):
            fann = rand_nann(rng, depth + 1)
            fields.append({"key": f"k{i}", "ann": fann, "v": {"k": "unset"} if rng.random() < 0.3 else rand_dump_value(rng, fann, depth + 1)})
        return {"k": "model", "cls": "M", "fields": fields}
    return rng.choice([{"k": "int", "v": 3}, {"k": "str", "v": "s"}, {"k": "bool", "v": True}, {"k": "float", "v": 1.5}])


def rand_nann(rng: random.Random, depth: int = 0) -> Dict[str, Any]:
    opt = rng.random() < 0.5
    if depth < 3 and rng.random() < 0.35:
        return {"k": "list", "item": rand_nann(rng, depth + 1), "opt": opt}
    return {"k": "leaf", "l": rand_leaf(rng, "input"), "opt": opt}


def run_pydantic(ctx: Ctx, st: Optional[LeanStatus], res: Result) -> None:
    rng = ctx.sub_rng("pydantic")
    items = []
    for _ in range(ctx.budget(3000, 30000)):
        ann = rand_rann(rng)
        items.append({"op": "validate", "ann": ann, "j": wire.enc(rand_value_for(rng, ann, corrupt=rng.choice([0.0, 0.0, 0.1])))})
    for _ in range(ctx.budget(2000, 20000)):
        ann = rand_nann(rng)
        items.append({"op": "dump", "ann": ann, "v": rand_dump_value(rng, ann)})
    chunks = [items[i:i + 400] for i in range(0, len(items), 400)]
    outs = engine.pmap_forked(child_pydantic, [(c,) for c in chunks], timeout=300)
    real: List[Any] = []
    for status, val in outs:
        if status != "ok":
            raise common.Infra(f"pydantic child failed: {status} {str(val)[:300]}")
        real += val
    if st is None or not st.driver_ok:
        return
    model = common.run_driver(PROP, items)
    for it, r, m in zip(items, real, model):
        res.seen([it["op"], it], nontrivial=True)
        if "exception" in r:
            # the harness could not even build the type / instance: infrastructure of the observer, reported as a mismatch
            res.mismatches.append(Mismatch("pydantic-" + it["op"], it, "observer: " + r["exception"], m))
            continue
        if it["op"] == "validate":
            res.count("pydantic:validate:" + ("accepted" if r["ok"] else "rejected"))
            res.count("pydantic:parse-calls", len(r["calls"]))
            if not common.same_json(r, m):
                res.mismatches.append(Mismatch("pydantic-validate", it, r, m))
        else:
            if "error" in m:
                res.count("pydantic:dump:unmodelled")
                continue
            res.count("pydantic:serialize-calls", len(r["ok"]["calls"]))
            if not common.same_json(r, m):
                res.mismatches.append(Mismatch("pydantic-dump", it, r, m))


# --------------------------------------------------------------------------------------------
# 2a. pydantic on unions of model classes (tagged / plain), with call logs
# --------------------------------------------------------------------------------------------

TAG_POOL = ["A", "B", "C", "D", "E", "F"]


def rand_pleaf(rng: random.Random) -> Dict[str, Any]:
    return {"k": "leaf", "l": rand_leaf(rng, "result")}


def rand_pmember_fields(rng: random.Random, depth: int, tags: Optional[List[str]], shared: List[List[Any]]) -> List[List[Any]]:
    fs: List[List[Any]] = []
    if tags is not None:
        fs.append(["__typename", {"k": "literal", "vs": tags}])
    fs += [[k, a] for k, a in shared]
    for i in range(rng.randint(0, 2)):
        fs.append([f"m{depth}_{i}", rand_pann(rng, depth + 1)])
    return fs


def rand_punion(rng: random.Random, depth: int) -> Dict[str, Any]:
    tagged = rng.random() < 0.6
    n = rng.randint(2, 3)
    pool = rng.sample(TAG_POOL, len(TAG_POOL))
    shared = [[f"s{depth}_{i}", rand_pann(rng, depth + 1)] for i in range(rng.randint(0, 2))]
    members = []
    for i in range(n):
        tags: Optional[List[str]] = [pool.pop() for _ in range(rng.randint(1, 2))]
        if not tagged and rng.random() < 0.25:
            tags = None  # a plain union may hold classes without a Literal field
        if not tagged and tags is not None and rng.random() < 0.2:
            tags = tags + [rng.choice(TAG_POOL)]  # overlapping literals are legal in a plain union
        members.append(rand_pmember_fields(rng, depth, tags, shared))
    return {"k": "dunion" if tagged else "union", "members": members}


def rand_pann(rng: random.Random, depth: int = 0, under_opt: bool = False) -> Dict[str, Any]:
    r = rng.random()
    if not under_opt and r < 0.25:
        return {"k": "optional", "a": rand_pann(rng, depth, True)}
    if depth < 3 and r < 0.45:
        return {"k": "list", "a": rand_pann(rng, depth + 1)}
    if depth < 2 and r < 0.6:
        return {"k": "model", "fields": [[f"k{depth}_{i}", rand_pann(rng, depth + 1)] for i in range(rng.randint(1, 3))]}
    if depth < 2 and r < 0.85:
        return rand_punion(rng, depth)
    return rand_pleaf(rng)


def rand_pvalue(rng: random.Random, ann: Dict[str, Any], corrupt: float) -> Any:
    if rng.random() < corrupt:
        return rng.choice([None, 5, "x", [], {}, [None], {"__typename": "A"}, {"__typename": 3}, {"__typename": "Zz", "s0_0": 1}])
    k = ann["k"]
    if k == "optional":
        return None if rng.random() < 0.3 else rand_pvalue(rng, ann["a"], corrupt)
    if k == "list":
        return [rand_pvalue(rng, ann["a"], corrupt) for _ in range(rng.randint(0, 3))]
    if k == "literal":
        return rng.choice(ann["vs"]) if ann["vs"] and rng.random() < 0.9 else rng.choice(TAG_POOL)
    if k == "model":
        return {key: rand_pvalue(rng, a, corrupt) for key, a in ann["fields"]}
    if k in ("union", "dunion"):
        fs = rng.choice(ann["members"])
        return {key: rand_pvalue(rng, a, corrupt) for key, a in fs}
    return rng.choice(["r", 3, ["a", None], {"z": 1}, "", 0, False])


def child_pydantic_u(items: List[Dict[str, Any]]) -> List[Dict[str, Any]]:
    """REAL pydantic on the annotation syntax of Model.ResultUnion.PAnn (unions of dynamically built model classes),
    with instrumented parse functions"""
    from typing import Annotated, Any as TAny, List as TList, Literal as TLiteral, Optional as TOptional, Union as TUnion

    from pydantic import BeforeValidator, ConfigDict, Field, ValidationError, create_model

    log: List[Any] = []

    class Sc:
        def __init__(self, raw: Any) -> None:
            self.raw = raw

    def mk_parse(name: str) -> Any:
        def parse(raw: Any) -> Any:
            log.append([name, wire.enc(raw)])
            return Sc(raw)

        return parse

    counter = [0]
    cfg = ConfigDict(arbitrary_types_allowed=True, populate_by_name=True)

    def build_model(fields: List[List[Any]]) -> Any:
        counter[0] += 1
        fs: Dict[str, Any] = {}
        for i, (k, a) in enumerate(fields):
            name = "typename__" if k == "__typename" else f"f{i}"
            fs[name] = (build(a), Field(alias=k))
        return create_model(f"U{counter[0]}", __config__=cfg, **fs)  # type: ignore

    def build(ann: Dict[str, Any]) -> Any:
        k = ann["k"]
        if k == "leaf":
            l = ann["l"]
            return Annotated[Sc, BeforeValidator(mk_parse(l["parse"]))] if l["k"] == "before" else TAny
        if k == "literal":
            return TLiteral[tuple(ann["vs"])]  # type: ignore
        if k == "optional":
            return TOptional[build(ann["a"])]
        if k == "list":
            return TList[build(ann["a"])]  # type: ignore
        if k == "model":
            return build_model(ann["fields"])
        members = tuple(build_model(fs) for fs in ann["members"])
        u = TUnion[members]  # type: ignore
        return Annotated[u, Field(discriminator="typename__")] if k == "dunion" else u

    out = []
    for it in items:
        log.clear()
        try:
            root = create_model("Root", __config__=cfg, x=(build(it["ann"]), ...))  # type: ignore
            ok = True
            try:
                root.model_validate({"x": wire.dec(it["j"])})
            except ValidationError:
                ok = False
            out.append({"calls": list(log), "ok": ok})
        except BaseException as e:  # noqa: BLE001
            out.append({"exception": f"{type(e).__name__}: {str(e)[:200]}"})
    return out


def pann_has(ann: Dict[str, Any], kind: str) -> bool:
    k = ann["k"]
    if k == kind:
        return True
    if k in ("optional", "list"):
        return pann_has(ann["a"], kind)
    if k == "model":
        return any(pann_has(a, kind) for _, a in ann["fields"])
    if k in ("union", "dunion"):
        return any(pann_has(a, kind) for fs in ann["members"] for _, a in fs)
    return False


def run_pydantic_unions(ctx: Ctx, st: Optional[LeanStatus], res: Result) -> None:
    rng = ctx.sub_rng("pydantic-unions")
    items = []
    for _ in range(ctx.budget(2500, 25000)):
        ann = rand_pann(rng)
        if not (pann_has(ann, "union") or pann_has(ann, "dunion")) and rng.random() < 0.8:
            ann = {"k": rng.choice(["list", "optional"]), "a": rand_punion(rng, 1)}
        items.append({"op": "validateU", "ann": ann, "j": wire.enc(rand_pvalue(rng, ann, corrupt=rng.choice([0.0, 0.0, 0.08])))})
    chunks = [items[i:i + 300] for i in range(0, len(items), 300)]
    outs = engine.pmap_forked(child_pydantic_u, [(c,) for c in chunks], timeout=300)
    real: List[Any] = []
    for status, val in outs:
        if status != "ok":
            raise common.Infra(f"pydantic-unions child failed: {status} {str(val)[:300]}")
        real += val
    if st is None or not st.driver_ok:
        return
    model = common.run_driver(PROP, items)
    for it, r, m in zip(items, real, model):
        res.seen(["validateU", it], nontrivial=True)
        if "exception" in r:
            res.mismatches.append(Mismatch("pydantic-union", it, "observer: " + r["exception"], m))
            continue
        res.count("pydantic-union:" + ("tagged" if pann_has(it["ann"], "dunion") else "") + ("+plain" if pann_has(it["ann"], "union") else "")
                  + (":accepted" if r["ok"] else ":rejected"))
        res.count("pydantic-union:parse-calls", len(r["calls"]))
        if not common.same_json(r, m):
            res.mismatches.append(Mismatch("pydantic-union", it, r, m))


# --------------------------------------------------------------------------------------------
# 2b. the scalar imports of the input-types module (AST level, before autoflake / isort)
# --------------------------------------------------------------------------------------------

FIXED_INPUT_IMPORTS = 4  # typing, pydantic, base_model, upload (InputTypesGenerator.__init__)


def child_inputs_module(cases: List[Dict[str, Any]]) -> List[Dict[str, Any]]:
    """REAL ArgumentsGenerator (-> used inputs) + REAL InputTypesGenerator.generate as package.py `_generate_input_types`
    calls them, for include_all_inputs = True and False"""
    import ast
    import warnings

    from graphql import build_schema, parse

    out = []
    for case in cases:
        rec: Dict[str, Any] = {"variants": []}
        out.append(rec)
        schema = build_schema(case["sdl"])
        doc = parse(case["queries"])
        rec["ischema"] = argwire.ischema_json(schema)
        try:
            from ariadne_codegen.client_generators.arguments import ArgumentsGenerator
            from ariadne_codegen.client_generators.input_types import InputTypesGenerator

            scalars = c03._scalar_data(case)
        except (ImportError, AttributeError, TypeError) as e:
            rec["observer_error"] = f"{type(e).__name__}: {e}"
            continue
        for include_all in (True, False):
            v: Dict[str, Any] = {"include_all_inputs": include_all}
            rec["variants"].append(v)
            try:
                with warnings.catch_warnings():
                    warnings.simplefilter("ignore")
                    ag = ArgumentsGenerator(schema=schema, convert_to_snake_case=case["snake"], custom_scalars=scalars)
                    for op in [d for d in doc.definitions if hasattr(d, "operation")]:
                        ag.generate(op.variable_definitions)
                    used = list(ag.get_used_inputs())
                    itg = InputTypesGenerator(schema=schema, convert_to_snake_case=case["snake"], custom_scalars=scalars)
                    module = itg.generate() if include_all else itg.generate(types_to_include=used)
                imps = [n for n in module.body if isinstance(n, ast.ImportFrom)]
                v["used_inputs"] = used
                v["fixed"] = len(imps[:FIXED_INPUT_IMPORTS])
                v["imports"] = [{"module": i.module, "names": [a.name for a in i.names]} for i in imps[FIXED_INPUT_IMPORTS:] if i.level == 0]
                v["classes"] = [n.name for n in module.body if isinstance(n, ast.ClassDef)]
                v["usedScalars"] = list(itg._used_scalars) if isinstance(getattr(itg, "_used_scalars", None), list) else None
            except (AttributeError, TypeError) as e:
                import traceback

                tb = traceback.extract_tb(e.__traceback__)
                if any("ariadne_codegen" in f.filename for f in tb[1:]):
                    v["error"] = "internal:" + type(e).__name__
                else:
                    v["observer_error"] = f"{type(e).__name__}: {e}"
            except BaseException as e:  # noqa: BLE001
                v["error"] = type(e).__name__
    return out


def add_deep_chain(rng: random.Random, c: Dict[str, Any], attach_p: float, root_p: float) -> None:
    """a chain of input types Deep0 -> Deep1 -> ... below the generated ones, each with a scalar leaf, so that custom
    scalars sit at every distance from the inputs the operations name (reachable only through the dependency closure
    when the chain is attached, unreachable otherwise)"""
    if not c["scalars"] or not c["inputs"]:
        return
    names = ["Deep" + str(i) for i in range(rng.randint(1, 3))]
    for i, nme in enumerate(names):
        fields = [{"name": "leaf", "type": argwire._wrap(rng, argwire.named(rng.choice(list(c["scalars"]) * 2 + argwire.BUILTIN_SCALARS))), "default": None}]
        if i + 1 < len(names):
            fields.append({"name": "next", "type": argwire._wrap(rng, argwire.named(names[i + 1]), 1), "default": None})
        c["inputs"][nme] = fields
    hosts = [k for k in c["inputs"] if not k.startswith("Deep")]
    if rng.random() < attach_p:
        host = rng.choice(hosts)
        c["inputs"][host].append({"name": "deep", "type": argwire.named(names[0]), "default": None})
        if rng.random() < root_p and c["ops"] and not any(d["name"] == "input" for d in c["ops"][0]["defs"]):
            c["ops"][0]["defs"].append({"name": "input", "type": argwire._wrap(rng, argwire.named(host), 1), "default": None})
    argwire.finish_case(c)


def inputs_module_cases(ctx: Ctx, n: int) -> List[Dict[str, Any]]:
    rng = ctx.sub_rng("inputs-module")
    cases = []
    for _ in range(n):
        c = argwire.gen_case(rng, trigger_names=0.0, harmless_names=0.1, want_results=False, n_ops=rng.randint(1, 2),
                             families=rng.sample(ALL_FAMILIES, rng.randint(1, 4)))
        if rng.random() < 0.6:
            add_deep_chain(rng, c, attach_p=0.7, root_p=0.3)
        cases.append(c)
    return cases


def run_inputs_module(ctx: Ctx, st: Optional[LeanStatus], res: Result) -> None:
    cases = inputs_module_cases(ctx, ctx.budget(2000, 8000))
    chunks = [cases[i:i + 100] for i in range(0, len(cases), 100)]
    outs = engine.pmap_forked(child_inputs_module, [(c,) for c in chunks], timeout=300)
    real: List[Any] = []
    for status, val in outs:
        if status != "ok":
            raise common.Infra(f"inputs-module child failed: {status} {str(val)[:300]}")
        real += val
    lines, meta = [], []
    for case, rec in zip(cases, real):
        inp = {"sdl": case["sdl"], "queries": case["queries"], "scalars": case["scalars"]}
        if "observer_error" in rec:
            res.mismatches.append(Mismatch("inputs-module", inp, "observer: " + rec["observer_error"], None))
            continue
        roots = [argwire.base_of(d["type"]) for op in case["ops"] for d in op["defs"] if argwire.base_of(d["type"]) in case["inputs"]]
        for v in rec["variants"]:
            lines.append({"op": "inputsModule", "schema": rec["ischema"], "scalars": argwire.scalars_cfg_json(case),
                          "roots": None if v["include_all_inputs"] else roots})
            meta.append((case, inp, v, roots))
    if st is None or not st.driver_ok or not lines:
        return
    for (case, inp, v, roots), m in zip(meta, common.run_driver(PROP, lines)):
        inp = dict(inp, include_all_inputs=v["include_all_inputs"])
        nested = (not v["include_all_inputs"]) and bool(nested_only_scalars(case))
        res.seen(["inputs-module", inp], nontrivial=bool(case["scalars"]) and bool(case["inputs"]))
        res.count("inputs-module:" + ("all" if v["include_all_inputs"] else "pruned") + (":scalar-only-in-nested-input" if nested else ""))
        if "observer_error" in v:
            res.mismatches.append(Mismatch("inputs-module", inp, "observer: " + v["observer_error"], m))
            continue
        if "error" in v or "error" in m:
            if ("error" in v) != ("error" in m) or not str(v.get("error", "")).endswith(str(m.get("error"))):
                res.mismatches.append(Mismatch("inputs-module", inp, {"error": v.get("error")}, m))
            continue
        # the import list is compared as the set of (module, name) bindings it makes: order and repetitions do not
        # reach the emitted file (isort / autoflake)
        def bindings(imps: List[Dict[str, Any]]) -> List[List[str]]:
            return sorted({(i["module"], n) for i in imps for n in i["names"]})  # type: ignore

        rv = {"classes": v["classes"], "bindings": bindings(v["imports"]), "fixedImports": v["fixed"]}
        mv = {"classes": m["ok"]["classes"], "bindings": bindings(m["ok"]["imports"]), "fixedImports": FIXED_INPUT_IMPORTS}
        if not v["include_all_inputs"] and not common.same_json(v["used_inputs"], roots, ordered=True):
            res.mismatches.append(Mismatch("used-inputs", inp, v["used_inputs"], roots))
        if not common.same_json(json.loads(json.dumps(rv)), json.loads(json.dumps(mv)), ordered=True):
            res.mismatches.append(Mismatch("inputs-module", inp, rv, mv))
        elif v.get("usedScalars") is not None and sorted(set(v["usedScalars"])) != sorted(set(m["ok"]["usedScalars"])):
            res.mismatches.append(Mismatch("inputs-module", inp, {"usedScalars": v["usedScalars"]}, {"usedScalars": m["ok"]["usedScalars"]}))
        res.count("inputs-module:scalar-imports", len(m["ok"]["imports"]))


# --------------------------------------------------------------------------------------------
# 3. real packages: result annotations, call logs, the oracle
# --------------------------------------------------------------------------------------------


def shape_of_op(case: Dict[str, Any], op: Dict[str, Any]) -> Dict[str, Any]:
    """the response shape (RT) of the selection argwire.finish_case writes for an operation"""

    def scal(nested: bool) -> List[List[Any]]:
        fs: List[List[Any]] = []
        for s in argwire.result_scalars(case):
            p = s.lower()
            c = lambda nn, s=s: {"k": "custom", "scalar": s, "nn": nn}  # noqa: E731
            fs += [[p + "Plain", c(False)], [p + "Req", c(True)], [p + "List", {"k": "list", "item": c(False), "nn": False}],
                   [p + "Deep", {"k": "list", "item": {"k": "list", "item": c(True), "nn": False}, "nn": True}]]
        return fs

    ok = ["ok", {"k": "plain", "py": "bool", "nn": False}]
    child = {"k": "obj", "fields": [ok] + scal(True), "nn": False}
    if case.get("fragments") and scal(True):
        # `child { ...RScalars ok }`: the fragment's fields are those of the base class, validated first
        child = {"k": "obj", "fields": scal(True) + [ok], "nn": False}
    kids_fields = scal(True) or [ok]
    kids = {"k": "list", "item": {"k": "obj", "fields": kids_fields, "nn": True}, "nn": False}
    r = {"k": "obj", "fields": [ok] + scal(False) + [["child", child], ["kids", kids]], "nn": False}
    if case.get("abstract"):
        r["fields"] += [[f["name"], abstract_shape(case, f)] for f in case["abstract"]["fields"]]
    return {"k": "obj", "fields": [[op["field"], r]], "nn": True}


def abstract_shape(case: Dict[str, Any], f: Dict[str, Any]) -> Dict[str, Any]:
    """the response shape (RTU) of one abstract field of argwire.abstract_selection: one class per member, told apart by
    the `Literal` of its `__typename` field (the class of the interface itself takes the interface name and every
    possible type without a fragment), under the wrappers of the field's type"""

    def cust(s: str, nn: bool) -> Dict[str, Any]:
        return {"k": "custom", "scalar": s, "nn": nn}

    def plain(py: str, nn: bool) -> Dict[str, Any]:
        return {"k": "plain", "py": py, "nn": nn}

    def tag(vals: List[str]) -> List[Any]:
        return ["__typename", {"k": "tag", "vals": sorted(vals)}]

    rs = argwire.result_scalars(case)
    ifields: List[List[Any]] = []
    for s in rs:
        p = s.lower()
        ifields += [[p + "Stamp", cust(s, True)], [p + "Opt", cust(s, False)], [p + "Items", {"k": "list", "item": cust(s, False), "nn": False}]]

    def member_fields(m: str, iface: bool, nest: bool) -> List[List[Any]]:
        if m == "Cat":
            fs = [[s.lower() + "Cat", cust(s, False)] for s in rs] + [["lives", plain("int", False)]]
            if nest:
                fs.append(["friend", position("Animal", ["Dog"], iface, False, False)])
            return fs
        if m == "Dog":
            return [[s.lower() + "Dog", {"k": "list", "item": cust(s, True), "nn": False}] for s in rs] + [["barks", plain("bool", False)]]
        return [["id", plain("str", True)]]

    def position(base: str, frags: List[str], iface: bool, nest: bool, nn: bool) -> Dict[str, Any]:
        possible = argwire.ABSTRACT_POSSIBLE[base]
        own = ifields if iface else []
        if base == "Animal":
            if not frags:
                return {"k": "obj", "fields": [tag(["Animal"] + possible)] + (own or [["id", plain("str", True)]]), "nn": nn}
            members = [[tag(["Animal"] + [t for t in possible if t not in frags])] + own]
            for m in sorted(frags):
                members.append([tag([m])] + own + member_fields(m, iface, nest))
            return {"k": "abs", "members": members, "nn": nn}
        members = []
        for m in possible:  # parse_union_type: one class per type of the union, in schema order
            members.append([tag([m])] + ((own + member_fields(m, iface, nest)) if m in frags else []))
        return {"k": "abs", "members": members, "nn": nn}

    def wrap(t: List[Any], nn: bool) -> Dict[str, Any]:
        if t[0] == "nonnull":
            return wrap(t[1], True)
        if t[0] == "list":
            return {"k": "list", "item": wrap(t[1], False), "nn": nn}
        return position(t[1], list(f["frags"]), bool(f.get("iface")), bool(f.get("nest")), nn)

    return wrap(f["type"], False)


# ---- real result classes with unions -> the annotation syntax of Model.ResultUnion.PAnn


def ann_to_pann(node: Any) -> Dict[str, Any]:
    """annotation ast of a generated result class -> PAnn with wrappers as syntax; forward references stay {"k":"fwd"}
    until `inline_u`; raises CanonError on any shape the result generators are not known to emit"""
    import ast

    if isinstance(node, ast.Constant) and isinstance(node.value, str):
        return {"k": "fwd", "cls": node.value}
    if isinstance(node, ast.Name):
        if node.id.startswith('"') and node.id.endswith('"') and len(node.id) >= 2:
            return {"k": "fwd", "cls": node.id[1:-1]}
        return {"k": "leaf", "l": {"k": "name", "n": node.id}}
    if isinstance(node, ast.Attribute):
        return {"k": "leaf", "l": {"k": "name", "n": ast.unparse(node)}}
    if isinstance(node, ast.Subscript) and isinstance(node.value, ast.Name):
        head = node.value.id
        if head == "Optional":
            return {"k": "optional", "a": ann_to_pann(node.slice)}
        if head == "List":
            return {"k": "list", "a": ann_to_pann(node.slice)}
        if head == "Union":
            elts = node.slice.elts if isinstance(node.slice, ast.Tuple) else [node.slice]
            ms = [ann_to_pann(e) for e in elts]
            if any(m["k"] != "fwd" for m in ms):
                raise argwire.CanonError("union member is not a class: " + ast.unparse(node)[:80])
            return {"k": "union", "members": ms}
        if head == "Literal":
            elts = node.slice.elts if isinstance(node.slice, ast.Tuple) else [node.slice]
            if not all(isinstance(e, ast.Constant) and isinstance(e.value, str) for e in elts):
                raise argwire.CanonError("literal " + ast.unparse(node)[:80])
            return {"k": "literal", "vs": [e.value for e in elts]}
        if head == "Annotated" and isinstance(node.slice, ast.Tuple) and len(node.slice.elts) == 2:
            t, c = node.slice.elts
            if isinstance(c, ast.Call) and isinstance(c.func, ast.Name):
                if c.func.id == "BeforeValidator" and isinstance(t, ast.Name) and len(c.args) == 1 and isinstance(c.args[0], ast.Name) and not c.keywords:
                    return {"k": "leaf", "l": {"k": "before", "type": t.id, "parse": c.args[0].id}}
                if c.func.id == "Field" and not c.args and [kw.arg for kw in c.keywords] == ["discriminator"] \
                        and isinstance(c.keywords[0].value, ast.Constant) and c.keywords[0].value.value == "typename__":
                    inner = ann_to_pann(t)
                    if inner["k"] != "union":
                        raise argwire.CanonError("discriminator on a non-union: " + ast.unparse(node)[:80])
                    return {"k": "dunion", "members": inner["members"]}
    raise argwire.CanonError("annotation " + ast.unparse(node)[:80])


def module_classes_u(src: str) -> Dict[str, List[List[Any]]]:
    """result module source -> class name -> [[response key, PAnn]] (a `Field(discriminator="typename__")` keyword on the
    field turns its `Union[...]` into the tagged union, as pydantic reads it)"""
    import ast

    out: Dict[str, List[List[Any]]] = {}
    for cls in [c for c in ast.parse(src).body if isinstance(c, ast.ClassDef)]:
        if [b.id for b in cls.bases if isinstance(b, ast.Name)] != ["BaseModel"]:
            raise argwire.CanonError(f"class {cls.name}: bases")
        fields: List[List[Any]] = []
        for st in cls.body:
            if not (isinstance(st, ast.AnnAssign) and isinstance(st.target, ast.Name)):
                continue
            ann = ann_to_pann(st.annotation)
            key = st.target.id
            v = st.value
            if v is not None:
                if not (isinstance(v, ast.Call) and isinstance(v.func, ast.Name) and v.func.id == "Field" and not v.args):
                    raise argwire.CanonError(f"{cls.name}.{key}: value " + ast.unparse(v)[:60])
                kws = {kw.arg: kw.value for kw in v.keywords}
                if set(kws) - {"alias", "discriminator"}:
                    raise argwire.CanonError(f"{cls.name}.{key}: Field keywords {sorted(map(str, kws))}")
                if "alias" in kws:
                    if not isinstance(kws["alias"], ast.Constant):
                        raise argwire.CanonError(f"{cls.name}.{key}: alias")
                    key = kws["alias"].value
                if "discriminator" in kws:
                    if not (isinstance(kws["discriminator"], ast.Constant) and kws["discriminator"].value == "typename__"):
                        raise argwire.CanonError(f"{cls.name}.{key}: discriminator")
                    if ann["k"] != "union":
                        raise argwire.CanonError(f"{cls.name}.{key}: discriminator on a non-union")
                    ann = {"k": "dunion", "members": ann["members"]}
            fields.append([key, ann])
        out[cls.name] = fields
    return out


def inline_u(classes: Dict[str, List[List[Any]]], root: str, depth: int = 0) -> List[List[Any]]:
    """the fields of a class with every forward reference replaced by the fields of the class it names"""
    if depth > 14:
        raise argwire.CanonError("class nesting")
    if root not in classes:
        raise argwire.CanonError("class " + root + " not found")

    def conv(a: Dict[str, Any]) -> Dict[str, Any]:
        k = a["k"]
        if k == "fwd":
            return {"k": "model", "fields": inline_u(classes, a["cls"], depth + 1)}
        if k in ("optional", "list"):
            return {"k": k, "a": conv(a["a"])}
        if k in ("union", "dunion"):
            return {"k": k, "members": [inline_u(classes, m["cls"], depth + 1) for m in a["members"]]}
        return a

    return [[key, conv(a)] for key, a in classes[root]]


def names_used_u(a: Dict[str, Any]) -> List[str]:
    k = a["k"]
    if k == "leaf":
        l = a["l"]
        return {"name": [l.get("n")], "before": [l.get("type"), l.get("parse")]}.get(l["k"], [])
    if k in ("optional", "list"):
        return names_used_u(a["a"])
    return []


def all_names_u(a: Dict[str, Any]) -> List[str]:
    """every name the leaves of an inlined annotation use, classes entered"""
    k = a["k"]
    if k == "model":
        return [n for _, x in a["fields"] for n in all_names_u(x)]
    if k in ("union", "dunion"):
        return [n for fs in a["members"] for _, x in fs for n in all_names_u(x)]
    if k in ("optional", "list"):
        return all_names_u(a["a"])
    return [n for n in names_used_u(a) if n]


def pick_member(members: List[List[List[Any]]], j: Any) -> Optional[List[List[Any]]]:
    """the member class of an abstract position an object belongs to: the one whose `__typename` literal lists its type"""
    if not isinstance(j, dict):
        return None
    for fs in members:
        t = next((sub for key, sub in fs if key == "__typename"), None)
        if t is not None and t["k"] == "tag" and j.get("__typename") in t["vals"]:
            return fs
    return None


def inline_classes(classes: Dict[str, List[Dict[str, Any]]], root: str, depth: int = 0,
                   bases: Optional[Dict[str, List[str]]] = None) -> Dict[str, Any]:
    """class IR of a result module (+ the classes of fragments.py it inherits from) -> RAnn of the root class
    (forward references inlined; the fields of base classes first, as pydantic orders them)"""
    if depth > 12:
        raise argwire.CanonError("class nesting")

    def conv(ann: Dict[str, Any]) -> Dict[str, Any]:
        if ann["k"] == "list":
            return {"k": "list", "item": conv(ann["item"]), "opt": ann["opt"]}
        l = ann["l"]
        if l["k"] == "fwd":
            inner = inline_classes(classes, l["cls"], depth + 1, bases)
            inner["opt"] = ann["opt"]
            return inner
        return {"k": "leaf", "l": l, "opt": ann["opt"]}

    if root not in classes:
        raise argwire.CanonError("class " + root + " not found")
    fields: List[List[Any]] = []
    for b in (bases or {}).get(root, []):
        if b in classes:
            fields += inline_classes(classes, b, depth + 1, bases)["fields"]
    own = [[d["alias"] or d["py"], conv(d["ann"])] for d in classes[root]]
    fields = [f for f in fields if f[0] not in {o[0] for o in own}] + own
    return {"k": "obj", "fields": fields, "opt": False}


def expected_parse(case: Dict[str, Any], shape: Dict[str, Any], j: Any) -> List[Any]:
    """the property's right-hand side for results, stated independently: one (parse fn, raw) per non-null
    custom-scalar occurrence whose scalar has parse configured, in selection / list order"""
    if j is None:
        return []
    k = shape["k"]
    if k == "custom":
        fn = argwire.family_of(case, shape["scalar"])["parse"]
        return [[fn, j]] if fn else []
    if k in ("plain", "tag"):
        return []
    if k == "list":
        out: List[Any] = []
        for x in j:
            out += expected_parse(case, shape["item"], x)
        return out
    fields = shape["fields"] if k == "obj" else (pick_member(shape["members"], j) or [])
    out = []
    for key, sub in fields:
        out += expected_parse(case, sub, j.get(key))
    return out


def expected_value(case: Dict[str, Any], shape: Dict[str, Any], j: Any) -> Any:
    """what user code must see for a response value"""
    if j is None:
        return None
    k = shape["k"]
    if k == "custom":
        fam = argwire.family_of(case, shape["scalar"])
        if fam["parse"] and fam["py"] == "cls":
            return {"$scalar": fam["cls"], "raw": j}
        if fam["parse"]:  # parse_e: returns the raw string (or its JSON text)
            return j if isinstance(j, str) else json.dumps(j, sort_keys=True)
        if fam["py"] == "datetime":
            import datetime

            return {"$datetime": datetime.datetime.fromisoformat(j).isoformat()}
        return j
    if k in ("plain", "tag"):
        return j
    if k == "list":
        return [expected_value(case, shape["item"], x) for x in j]
    fields = shape["fields"] if k == "obj" else (pick_member(shape["members"], j) or [])
    return {key: expected_value(case, sub, j.get(key)) for key, sub in fields}


def expected_serialize(case: Dict[str, Any], defs: List[Dict[str, Any]], values: List[Any]) -> List[Any]:
    out: List[Any] = []
    for d, v in zip(defs, values):
        if isinstance(v, dict) and v.get("k") == "unset":
            continue
        for fn, raw in argwire.custom_leaves(v, case, "serialize"):
            out.append([fn, {"$leaf": wire.enc(raw)}])
    return out


def split_log(log: List[Any]) -> Tuple[List[Any], List[Any]]:
    ser = [[e[1], e[2]] for e in log if e[0] == "serialize"]
    par = [[e[1], wire.dec(e[2])] for e in log if e[0] == "parse"]
    return ser, par


def sort_calls(cs: List[Any]) -> List[Any]:
    return sorted(cs, key=lambda c: json.dumps(c, sort_keys=True))


def judge_call(case: Dict[str, Any], out: Dict[str, Any], call: Dict[str, Any], rec: Dict[str, Any], op: Dict[str, Any]) -> List[Tuple[str, Optional[str], str]]:
    """The property on one call: (signature, trigger, detail)."""
    fails: List[Tuple[str, Optional[str], str]] = []
    defs = out["defs"][call["op"]]
    if rec["outcome"] == "build-error" and any(argwire.custom_leaves(v, case, w) for v in call["values"] for w in ("serialize", "parse")
                                               if not (isinstance(v, dict) and v.get("k") == "unset")):
        # a generated input class refuses a schema-valid value that carries a custom scalar
        return [("input-model-refuses-valid-scalar-value", None, rec.get("message", "")[:200])]
    if rec["outcome"] in ("no-method", "build-error") or call.get("omits_required"):
        return fails
    ser, par = split_log(rec.get("log", []))

    def serialized(d: Dict[str, Any]) -> bool:
        b = argwire.base_of(d["type"])
        return b in case["scalars"] and argwire.family_of(case, b)["serialize"] is not None

    # --- serialize side: remove what the two known defects explain, compare the rest exactly
    remaining = list(ser)
    for d, v in zip(defs, call["values"]):
        if not serialized(d):
            continue
        fn = argwire.family_of(case, argwire.base_of(d["type"]))["serialize"]
        unset = isinstance(v, dict) and v.get("k") == "unset"
        is_list = argwire.is_list_type(d["type"])
        defect = None
        if unset:
            defect = ("serialize-called-on-UNSET", [fn, {"$unset": True}])
        elif v is None:
            defect = ("serialize-called-on-None", [fn, None])
        elif is_list:
            defect = ("serialize-called-on-list", [fn, argwire_canon_list(v)])
        if defect is not None:
            sig, entry = defect
            hit = next((e for e in remaining if common.same_json(e, entry)), None)
            if hit is not None:
                remaining.remove(hit)
                fails.append((sig, "trigSerializeList" if is_list else "trigSerializeNullable", f"${d['name']}: {json.dumps(entry)[:100]}"))
    exp = []
    for d, v in zip(defs, call["values"]):
        if isinstance(v, dict) and v.get("k") == "unset":
            continue
        if serialized(d) and (v is None or argwire.is_list_type(d["type"])) and any(f[2].startswith("$" + d["name"] + ":") for f in fails):
            continue  # explained above: the per-item calls never happen
        for fn, raw in argwire.custom_leaves(v, case, "serialize"):
            exp.append([fn, {"$leaf": wire.enc(raw)}])
    if "sent" in rec and not common.same_json(sort_calls(remaining), sort_calls(exp)):
        bad_none = [e for e in remaining if e[1] is None or e[1] == {"$unset": True}]
        fails.append(("serialize-on-None-or-UNSET" if bad_none else "serialize-calls-differ", None,
                      f"want {json.dumps(sort_calls(exp))[:200]} got {json.dumps(sort_calls(remaining))[:200]}"))
    # --- parse side
    if rec["outcome"] == "ok" and "response" in rec:
        shape = shape_of_op(case, op)
        data = {op["field"]: rec["response"]}
        expp = expected_parse(case, shape, data)
        if any(e[1] is None for e in par):
            fails.append(("parse-called-on-null", None, json.dumps(par)[:200]))
        elif not common.same_json(par, expp, ordered=True):
            fails.append(("parse-calls-differ", None, f"want {json.dumps(expp)[:200]} got {json.dumps(par)[:200]}"))
        want = expected_value(case, shape, data)
        if not common.same_json(rec.get("returned"), want):
            fails.append(("value-not-parse-of-raw", None, f"want {json.dumps(want)[:200]} got {json.dumps(rec.get('returned'))[:200]}"))
    elif rec["outcome"] == "exception-after-send":
        fails.append(("response-rejected", None, f"{rec.get('exception')}: {rec.get('message', '')[:200]}"))
    elif rec["outcome"] == "exception" and "sent" not in rec:
        # a schema-valid call that dies before anything is transmitted (a serialize function that is not bound, ...)
        fails.append(("call-raises-before-send", None, f"{rec.get('exception')}: {rec.get('message', '')[:200]}"))
    return fails


def argwire_canon_list(v: Any) -> Any:
    """canon() of a list argument as the instrumented serialize function records it"""
    if v is None:
        return None
    if v["k"] == "list":
        return [argwire_canon_list(x) for x in v["xs"]]
    if v["k"] == "custom":
        return {"$leaf": wire.enc(v["j"])}
    return v.get("v")


def names_used(ann: Dict[str, Any]) -> List[str]:
    if ann["k"] == "list":
        return names_used(ann["item"])
    l = ann["l"]
    return {"name": [l.get("n")], "fwd": [], "before": [l.get("type"), l.get("parse")], "ser": [l.get("type"), l.get("fn")]}[l["k"]]


BUILTIN_NAMES = {"str", "int", "float", "bool", "Any", "Upload"}

CASE_KEYS = ("snake", "async", "enums", "scalars", "inputs", "ops")
CASE_KEYS_OPT = ("extra_config", "loose_methods", "fragments", "abstract")


def case_input(case: Dict[str, Any]) -> Dict[str, Any]:
    """the structural part of a case: what a replay file / corpus entry carries"""
    d = {k: case[k] for k in CASE_KEYS}
    d.update({k: case[k] for k in CASE_KEYS_OPT if case.get(k)})
    return d


ALL_FAMILIES = list(argwire.FAMILIES) + list(argwire.EXTRA_FAMILIES)


def is_falsy_leaf(case: Dict[str, Any], spec: Any) -> bool:
    """a PRESENT custom-scalar value whose Python object is falsy"""
    if not (isinstance(spec, dict) and spec.get("k") == "custom"):
        return False
    fam = argwire.family_of(case, spec["scalar"])
    if fam["py"] == "cls":
        return fam.get("cls") == "TZ" and not spec["j"]
    return fam["py"] in ("str", "any", "int") and not spec["j"] and spec["j"] is not None


def falsy_capable(fam: Dict[str, Any]) -> bool:
    return any(not r for r in fam.get("raws", []))


def falsy_positions(case: Dict[str, Any], spec: Any, where: str = "top") -> List[str]:
    if spec is None or not isinstance(spec, dict):
        return []
    if spec.get("k") == "custom":
        return [where] if is_falsy_leaf(case, spec) else []
    if spec.get("k") == "list":
        return [p for x in spec["xs"] for p in falsy_positions(case, x, "item" if where == "top" else where)]
    if spec.get("k") == "model":
        return [p for f in spec["fields"] for p in falsy_positions(case, f["v"], "field")]
    return []


def force_falsy(rng: random.Random, case: Dict[str, Any], spec: Any) -> Any:
    """the same value with every custom-scalar leaf of a falsy-capable family replaced by a falsy raw value"""
    if spec is None or not isinstance(spec, dict):
        return spec
    k = spec.get("k")
    if k == "custom":
        fam = argwire.family_of(case, spec["scalar"])
        falsy = [r for r in fam.get("raws", []) if not r]
        if falsy:
            return {"k": "custom", "scalar": spec["scalar"], "j": rng.choice(falsy)}
        return spec
    if k == "list":
        return {"k": "list", "xs": [force_falsy(rng, case, x) for x in spec["xs"]]}
    if k == "model":
        return {"k": "model", "cls": spec["cls"], "fields": [dict(f, v=force_falsy(rng, case, f["v"])) for f in spec["fields"]]}
    return spec


def nested_only_scalars(case: Dict[str, Any]) -> List[str]:
    """custom scalars (with something to import) that occur in an input type of the dependency closure of the
    operations' variables but in none of the directly named input types"""
    roots = [argwire.base_of(d["type"]) for op in case["ops"] for d in op["defs"] if argwire.base_of(d["type"]) in case["inputs"]]
    closure: List[str] = []
    todo = list(roots)
    while todo:
        n = todo.pop()
        if n in closure:
            continue
        closure.append(n)
        todo += [argwire.base_of(f["type"]) for f in case["inputs"][n] if argwire.base_of(f["type"]) in case["inputs"]]

    def scal(names: List[str]) -> set:
        return {argwire.base_of(f["type"]) for n in names for f in case["inputs"][n]
                if argwire.base_of(f["type"]) in case["scalars"] and (argwire.family_of(case, argwire.base_of(f["type"]))["cfg"] or {}).get("type", "").count(".")}

    return sorted(scal(closure) - scal(list(set(roots))))


def gen_abstract(rng: random.Random) -> Dict[str, Any]:
    """abstract result fields (argwire.abstract_selection): interface / union positions under every wrapper nesting
    (nullable and non-null items, nested lists, single nullable / non-null), with and without the interface-level
    scalar fields that end up in EVERY member class, with and without an abstract position nested in a member"""
    fields = []
    for i in range(rng.randint(1, 3)):
        base = "Animal" if rng.random() < 0.7 else "Pet"
        t: List[Any] = argwire.named(base)
        shape = rng.choice(["one", "one!", "[x]", "[x!]", "[x]!", "[x!]!", "[[x]]", "[[x!]!]", "[x]", "[[x]]!"])
        if shape in ("one!",):
            t = ["nonnull", t]
        elif shape.startswith("[["):
            inner: List[Any] = ["nonnull", t] if "x!" in shape else t
            mid: List[Any] = ["list", inner]
            if shape.startswith("[[x!]!"):
                mid = ["nonnull", mid]
            t = ["list", mid]
            if shape.endswith("]!"):
                t = ["nonnull", t]
        elif shape.startswith("["):
            t = ["list", ["nonnull", t] if "x!" in shape else t]
            if shape.endswith("]!"):
                t = ["nonnull", t]
        possible = argwire.ABSTRACT_POSSIBLE[base]
        frags = rng.sample(possible, rng.randint(1, len(possible)))
        if base == "Animal" and rng.random() < 0.12:
            frags = []
        fields.append({"name": f"abs{i}", "type": t, "frags": frags, "iface": rng.random() < 0.75, "nest": rng.random() < 0.3})
    return {"fields": fields}


def e2e_cases(ctx: Ctx, n: int, label: str) -> List[Dict[str, Any]]:
    rng = ctx.sub_rng(label)
    cases = []
    for _ in range(n):
        fams = rng.sample(ALL_FAMILIES, rng.randint(1, 4))
        c = argwire.gen_case(rng, trigger_names=0.0, harmless_names=0.2, want_results=True, n_ops=rng.randint(1, 2), families=fams)
        # every combination of the two pruning flags (the defaults are True/True)
        c["extra_config"] = {"include_all_inputs": rng.random() < 0.5, "include_all_enums": rng.random() < 0.5}
        c["loose_methods"] = True
        if rng.random() < 0.35:
            c["fragments"] = True  # the scalar fields of `child` through a fragment spread (class of fragments.py as base)
        elif rng.random() < 0.6:
            c["abstract"] = gen_abstract(rng)
        if rng.random() < 0.5:
            add_deep_chain(rng, c, attach_p=0.85, root_p=0.7)
        else:
            argwire.finish_case(c)
        # two variables that process_name maps to one parameter (`response`/`_response`, ...) are C03-F4/C18's
        # region (duplicate argument -> SyntaxError at import) and say nothing about custom scalars: keep the first
        for op in c["ops"]:
            seen: set = set()
            kept = []
            for d in op["defs"]:
                key = d["name"].replace("_", "").lower()
                if key in seen:
                    continue
                seen.add(key)
                kept.append(d)
            op["defs"] = kept
        argwire.finish_case(c)
        c["calls"] = c03.make_calls(rng, c, 2)
        # one more call per operation in which every falsy-capable scalar value IS falsy (present, not None)
        extra = []
        for op in c["ops"]:
            base = next((cl for cl in c["calls"] if cl["op"] == op["name"] and not cl.get("omits_required")), None)
            if base is not None and any(falsy_capable(argwire.family_of(c, s)) for s in c["scalars"]):
                gts = [argwire.to_gt(d["type"]) for d in op["defs"]]
                vals = [force_falsy(rng, c, argwire.gen_value(rng, c, gt, top=True, null_p=0.05)) for gt in gts]
                extra.append({"op": op["name"], "values": vals, "seed": rng.randrange(1 << 30)})
        c["calls"] += extra
        for call in c["calls"]:
            call["n_corrupt"] = 0
        cases.append(c)
    return cases


def judge_e2e(ctx: Ctx, st: Optional[LeanStatus], res: Result, cases: List[Dict[str, Any]], outs: List[Tuple[str, Any]]) -> Dict[int, List[Failure]]:
    per_case: Dict[int, List[Failure]] = {}
    lines: List[Dict[str, Any]] = []
    meta: List[Any] = []
    send_lines: List[Dict[str, Any]] = []
    send_meta: List[Any] = []
    for ci, (case, (status, out)) in enumerate(zip(cases, outs)):
        per_case[ci] = []
        inp_case = case_input(case)
        flags = case.get("extra_config") or {}
        res.count(f"e2e:flags:include_all_inputs={flags.get('include_all_inputs', True)},include_all_enums={flags.get('include_all_enums', True)}")
        if flags.get("include_all_inputs", True) is False and nested_only_scalars(case):
            res.count("e2e:pruned-inputs:scalar-only-in-nested-input")
        if status != "ok":
            raise common.Infra(f"e2e child failed: {status} {str(out)[:400]}")
        if out.get("gen") != "ok":
            res.count("e2e:generation-failed:" + str(out.get("gen")))
            trig = None
            for s in case["scalars"]:
                cfg = argwire.family_of(case, s)["cfg"] or {}
                if cfg.get("import") and any("." in (cfg.get(k) or "") for k in ("type", "parse", "serialize")):
                    trig = "trigImportKeyDotted"
            per_case[ci].append(Failure("generation-fails", trig, {"case": inp_case, "calls": []}, str(out.get("message"))[:300]))
            continue
        if out.get("import") != "ok":
            res.count("e2e:import-failed")
            per_case[ci].append(Failure("import-fails", None, {"case": inp_case, "calls": []}, out.get("import", "")))
            continue
        ops = {o["name"]: o for o in case["ops"]}
        # text of a method / of the input classes that does not fit the IR: the tie is broken (the oracle goes on)
        for msg in (out.get("methods") or {}).get("$canon_errors", []):
            res.mismatches.append(Mismatch("method-ir", {"case": inp_case, "calls": []}, "canon: " + msg, "a method of the form the model emits"))
        if "inputs_canon_error" in out:
            res.mismatches.append(Mismatch("input-class-ir", {"case": inp_case, "calls": []}, "canon: " + out["inputs_canon_error"],
                                           "input classes of the form the model emits"))
        # client.py binds every name its signatures and `variables` dicts use
        cbound = {n for i in out.get("client_imports", []) for n in i["names"]}
        for oname, ir in (out.get("methods") or {}).items():
            if oname == "$canon_errors" or ir.get("loose"):
                continue
            used = [n for a in ir["args"] for n in names_used(a["ann"])] + [e["fn"] for _, e in ir["dict"] if e["k"] == "call"]
            for n in used:
                if n and n not in cbound and n not in BUILTIN_NAMES and "." not in n:
                    per_case[ci].append(Failure("name-not-imported", None, {"case": inp_case, "calls": []}, f"client.{ir['name']}: {n}"))
        # client.py: the scalar imports of the module vs Model.ClientImports (on the names the methods use: autoflake
        # removes the rest, e.g. `parse` functions)
        mir = out.get("methods") or {}
        if "$canon_errors" not in mir and not any(ir.get("loose") for ir in mir.values()) and case["scalars"]:
            used_c = {n for ir in mir.values() for a in ir["args"] for n in names_used(a["ann"]) if n} | \
                     {e["fn"] for ir in mir.values() for _, e in ir["dict"] if e["k"] == "call"}
            lines.append({"op": "clientImports", "kinds": out["kinds"], "scalars": argwire.scalars_cfg_json(case), "snake": case["snake"],
                          "ops": [[{"name": d["name"], "type": d["type"]} for d in defs_] for defs_ in out["defs"].values()]})
            meta.append(("clientImports", ci, sorted(used_c), out.get("client_imports", [])))
        # imports cover the names the annotations use, module by module
        frag = out.get("fragments_module")
        if frag is not None:
            res.count("e2e:fragments-module")
        abstract = bool(case.get("abstract"))
        umods: Dict[str, Any] = {}
        if abstract:
            # result modules of a case with abstract positions: unions / literals / discriminators kept as syntax
            res.count("e2e:abstract-case")
            for mod, src in (out.get("result_sources") or {}).items():
                try:
                    umods[mod] = {"classes": module_classes_u(src), "imports": argwire.module_imports(src)}
                except (argwire.CanonError, SyntaxError) as e:
                    umods[mod] = {"canon_error": str(e)}
            for mod, info in umods.items():
                if "canon_error" in info:
                    res.mismatches.append(Mismatch("result-annotation", {"case": inp_case, "module": mod}, "canon: " + info["canon_error"], None))
                    continue
                bound = {n for i in info["imports"] for n in i["names"]}
                for cname, fields in info["classes"].items():
                    for key, a in fields:
                        for n in names_used_u(a):
                            if n and n not in bound and n not in BUILTIN_NAMES and "." not in n:
                                per_case[ci].append(Failure("name-not-imported", None, {"case": inp_case, "calls": []}, f"{mod}.{cname}.{key}: {n}"))
        for mod, info in ([] if abstract else list(out.get("result_modules", {}).items())) + ([("fragments", frag)] if frag is not None else []) \
                + [("input_types", {"classes": out.get("inputs") or {}, "imports": out.get("inputs_imports", [])})]:
            if "canon_error" in info:
                res.mismatches.append(Mismatch("result-annotation", {"case": inp_case, "module": mod}, "canon: " + info["canon_error"], None))
                continue
            bound = {n for i in info["imports"] for n in i["names"]}
            for cname, decls in info["classes"].items():
                for d in decls:
                    for n in names_used(d["ann"]):
                        if n and n not in bound and n not in BUILTIN_NAMES and n not in info["classes"] and "." not in n:
                            per_case[ci].append(Failure("name-not-imported", None, {"case": inp_case, "calls": []}, f"{mod}.{cname}.{d['py']}: {n}"))
        # result annotations vs the model
        for oname, op in ops.items():
            if abstract:
                mod = next((m for m, info in umods.items() if "classes" in info and oname in info["classes"]), None)
                if mod is None:
                    continue
                try:
                    real_u = {"k": "model", "fields": inline_u(umods[mod]["classes"], oname)}
                except argwire.CanonError as e:
                    res.mismatches.append(Mismatch("result-annotation", {"case": inp_case, "op": oname}, "canon: " + str(e), None))
                    continue
                # the bindings the module's imports make for custom scalars (everything outside the fixed modules)
                fixed = {"typing", "pydantic", ".base_model", ".enums", ".fragments", ".input_types"}
                real_bind = sorted({(i["module"], n) for i in umods[mod]["imports"] if i["module"] not in fixed for n in i["names"]})
                lines.append({"op": "resultAnnU", "scalars": argwire.scalars_cfg_json(case), "shape": shape_of_op(case, op)})
                meta.append(("resultAnnU", ci, oname, (real_u, real_bind)))
                continue
            mod = next((m for m, info in out.get("result_modules", {}).items() if "classes" in info and oname in info["classes"]), None)
            if mod is None:
                continue
            try:
                cls = dict(out["result_modules"][mod]["classes"])
                bases = dict(out["result_modules"][mod].get("bases") or {})
                if frag is not None and "classes" in frag:
                    cls.update({k: v for k, v in frag["classes"].items() if k not in cls})
                    bases.update({k: v for k, v in (frag.get("bases") or {}).items() if k not in bases})
                real_ann = inline_classes(cls, oname, 0, bases)
            except argwire.CanonError as e:
                res.mismatches.append(Mismatch("result-annotation", {"case": inp_case, "op": oname}, "canon: " + str(e), None))
                continue
            shape = shape_of_op(case, op)
            lines.append({"op": "resultAnn", "scalars": argwire.scalars_cfg_json(case), "shape": shape})
            meta.append(("resultAnn", ci, oname, real_ann))
        for call, rec in zip(case.get("calls", []), out.get("calls", [])):
            op = ops[call["op"]]
            res.count("e2e:outcome:" + rec["outcome"])
            ser, par = split_log(rec.get("log", []))
            res.count("e2e:serialize-calls", len(ser))
            res.count("e2e:parse-calls", len(par))
            for s in case["scalars"]:
                res.count("e2e:family:" + (case["scalars"][s] if isinstance(case["scalars"][s], str) else "inline"))
            res.seen([inp_case, call["op"], call["values"], call.get("seed")], nontrivial=bool(case["scalars"]))
            for d, v in zip(out["defs"][call["op"]], call["values"]):
                for pos in falsy_positions(case, v):
                    nullable = d["type"][0] != "nonnull"
                    res.count(f"e2e:falsy-present-scalar:{pos}" + (":nullable-variable" if pos == "top" and nullable else ""))
                    if pos == "top" and nullable and argwire.family_of(case, argwire.base_of(d["type"]))["serialize"]:
                        res.count("e2e:falsy-present-scalar:top:nullable-variable:with-serialize")
            call_fails = judge_call(case, out, call, rec, op)
            for sig, trig, detail in call_fails:
                per_case[ci].append(Failure(sig, trig, {"case": inp_case, "calls": [call]}, f"op {call['op']} {detail}"))
            call_trig = next((t for _, t, _ in call_fails if t), None)  # the finding region THIS call lies in, if any
            # model: parse occurrences on the real response
            if rec["outcome"] == "ok" and "response" in rec:
                lines.append({"op": "resultAnnU" if abstract else "resultAnn", "scalars": argwire.scalars_cfg_json(case), "shape": shape_of_op(case, op),
                              "j": wire.enc({op["field"]: rec["response"]})})
                meta.append(("parseLog", ci, call, par))
                if abstract:
                    for fld in case["abstract"]["fields"]:
                        v = rec["response"].get(fld["name"]) if isinstance(rec["response"], dict) else None
                        res.count("e2e:abstract-value:" + ("null" if v is None else "list" if isinstance(v, list) else "object"))
            ir = out.get("methods", {}).get(call["op"])
            if ir is not None and out.get("inputs") is not None and not call.get("omits_required"):
                send_lines.append(c03.send_line(case, out, call, rec.get("sent_query") or ""))
                send_meta.append((ci, call, rec, ser, call_trig))
    if st is not None and st.driver_ok:
        if lines:
            for (kind, ci, x, y), m in zip(meta, common.run_driver(PROP, lines)):
                case = cases[ci]
                if kind == "resultAnn":
                    if not common.same_json(y, m["ann"]):
                        res.mismatches.append(Mismatch("result-annotation", {"sdl": case["sdl"], "queries": case["queries"], "op": x, "scalars": case["scalars"]}, y, m["ann"]))
                elif kind == "clientImports":
                    res.count("e2e:client-imports")
                    if "error" in m:
                        res.mismatches.append(Mismatch("client-imports", {"case": case_input(case), "calls": []}, "generated", m))
                    else:
                        # the modules custom scalars are configured to come from (`import` key, dotted prefixes)
                        mods = {i["module"] for i in m["imports"]}
                        for s_ in argwire.scalars_cfg_json(case):
                            if s_.get("import"):
                                mods.add(s_["import"])
                            for nm in (s_["type"], s_.get("serialize"), s_.get("parse")):
                                if nm and "." in nm:
                                    mods.add(nm.rsplit(".", 1)[0])
                        rb = sorted({(i["module"], n) for i in y if i["module"] in mods for n in i["names"]})
                        mb = sorted({(i["module"], n) for i in m["imports"] for n in i["names"] if n in set(x)})
                        res.count("e2e:client-imports:bindings", len(mb))
                        if json.loads(json.dumps(rb)) != json.loads(json.dumps(mb)):
                            res.mismatches.append(Mismatch("client-imports", {"case": case_input(case), "calls": []}, rb, mb))
                elif kind == "resultAnnU":
                    real_u, real_bind = y
                    res.count("e2e:abstract:result-annotation")
                    if not common.same_json(real_u, m["ann"]):
                        res.mismatches.append(Mismatch("result-annotation", {"case": case_input(case), "calls": [], "op": x}, real_u, m["ann"]))
                    elif not case.get("fragments"):
                        # the emitted file carries the imports the generator made minus the ones autoflake found unused
                        # (`serialize` functions in a result module): compared on the names the module's annotations use
                        used = set(all_names_u(real_u))
                        mb = sorted({(i["module"], n) for i in (m["imports"].get("ok") or []) for n in i["names"] if n in used}) \
                            if "ok" in m["imports"] else m["imports"]
                        res.count("e2e:abstract:result-imports", len(mb) if isinstance(mb, list) else 0)
                        if json.loads(json.dumps(real_bind)) != json.loads(json.dumps(mb)):
                            res.mismatches.append(Mismatch("result-imports", {"case": case_input(case), "calls": [], "op": x}, real_bind, mb))
                else:
                    mv = [[c[0], wire.dec(c[1])] for c in m["calls"]]
                    if not m["conforms"] or not common.same_json(y, mv, ordered=True) or not common.same_json(m["calls"], m["occurrences"]):
                        res.mismatches.append(Mismatch("parse-log", {"case": {k: case[k] for k in ("scalars", "ops")}, "calls": [x]}, y, {"conforms": m["conforms"], "calls": mv}))
        if send_lines:
            for (ci, call, rec, ser, trig), m in zip(send_meta, common.run_driver("C03", send_lines)):
                case = cases[ci]
                if "ok" in m and "sent" in rec:
                    if not common.same_json(ser, m["ok"]["calls"]):
                        res.mismatches.append(Mismatch("serialize-log", {"case": case_input(case), "calls": [call]},
                                                       ser, m["ok"]["calls"], trig))
                elif "ok" in m and rec.get("outcome") == "exception":
                    # the model transmits a request, the real method raised before anything was sent
                    res.mismatches.append(Mismatch("serialize-log", {"case": case_input(case), "calls": [call]},
                                                   {"exception": rec.get("exception"), "message": rec.get("message", "")[:200]}, m["ok"]["calls"], trig))
    return per_case


def run_e2e(ctx: Ctx, st: Optional[LeanStatus], res: Result, cases: List[Dict[str, Any]]) -> Dict[int, List[Failure]]:
    outs = engine.pmap_forked(c03.child_e2e, [(c,) for c in cases], timeout=240)
    per_case = judge_e2e(ctx, st, res, cases, outs)
    for fs in per_case.values():
        res.failures += fs
    return per_case


# --------------------------------------------------------------------------------------------
# corpus / entry points
# --------------------------------------------------------------------------------------------


def load_corpus() -> List[Tuple[str, Dict[str, Any]]]:
    d = common.CORPUS / PROP
    return [(p.stem, json.loads(p.read_text())) for p in sorted(d.glob("*.json"))] if d.exists() else []


def replay_witnesses(ctx: Ctx, st: Optional[LeanStatus], res: Result) -> None:
    findings = {f["id"]: f for f in common.load_findings(PROP)}
    items = load_corpus()
    if not items:
        return
    cases = []
    for name, payload in items:
        c = dict(payload["case"])
        c.setdefault("want_results", True)
        argwire.finish_case(c)
        c["calls"] = payload.get("calls", [])
        cases.append(c)
    outs = engine.pmap_forked(c03.child_e2e, [(c,) for c in cases], timeout=240)
    sub = Result()
    per_case = judge_e2e(ctx, st, sub, cases, outs)
    res.mismatches += sub.mismatches
    for i, (name, payload) in enumerate(items):
        fid = payload.get("finding")
        fs = per_case.get(i, [])
        res.count("corpus:replayed")
        if fid and fid in findings:
            want = findings[fid]
            sigs = want["signature"] if isinstance(want["signature"], list) else [want["signature"]]
            hit = [f for f in fs if f.signature in sigs]
            if want.get("status") == "open":
                res.witness_status[fid] = "reproduces" if any(f.trigger == want["trigger"] for f in hit) else "gone"
            else:
                res.witness_status[fid] = "reproduces" if hit else "gone"
                for f in fs:
                    f.trigger = None
        res.failures += fs


def run(ctx: Ctx, st: Optional[LeanStatus]) -> Result:
    res = Result()
    res.rule = ("imports: one evaluation = one scalar configuration through the real ScalarData/generate_scalar_imports and the model; "
                "inputs-module: one evaluation = one (schema, operations, configuration, include_all_inputs) through the real "
                "ArgumentsGenerator + InputTypesGenerator.generate and Model.InputImports.generate; "
                "pydantic: one evaluation = one (annotation, value) through the real pydantic with instrumented functions and Spec.PydLog "
                "(unions of model classes, tagged and plain: Spec.PydUnionLog); "
                "e2e: one evaluation = one call of a real generated method of a package with instrumented custom scalars, "
                "non-trivial when the schema has at least one custom scalar; distinct = distinct canonical inputs")
    res.extra["fingerprints"] = common.fingerprints(ctx, FINGERPRINTS)
    engine.cleanup_scratch()
    # the C03 driver runs the whole-request model (`send` with its call log)
    rc, log = common._lake(["build", "drv_c03"], lock="C03")
    if rc != 0:
        raise common.Infra("drv_c03 does not build: " + log[-300:])
    replay_witnesses(ctx, st, res)
    ctx.log("corpus replayed")
    run_imports(ctx, st, res)
    run_pydantic(ctx, st, res)
    run_pydantic_unions(ctx, st, res)
    run_inputs_module(ctx, st, res)
    ctx.log(f"imports + pydantic + inputs-module correspondence done ({res.evaluations} evaluations, {len(res.mismatches)} mismatches)")
    run_e2e(ctx, st, res, e2e_cases(ctx, ctx.budget(400, 3000), "e2e"))
    ctx.log(f"end-to-end done ({res.evaluations} evaluations, {len(res.mismatches)} mismatches, {len(res.failures)} oracle failures)")
    res.oracle_only += [
        "import of the generated modules (autoflake removing unused scalar imports, isort, black): observed on real packages",
        "what pydantic makes of a pydantic-native scalar type (datetime, str): observed (type_only_roundtrip only states that no user function stands in the way)",
    ]
    res.assumptions += [
        "the user's parse function returns an instance the configured type accepts; serialize returns a JSON-able value",
        "configured function names do not collide with module-level names of the generated modules",
    ]
    return res


def search(ctx: Ctx) -> Result:
    res = Result()
    run_e2e(ctx, None, res, e2e_cases(ctx, 300, "search"))
    return res


def replay(ctx: Ctx, payload: Dict[str, Any]) -> int:
    inp = payload.get("input") or payload
    if "case" not in inp:
        print(json.dumps(payload, indent=1)[:3000])
        return 1
    c = dict(inp["case"])
    c.setdefault("want_results", True)
    argwire.finish_case(c)
    c["calls"] = inp.get("calls", [])
    outs = engine.pmap_forked(c03.child_e2e, [(c,)], timeout=240)
    res = Result()
    per_case = judge_e2e(ctx, None, res, [c], outs)
    out = outs[0][1] if outs[0][0] == "ok" else {}
    print("generation:", out.get("gen"), out.get("message", "")[:200], "import:", out.get("import"))
    for call, rec in zip(c["calls"], out.get("calls", []) if isinstance(out, dict) else []):
        print("call", call["op"], json.dumps(call["values"])[:300])
        print("  ->", rec.get("outcome"), rec.get("exception", ""), "log", json.dumps(rec.get("log"))[:400])
    fs = per_case.get(0, [])
    for f in fs:
        print("FAIL", f.signature, f.trigger, f.detail[:300])
    return 1 if fs else 0
