"""End-to-end case runner for the generator properties (C01, C05, C02, C03, C04, C08 ...).

`run_case` executes inside a forked child (engine.forked / engine.pmap_forked):
  generate the package with the REAL generator -> import it -> for every operation call the REAL
  generated client method through httpx.MockTransport whose handler executes the *received*
  request with graphql-core on the user's schema with PRNG-driven resolvers -> report what was
  sent, what the reference executor answered, and what the generated models made of it.
Judging (the property oracles) happens in the parent, on the returned JSON-able observation.
"""
from __future__ import annotations

import ast
import asyncio
import enum
import json
import typing
from pathlib import Path
from typing import Any, Dict, List, Optional

from . import engine
from .gen import resolve


def method_map(client_src: str) -> Dict[str, Dict[str, Any]]:
    """operation name -> {"method": python name, "async": bool, "generator": bool, "params": [...]}, from client.py"""
    out: Dict[str, Dict[str, Any]] = {}
    tree = ast.parse(client_src)
    for cls in [n for n in tree.body if isinstance(n, ast.ClassDef)]:
        for fn in cls.body:
            if not isinstance(fn, (ast.FunctionDef, ast.AsyncFunctionDef)):
                continue
            opname = None
            for node in ast.walk(fn):
                if isinstance(node, ast.Call):
                    for kw in node.keywords:
                        if kw.arg == "operation_name" and isinstance(kw.value, ast.Constant):
                            opname = kw.value.value
            if opname is None:
                continue
            varmap: Dict[str, str] = {}
            for node in ast.walk(fn):
                if isinstance(node, ast.AnnAssign) and isinstance(node.value, ast.Dict) and isinstance(node.target, ast.Name) \
                        and node.target.id.lstrip("_") == "variables":
                    for k, v in zip(node.value.keys, node.value.values):
                        names = [n.id for n in ast.walk(v) if isinstance(n, ast.Name)]
                        if isinstance(k, ast.Constant) and names:
                            varmap[k.value] = names[-1]
            is_gen = any(isinstance(n, (ast.Yield, ast.YieldFrom)) for n in ast.walk(fn))
            params = [a.arg for a in fn.args.args if a.arg != "self"]
            out[opname] = {"method": fn.name, "async": isinstance(fn, ast.AsyncFunctionDef), "generator": is_gen, "params": params,
                           "class": cls.name, "varmap": varmap}
    return out


def to_plain(v: Any) -> Any:
    """model/enum aware conversion of a validated object into comparable JSON-like data"""
    from pydantic import BaseModel

    if isinstance(v, BaseModel):
        return {"$model": type(v).__name__, "fields": {k: to_plain(getattr(v, k)) for k in type(v).model_fields if k in v.model_fields_set}}
    if isinstance(v, enum.Enum):
        return {"$enum": type(v).__name__, "name": v.name, "value": v.value}
    if isinstance(v, (list, tuple)):
        return [to_plain(x) for x in v]
    if isinstance(v, dict):
        return {str(k): to_plain(x) for k, x in v.items()}
    if isinstance(v, (str, int, float, bool)) or v is None:
        return v
    return {"$py": repr(v)}


def class_info(pkg: Any, module_name: str) -> Dict[str, Any]:
    """per generated model class: field python name -> alias, typename literal values, bases"""
    import importlib

    from pydantic import BaseModel

    mod = importlib.import_module(f"{pkg.__name__}.{module_name}")
    info: Dict[str, Any] = {}
    for name, cls in vars(mod).items():
        if isinstance(cls, type) and issubclass(cls, BaseModel) and cls.__module__ == mod.__name__:
            fields = {}
            for fname, f in cls.model_fields.items():
                fields[fname] = {"alias": f.alias, "required": f.is_required(), "annotation": str(f.annotation)}
            lit: Optional[List[str]] = None
            if "typename__" in cls.model_fields:
                ann = cls.model_fields["typename__"].annotation
                if typing.get_origin(ann) is typing.Literal:
                    lit = list(typing.get_args(ann))
            info[name] = {"fields": fields, "typename_literal": lit, "mro": [c.__name__ for c in cls.__mro__[1:] if c.__name__ not in ("object",)],
                          "complete": bool(getattr(cls, "__pydantic_complete__", False))}
    return info


def walk_validated(obj: Any, data: Any, path: str, problems: List[Dict[str, Any]]) -> None:
    """The C01 clause: the validated object exposes every returned response key under its Python
    name with an equal value (enum values as the member of the same name), and at every position
    carrying __typename it is an instance of a class whose typename__ literal contains it."""
    from pydantic import BaseModel

    if isinstance(data, dict) and isinstance(obj, BaseModel):
        cls = type(obj)
        by_alias = {}
        for fname, f in cls.model_fields.items():
            by_alias[f.alias or fname] = fname
        for key, val in data.items():
            if key not in by_alias:
                problems.append({"path": f"{path}.{key}", "problem": "key-not-exposed", "class": cls.__name__})
                continue
            walk_validated(getattr(obj, by_alias[key]), val, f"{path}.{key}", problems)
        if "__typename" in data:
            f = cls.model_fields.get("typename__")
            lit = list(typing.get_args(f.annotation)) if f is not None and typing.get_origin(f.annotation) is typing.Literal else None
            # only positions whose class carries a __typename literal are abstract positions
            if lit is not None and data["__typename"] not in lit:
                problems.append({"path": path, "problem": "wrong-class-for-runtime-type", "class": cls.__name__, "runtime": data["__typename"], "literal": lit})
        return
    if isinstance(data, list) and isinstance(obj, list):
        if len(data) != len(obj):
            problems.append({"path": path, "problem": "list-length-differs"})
            return
        for i, (o, d) in enumerate(zip(obj, data)):
            walk_validated(o, d, f"{path}[{i}]", problems)
        return
    if isinstance(obj, enum.Enum):
        if obj.name != data:
            problems.append({"path": path, "problem": "enum-member-differs", "got": obj.name, "want": data})
        return
    if isinstance(obj, BaseModel) or isinstance(data, dict) != isinstance(obj, dict) or isinstance(data, list) != isinstance(obj, list):
        problems.append({"path": path, "problem": "shape-differs", "got": type(obj).__name__, "want": type(data).__name__})
        return
    if isinstance(data, bool) != isinstance(obj, bool) or obj != data:
        # numeric equality is JSON equality (1 == 1.0); bool is not a number
        problems.append({"path": path, "problem": "value-differs", "got": repr(obj)[:80], "want": repr(data)[:80]})


def custom_values(case: Dict[str, Any]) -> Any:
    """values the resolvers return for custom scalars: strings for scalars configured as `str`, any JSON otherwise"""
    as_str = set(case.get("scalar_str") or [])

    def value(name: str, rng: Any) -> Any:
        if name in as_str:
            return rng.choice(["2020-01-01T00:00:00", "c", ""])
        return rng.choice(["2020-01-01T00:00:00", 5, {"k": [1, None]}, "c"])

    return value


def generate_only(root: Path, case: Dict[str, Any]) -> Dict[str, Any]:
    """phase 1: generation; returns {"gen": "ok", ...} or the classified exception"""
    try:
        gen = engine.generate_client(root, case["sdl"], case.get("queries"), case.get("config") or {})
    except BaseException as e:  # noqa: BLE001
        import traceback

        return {"gen": engine.classify_exception(type(e).__name__), "message": str(e)[:500], "where": traceback.format_exc()[-1500:]}
    return {"gen": "ok", "_gen": gen}


@engine.with_scratch
def run_case(root: Path, case: Dict[str, Any]) -> Dict[str, Any]:
    """case: {"sdl", "queries", "config", "calls": [{"op": name, "vars": {...}, "seed": s}], "null_p": float,
              "want": ["classes", "files", ...]}"""
    import httpx
    from graphql import build_schema, graphql_sync

    out = generate_only(root, case)
    if out["gen"] != "ok":
        return out
    gen = out.pop("_gen")
    out["files"] = sorted(p.name for p in gen.dir.iterdir())
    out["reported_files"] = gen.files
    try:
        pkg = engine.import_package(gen)
    except BaseException as e:  # noqa: BLE001
        import traceback

        out["import"] = f"{type(e).__name__}: {str(e)[:400]}"
        out["where"] = traceback.format_exc()[-1200:]
        if "sources" in case.get("want", []):
            out["sources"] = {p.name: p.read_text() for p in gen.dir.glob("*.py")}
        return out
    out["import"] = "ok"
    cfg = case.get("config") or {}
    client_file = cfg.get("client_file_name", "client")
    client_name = cfg.get("client_name", "Client")
    mm = method_map(gen.read(f"{client_file}.py"))
    out["methods"] = mm
    if "sources" in case.get("want", []):
        out["sources"] = {p.name: p.read_text() for p in gen.dir.glob("*.py")}
    schema = build_schema(case["sdl"])
    is_async = cfg.get("async_client", True)
    results = []
    for call in case.get("calls", []):
        rec: Dict[str, Any] = {"op": call["op"]}
        results.append(rec)
        m = mm.get(call["op"])
        if m is None:
            rec["outcome"] = "no-method"
            continue
        log: List[Dict[str, Any]] = []
        resolver = resolve.Resolver(call.get("seed", 0), null_p=case.get("null_p", 0.2), custom_scalar_value=custom_values(case))

        def handler(request: Any) -> Any:
            body = json.loads(request.content)
            entry = {"query": body.get("query"), "operationName": body.get("operationName"), "variables": body.get("variables")}
            res = graphql_sync(schema, body["query"], variable_values=body.get("variables"), operation_name=body.get("operationName"),
                               field_resolver=resolver, type_resolver=resolve.Resolver.type_resolver)
            payload: Dict[str, Any] = {"data": res.data}
            if res.errors:
                payload["errors"] = [e.formatted for e in res.errors]
            entry["response"] = payload
            log.append(entry)
            return httpx.Response(200, json=payload)

        try:
            client = engine.make_generated_client(pkg, handler, client_name=client_name, is_async=is_async)
            # variables are given by GraphQL name; the python parameter name comes from the emitted
            # `variables = {"graphqlName": python_name}` dict of the method itself
            pyargs = dict(call.get("pyargs") or {})
            for gname, val in (call.get("vars") or {}).items():
                pyargs[m["varmap"].get(gname, gname)] = val
            value = engine.call_method(client, m["method"], m["async"], **pyargs)
            rec["outcome"] = "ok"
        except BaseException as e:  # noqa: BLE001
            rec["outcome"] = "exception"
            rec["exception"] = type(e).__name__
            rec["message"] = str(e)[:600]
            value = None
        if log:
            rec["sent"] = {k: log[0][k] for k in ("query", "operationName", "variables")}
            rec["response"] = log[0]["response"]
        if rec["outcome"] == "ok":
            from pydantic import BaseModel

            rec["returned_class"] = type(value).__name__
            if isinstance(value, BaseModel):
                try:
                    rec["dump"] = value.model_dump(mode="json", by_alias=True, exclude_unset=True)
                except BaseException as e:  # noqa: BLE001
                    rec["dump_error"] = f"{type(e).__name__}: {str(e)[:200]}"
                problems: List[Dict[str, Any]] = []
                data = rec.get("response", {}).get("data")
                if data is not None:
                    walk_validated(value, data, "$", problems)
                rec["problems"] = problems
            else:
                rec["plain"] = to_plain(value)
    out["calls"] = results
    if "classes" in case.get("want", []):
        info = {}
        for opname, m in mm.items():
            pass
        mods = [p.stem for p in gen.dir.glob("*.py") if p.stem not in ("__init__",)]
        for mod in mods:
            try:
                ci = class_info(pkg, mod)
                if ci:
                    info[mod] = ci
            except BaseException as e:  # noqa: BLE001
                info[mod] = {"$error": f"{type(e).__name__}: {e}"}
        out["classes"] = info
    return out
