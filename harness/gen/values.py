"""Schema-valid *input* values (for operation variables / input objects), JSON-like."""
from __future__ import annotations

import random
from typing import Any, Dict, List

from .schema_gen import type_map


def input_value(schema: Dict[str, Any], t: List[Any], rng: random.Random, depth: int = 0, null_p: float = 0.25) -> Any:
    tm = type_map(schema)
    if t[0] == "nonnull":
        return input_value(schema, t[1], rng, depth, null_p=0.0)
    if null_p and rng.random() < null_p:
        return None
    if t[0] == "list":
        n = rng.choice([0, 1, 2]) if depth < 3 else 0
        return [input_value(schema, t[1], rng, depth + 1, null_p) for _ in range(n)]
    name = t[1]
    if name == "Int":
        return rng.choice([0, 3, -5, 1000])
    if name == "Float":
        return rng.choice([0.5, 2.0, -1.25, 7])
    if name == "String":
        return rng.choice(["", "s", "two words", "ü"])
    if name == "Boolean":
        return rng.random() < 0.5
    if name == "ID":
        return rng.choice(["id1", "42"])
    td = tm.get(name)
    if td is None or td["kind"] == "scalar":
        return rng.choice(["2021-02-03", 12, "raw"])
    if td["kind"] == "enum":
        return rng.choice(td["values"])
    if td["kind"] == "input":
        out: Dict[str, Any] = {}
        for f in td["inputFields"]:
            required = f["type"][0] == "nonnull" and f.get("default") is None
            if required or (depth < 2 and rng.random() < 0.5):
                out[f["name"]] = input_value(schema, f["type"], rng, depth + 1, null_p if depth < 2 else 1.0 if f["type"][0] != "nonnull" else 0.0)
        return out
    return None
