"""Seeded, type-directed generator of GraphQL schemas (DESIGN.md §1.5).

A schema is a plain JSON-able dict (the same structure is what the Lean drivers read):

  {"types": [TypeDef...], "query": "Query", "mutation": name|None, "subscription": name|None}
  TypeDef = {"name", "kind": object|interface|union|enum|input|scalar,
             "fields": [{"name", "type": TypeRef, "args": [{"name", "type", "default": literal|None}]}],
             "interfaces": [names], "members": [names], "values": [names],
             "inputFields": [{"name", "type", "default": literal-text|None}]}
  TypeRef = ["named", n] | ["list", T] | ["nonnull", T]

`to_sdl` renders it; graphql-core's `build_schema` is the judge of validity.
"""
from __future__ import annotations

import random
from typing import Any, Dict, List, Optional

BUILTIN_SCALARS = ["String", "Int", "Float", "Boolean", "ID"]

FIELD_NAMES = ["id", "name", "title", "count", "ratio", "active", "createdAt", "bestFriend", "items", "owner", "node",
               "kind", "tags", "score", "parent", "children", "value", "label", "status", "meta", "URLPath", "x1", "fooBar"]
# names that stress the naming code; used with low probability outside C18
STRESS_FIELD_NAMES = ["class", "from", "import", "copy", "json", "dict", "schema", "validate", "model_config", "None",
                      "_private", "__dunder", "camelCaseHTTPField", "snake_case_field", "Field9", "in", "type", "match"]
TYPE_NAMES = ["User", "Post", "Comment", "Tag", "Group", "Item", "Page", "Media", "Event", "Org", "Profile", "Badge"]
IFACE_NAMES = ["Node", "Named", "Entity", "Timestamped"]
UNION_NAMES = ["SearchResult", "Feed", "Target"]
ENUM_NAMES = ["Role", "Color", "Status", "Order"]
ENUM_VALUES = ["ADMIN", "USER", "RED", "GREEN", "BLUE", "ASC", "DESC", "ACTIVE", "inactive", "Mixed_Case", "V1"]
INPUT_NAMES = ["UserInput", "Filter", "Paging", "PostInput", "RangeInput"]
SCALAR_NAMES = ["DateTime", "JSON", "Code"]


def named(n: str) -> List[Any]:
    return ["named", n]


def wrap(rng: random.Random, base: List[Any], allow_list: bool = True, depth: int = 0) -> List[Any]:
    """random nullability / list wrappers around a named type"""
    t = base
    if rng.random() < 0.5:
        t = ["nonnull", t]
    if allow_list and depth < 2 and rng.random() < 0.35:
        t = ["list", t]
        if rng.random() < 0.5:
            t = ["nonnull", t]
        if depth < 1 and rng.random() < 0.2:
            t = ["list", t]
            if rng.random() < 0.5:
                t = ["nonnull", t]
    return t


def unwrap(t: List[Any]) -> str:
    while t[0] != "named":
        t = t[1]
    return t[1]


def type_str(t: List[Any]) -> str:
    if t[0] == "named":
        return t[1]
    if t[0] == "list":
        return "[" + type_str(t[1]) + "]"
    return type_str(t[1]) + "!"


def gen_schema(rng: random.Random, *, size: int = 2, abstract: bool = True, inputs: bool = True, custom_scalars: bool = True,
               stress_names: float = 0.0, mutation: bool = True, subscription: bool = False, field_args: bool = True,
               custom_root_names: float = 0.1) -> Dict[str, Any]:
    n_obj = rng.randint(2, 2 + 2 * size)
    obj_names = rng.sample(TYPE_NAMES, min(n_obj, len(TYPE_NAMES)))
    iface_names = rng.sample(IFACE_NAMES, rng.randint(1, 2)) if abstract else []
    union_names = rng.sample(UNION_NAMES, rng.randint(0, 2)) if abstract else []
    enum_names = rng.sample(ENUM_NAMES, rng.randint(1, 2))
    input_names = rng.sample(INPUT_NAMES, rng.randint(1, 3)) if inputs else []
    scalar_names = rng.sample(SCALAR_NAMES, rng.randint(0, 2)) if custom_scalars else []
    types: List[Dict[str, Any]] = []

    def pick_name(pool: List[str], used: set) -> Optional[str]:
        cand = [n for n in pool if n not in used]
        if stress_names and rng.random() < stress_names:
            cand2 = [n for n in STRESS_FIELD_NAMES if n not in used and not n.startswith("__")]
            if cand2:
                return rng.choice(cand2)
        return rng.choice(cand) if cand else None

    leaf_pool = BUILTIN_SCALARS + enum_names + scalar_names
    composite_pool = obj_names + iface_names + union_names

    def gen_args() -> List[Dict[str, Any]]:
        if not field_args or rng.random() < 0.6:
            return []
        args = []
        used: set = set()
        for _ in range(rng.randint(1, 2)):
            n = pick_name(["id", "first", "after", "filter", "role", "ids", "q"], used)
            if not n:
                break
            used.add(n)
            base = rng.choice(BUILTIN_SCALARS + enum_names + input_names)
            t = wrap(rng, named(base), allow_list=True, depth=1)
            # keep selectable fields easy to query: arguments are nullable or have no default
            args.append({"name": n, "type": t, "default": None})
        return args

    # one global dictionary: a field name has the same type and arguments wherever it occurs, so that
    # interface implementation and overlapping-fields validation never fail for trivial reasons
    field_dict: Dict[str, Dict[str, Any]] = {}

    def field_def(n: str, composite: bool) -> Dict[str, Any]:
        if n not in field_dict:
            pool = composite_pool if composite else leaf_pool
            field_dict[n] = {"name": n, "type": wrap(rng, named(rng.choice(pool))), "args": gen_args()}
        return dict(field_dict[n])

    def gen_fields(n_leaf: int, n_comp: int, used: set) -> List[Dict[str, Any]]:
        fields = []
        for i in range(n_leaf + n_comp):
            n = pick_name(FIELD_NAMES, used)
            if not n:
                break
            used.add(n)
            fields.append(field_def(n, composite=i >= n_leaf))
        return fields

    # interfaces (the second may implement the first)
    iface_defs: Dict[str, Dict[str, Any]] = {}
    for i, n in enumerate(iface_names):
        used: set = set()
        ifaces: List[str] = []
        fields: List[Dict[str, Any]] = []
        if i > 0 and rng.random() < 0.5:
            parent = iface_defs[iface_names[0]]
            ifaces = [parent["name"]]
            fields = [dict(f) for f in parent["fields"]]
            used = {f["name"] for f in fields}
        fields += gen_fields(rng.randint(1, 2), rng.randint(0, 1), used)
        d = {"name": n, "kind": "interface", "fields": fields, "interfaces": ifaces, "members": [], "values": [], "inputFields": []}
        iface_defs[n] = d
        types.append(d)

    def implement(t: Dict[str, Any], i: str) -> None:
        for x in iface_defs[i]["interfaces"] + [i]:
            if x not in t["interfaces"]:
                t["interfaces"].append(x)
            have = {f["name"] for f in t["fields"]}
            for f in iface_defs[x]["fields"]:
                if f["name"] not in have:
                    have.add(f["name"])
                    t["fields"].append(dict(f))

    for n in obj_names:
        t = {"name": n, "kind": "object", "fields": [], "interfaces": [], "members": [], "values": [], "inputFields": []}
        for i in iface_names:
            if rng.random() < 0.55:
                implement(t, i)
        used = {f["name"] for f in t["fields"]}
        t["fields"] += gen_fields(rng.randint(1, 3), rng.randint(0, 2), used)
        types.append(t)

    # every interface needs at least one implementation to be interesting
    for i in iface_names:
        if not any(i in t["interfaces"] for t in types if t["kind"] == "object"):
            implement(next(t for t in types if t["kind"] == "object"), i)

    for n in union_names:
        members = rng.sample(obj_names, rng.randint(1, min(3, len(obj_names))))
        types.append({"name": n, "kind": "union", "fields": [], "interfaces": [], "members": members, "values": [], "inputFields": []})
    for n in enum_names:
        vals = rng.sample(ENUM_VALUES, rng.randint(1, 4))
        types.append({"name": n, "kind": "enum", "fields": [], "interfaces": [], "members": [], "values": vals, "inputFields": []})
    for n in scalar_names:
        types.append({"name": n, "kind": "scalar", "fields": [], "interfaces": [], "members": [], "values": [], "inputFields": []})
    for n in input_names:
        used = set()
        ifs = []
        for _ in range(rng.randint(1, 4)):
            fn = pick_name(FIELD_NAMES, used)
            if not fn:
                break
            used.add(fn)
            base = rng.choice(BUILTIN_SCALARS + enum_names + scalar_names + input_names)
            t = wrap(rng, named(base), depth=1)
            if base in input_names and t[0] == "nonnull":
                t = t[1]  # keep recursive inputs finite: references to inputs are nullable (or lists)
            ifs.append({"name": fn, "type": t, "default": None})
        types.append({"name": n, "kind": "input", "fields": [], "interfaces": [], "members": [], "values": [], "inputFields": ifs})

    def root(name: str, n_fields: int) -> Dict[str, Any]:
        used: set = set()
        fields = gen_fields(rng.randint(1, 2), max(1, n_fields), used)
        return {"name": name, "kind": "object", "fields": fields, "interfaces": [], "members": [], "values": [], "inputFields": []}

    qname = "Query" if rng.random() >= custom_root_names else "RootQ"
    types.append(root(qname, 2 + size))
    schema: Dict[str, Any] = {"types": types, "query": qname, "mutation": None, "subscription": None}
    if mutation and rng.random() < 0.6:
        mname = "Mutation" if rng.random() >= custom_root_names else "RootM"
        types.append(root(mname, 1))
        schema["mutation"] = mname
    if subscription:
        sname = "Subscription"
        types.append(root(sname, 1))
        schema["subscription"] = sname
    return schema


def to_sdl(schema: Dict[str, Any]) -> str:
    out: List[str] = []
    roots = [("query", schema.get("query")), ("mutation", schema.get("mutation")), ("subscription", schema.get("subscription"))]
    default = {"query": "Query", "mutation": "Mutation", "subscription": "Subscription"}
    if any(v and v != default[k] for k, v in roots):
        out.append("schema { " + " ".join(f"{k}: {v}" for k, v in roots if v) + " }")
    for t in schema["types"]:
        k = t["kind"]
        if k == "scalar":
            out.append(f"scalar {t['name']}")
        elif k == "enum":
            out.append(f"enum {t['name']} {{ " + " ".join(t["values"]) + " }")
        elif k == "union":
            out.append(f"union {t['name']} = " + " | ".join(t["members"]))
        elif k == "input":
            fs = []
            for f in t["inputFields"]:
                d = f" = {f['default']}" if f.get("default") is not None else ""
                fs.append(f"  {f['name']}: {type_str(f['type'])}{d}")
            out.append(f"input {t['name']} {{\n" + "\n".join(fs) + "\n}")
        else:
            kw = "type" if k == "object" else "interface"
            impl = (" implements " + " & ".join(t["interfaces"])) if t["interfaces"] else ""
            fs = []
            for f in t["fields"]:
                args = ""
                if f.get("args"):
                    parts = []
                    for a in f["args"]:
                        d = f" = {a['default']}" if a.get("default") is not None else ""
                        parts.append(f"{a['name']}: {type_str(a['type'])}{d}")
                    args = "(" + ", ".join(parts) + ")"
                fs.append(f"  {f['name']}{args}: {type_str(f['type'])}")
            out.append(f"{kw} {t['name']}{impl} {{\n" + "\n".join(fs) + "\n}")
    return "\n\n".join(out) + "\n"


def type_map(schema: Dict[str, Any]) -> Dict[str, Dict[str, Any]]:
    return {t["name"]: t for t in schema["types"]}


def possible_types(schema: Dict[str, Any], name: str) -> List[str]:
    tm = type_map(schema)
    t = tm.get(name)
    if t is None:
        return []
    if t["kind"] == "union":
        return list(t["members"])
    if t["kind"] == "interface":
        return [o["name"] for o in schema["types"] if o["kind"] == "object" and name in o["interfaces"]]
    if t["kind"] == "object":
        return [name]
    return []
