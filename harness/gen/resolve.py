"""PRNG-driven resolvers: make graphql-core produce *any* response a conformant server could
return for the sent document (runtime type at every abstract position, null at every nullable
position, list lengths 0/1/n, scalar values of the right kind)."""
from __future__ import annotations

import random
from typing import Any, Dict, Optional

from graphql import (GraphQLEnumType, GraphQLInterfaceType, GraphQLList, GraphQLNonNull, GraphQLObjectType,
                     GraphQLScalarType, GraphQLUnionType)

STRINGS = ["", "x", "héllo", "two words", "with \"quote\"", "line\nbreak", "0", "null"]


class Resolver:
    def __init__(self, seed: Any, null_p: float = 0.2, custom_scalar_value: Optional[Any] = None) -> None:
        self.rng = random.Random(str(seed))
        self.null_p = null_p
        self.custom = custom_scalar_value

    def value_for(self, type_: Any, info: Any, nullable: bool = True) -> Any:
        rng = self.rng
        if isinstance(type_, GraphQLNonNull):
            return self.value_for(type_.of_type, info, False)
        if nullable and rng.random() < self.null_p:
            return None
        if isinstance(type_, GraphQLList):
            n = rng.choice([0, 1, 1, 2, 3])
            return [self.value_for(type_.of_type, info, True) for _ in range(n)]
        if isinstance(type_, GraphQLEnumType):
            return rng.choice(list(type_.values.values())).value
        if isinstance(type_, GraphQLScalarType):
            n = type_.name
            if n == "Int":
                return rng.choice([0, 1, -7, 42, 2**31 - 1])
            if n == "Float":
                return rng.choice([0.0, 1.5, -2.25, 3, 1e10])
            if n == "String":
                return rng.choice(STRINGS)
            if n == "Boolean":
                return rng.random() < 0.5
            if n == "ID":
                return rng.choice(["1", "abc", 17])
            if self.custom is not None:
                return self.custom(n, rng) if callable(self.custom) else self.custom
            return rng.choice(["2020-01-01T00:00:00", 5, {"k": [1, None]}, "c"])
        if isinstance(type_, GraphQLObjectType):
            return {"__rt": type_.name}
        if isinstance(type_, (GraphQLInterfaceType, GraphQLUnionType)):
            poss = info.schema.get_possible_types(type_)
            return {"__rt": rng.choice(sorted(t.name for t in poss))} if poss else None
        return None

    def __call__(self, source: Any, info: Any, **args: Any) -> Any:
        return self.value_for(info.return_type, info)

    @staticmethod
    def type_resolver(value: Any, info: Any, abstract_type: Any) -> Optional[str]:
        return value.get("__rt") if isinstance(value, dict) else None
