"""Seeded generator of operations/fragments for a schema from schema_gen (DESIGN.md §1.5).

Selection IR (JSON-able; the same structure is read by the Lean drivers):
  field : {"k": "field", "alias": str|None, "name": str, "args": [{"name", "var": str|None, "lit": str|None}],
           "dirs": [{"name": "skip"|"include", "var": str|None, "lit": bool|None}], "sel": [Selection]}
  spread: {"k": "spread", "name": FragmentName, "dirs": [...]}
  inline: {"k": "inline", "on": TypeName|None, "dirs": [...], "sel": [Selection]}
  fragment : {"name", "on", "sel", "mixins": []}
  operation: {"kind": "query"|"mutation"|"subscription", "name", "vars": [{"name", "type": TypeRef, "default": str|None}], "sel"}

Feature probabilities select which constructs may appear; the defaults stay inside the region where
the generator under test is expected to work, callers raise individual features to visit the
finding-trigger regions deliberately.
"""
from __future__ import annotations

import random
from typing import Any, Dict, List, Optional, Tuple

from .schema_gen import named, possible_types, type_map, type_str, unwrap

DEFAULT_FEATURES: Dict[str, float] = {
    "alias": 0.2,  # alias on a field
    "inline_obj": 0.7,  # inline fragments on object members at an abstract position
    "inline_same": 0.1,  # inline fragment on the position's own type
    "inline_iface": 0.0,  # inline fragment on another interface (finding C01-F5)
    "inline_notype": 0.0,  # inline fragment without type condition (finding C01-F7)
    "spread_same": 0.25,  # spread of a fragment on the position's own type (mixin)
    "spread_sub": 0.2,  # spread of a fragment on an object member at an abstract position
    "spread_with_inline": 0.15,  # spread of a fragment (on the abstract position's type) that contains inline fragments
    "spread_iface_at_object": 0.15,  # spread of a fragment on an interface at an object position (unpacked)
    "spread_in_inline": 0.25,  # a spread (of a fragment on the member type) inside an inline fragment's body
    "spread_iface": 0.0,  # spread of a fragment on another interface (finding C01-F6)
    "nested_spread": 0.3,  # fragments spreading fragments
    "dir_field": 0.12,  # @skip/@include on a field
    "dir_frag": 0.0,  # @skip/@include on an inline fragment / spread (finding C01-F3)
    "typename": 0.1,  # explicit __typename
    "typename_alias": 0.0,  # aliased __typename (finding C01-F8)
    "typename_cond": 0.0,  # __typename @skip/@include (finding C01-F10)
    "dup_key": 0.0,  # the same response key selected twice (finding C01-F2)
    "abstract_in_mixin": 0.0,  # mixin fragment containing an abstract-typed field at any depth (finding C01-F4)
    "mixin_and_unpacked": 0.0,  # a fragment both inherited and unpacked (finding C08-F1)
    "obj_in_abs_inline": 0.0,  # a spread / inline fragment on the object type inside an inline fragment on one of its interfaces (finding C01-F12)
    # the two below are 0 by default and draw nothing from the PRNG while 0 (existing streams are unchanged)
    "repeat_field": 0.0,  # the same schema field selected again under another alias in ONE selection set (`a: f b: f`)
    "reuse_fragment": 0.0,  # a spread re-uses an existing fragment definition (same type, same flavour) instead of growing a new one:
    #                         fragments shared by several positions / operations (every grown fragment is otherwise spread exactly once)
    "depth": 3,
}


class OpsGen:
    def __init__(self, schema: Dict[str, Any], rng: random.Random, features: Optional[Dict[str, float]] = None) -> None:
        self.schema = schema
        self.tm = type_map(schema)
        self.rng = rng
        self.f = dict(DEFAULT_FEATURES)
        if features:
            self.f.update(features)
        self.fragments: List[Dict[str, Any]] = []
        self.vars: List[Dict[str, Any]] = []
        self._frag_n = 0
        self._var_n = 0
        self._in_fragment: Optional[List[Dict[str, Any]]] = None
        self._arg_choice: Dict[Any, Optional[str]] = {}
        self._no_abstract = 0  # >0 while generating the body of a fragment that will be inherited (mixin)
        self._last_new: Optional[str] = None  # name of the fragment the last new_fragment() call created (None: re-used one)

    # ---- helpers
    def p(self, key: str) -> bool:
        return self.rng.random() < self.f[key]

    def kind(self, name: str) -> str:
        t = self.tm.get(name)
        return t["kind"] if t else "scalar"

    def is_composite(self, name: str) -> bool:
        return self.kind(name) in ("object", "interface", "union")

    def fields_of(self, name: str) -> List[Dict[str, Any]]:
        t = self.tm.get(name)
        return t["fields"] if t and t["kind"] in ("object", "interface") else []

    def new_var(self, type_ref: List[Any], hint: str) -> str:
        self._var_n += 1
        name = f"{hint}{self._var_n}" if self.rng.random() < 0.7 else f"v{self._var_n}"
        v = {"name": name, "type": type_ref, "default": None}
        (self._in_fragment if self._in_fragment is not None else self.vars).append(v)
        return name

    def directives(self, key: str) -> List[Dict[str, Any]]:
        if not self.p(key):
            return []
        name = self.rng.choice(["skip", "include"])
        if self.rng.random() < 0.6:
            return [{"name": name, "var": self.new_var(["nonnull", named("Boolean")], "flag"), "lit": None}]
        return [{"name": name, "var": None, "lit": self.rng.choice([True, False])}]

    # ---- selections
    def gen_field(self, fdef: Dict[str, Any], depth: int, used_keys: set, scope: Optional[set] = None,
                  force_alias: bool = False) -> Optional[Dict[str, Any]]:
        base = unwrap(fdef["type"])
        if self._no_abstract and self.kind(base) in ("interface", "union") and not self.p("abstract_in_mixin"):
            return None
        alias = None
        if force_alias or self.p("alias"):
            alias = self.rng.choice(["a", "renamed", "myAlias", "x"]) + str(self.rng.randint(1, 99))
        key = alias or fdef["name"]
        if key in used_keys and not self.p("dup_key"):
            return None
        if scope is not None and self.is_composite(base) and key in scope and not self.p("dup_key"):
            return None  # the same composite response key twice at one (merged) position: finding C01-F2 region
        args = []
        for a in fdef.get("args", []):
            # one decision per (field, argument) and operation: the same field always gets the same
            # arguments, so overlapping selections of it merge (OverlappingFieldsCanBeMerged)
            ck = (fdef["name"], a["name"])
            if ck not in self._arg_choice:
                required = a["type"][0] == "nonnull" and a.get("default") is None
                self._arg_choice[ck] = self.new_var(a["type"], a["name"]) if (required or self.rng.random() < 0.5) else None
            if self._arg_choice[ck]:
                args.append({"name": a["name"], "var": self._arg_choice[ck], "lit": None})
        sel: List[Dict[str, Any]] = []
        if self.is_composite(base):
            if depth <= 0:
                return None
            sel = self.gen_selection_set(base, depth - 1)
            if not sel:
                return None
            if scope is not None:
                scope.add(key)
        used_keys.add(key)
        return {"k": "field", "alias": alias, "name": fdef["name"], "args": args, "dirs": self.directives("dir_field"), "sel": sel}

    def leaf_fields(self, type_name: str, used_keys: set, depth: int, at_least_one: bool = True, scope: Optional[set] = None) -> List[Dict[str, Any]]:
        out: List[Dict[str, Any]] = []
        fdefs = list(self.fields_of(type_name))
        self.rng.shuffle(fdefs)
        want = self.rng.randint(1, max(1, min(4, len(fdefs))))
        for fd in fdefs:
            if len(out) >= want:
                break
            f = self.gen_field(fd, depth, used_keys, scope)
            if f:
                out.append(f)
        if self.f["repeat_field"] > 0 and out and self.p("repeat_field"):
            # the same schema field once more, under another response key
            again = self.rng.choice(out)
            fd = next((x for x in fdefs if x["name"] == again["name"]), None)
            if fd is not None:
                f = self.gen_field(fd, depth, used_keys, scope, force_alias=True)
                if f:
                    out.insert(self.rng.randint(0, len(out)), f)
        if at_least_one and not out:
            for fd in fdefs:  # fall back to any scalar field
                if not self.is_composite(unwrap(fd["type"])) and (fd["name"] not in used_keys):
                    f = self.gen_field(fd, 0, used_keys)
                    if f:
                        out.append(f)
                        break
        return out

    def _composite_keys(self, sel: List[Dict[str, Any]], _seen: Optional[set] = None) -> set:
        """response keys of the composite fields a selection set contributes to the position it is merged into"""
        seen = _seen if _seen is not None else set()
        out: set = set()
        for s in sel:
            if s["k"] == "field":
                if s.get("sel"):
                    out.add(s.get("alias") or s["name"])
            elif s["k"] == "inline":
                out |= self._composite_keys(s["sel"], seen)
            elif s["name"] not in seen:
                seen.add(s["name"])
                fr = next((f for f in self.fragments if f["name"] == s["name"]), None)
                if fr:
                    out |= self._composite_keys(fr["sel"], seen)
        return out

    def reuse_fragment(self, on: str, allow_inline: bool, scope: Optional[set], mixin: bool) -> Optional[str]:
        """an existing fragment definition of the same type and flavour that fits this position: its composite response keys
        are new at the (merged) position, and the variables it uses are (or can be) declared by the current operation"""
        cands = [f for f in self.fragments if f["on"] == on and f.get("_flavour") == (allow_inline, mixin)]
        self.rng.shuffle(cands)
        target = self._in_fragment if self._in_fragment is not None else self.vars
        for f in cands:
            keys = self._composite_keys(f["sel"])
            if scope is not None and keys & scope:
                continue
            have = {v["name"]: v for v in target}
            if any(v["name"] in have and have[v["name"]]["type"] != v["type"] for v in f.get("_vardefs", [])):
                continue
            for v in f.get("_vardefs", []):
                if v["name"] not in have:
                    target.append(dict(v))
            if scope is not None:
                scope |= keys
            return f["name"]
        return None

    def new_fragment(self, on: str, depth: int, allow_inline: bool, scope: Optional[set] = None, mixin: bool = False) -> Optional[str]:
        self._last_new = None
        if self.f["reuse_fragment"] > 0 and self.p("reuse_fragment"):
            fn = self.reuse_fragment(on, allow_inline, scope, mixin)
            if fn:
                return fn
        self._frag_n += 1
        name = self.rng.choice(["Frag", "Part", "Bits", "fields"]) + self.rng.choice(["A", "B", "C", "Of", ""]) + str(self._frag_n)
        outer = self._in_fragment
        self._in_fragment = self.vars  # variables used inside fragments are operation variables
        self._no_abstract += 1 if mixin else 0
        try:
            sel = self.gen_selection_set(on, depth, in_fragment=True, allow_inline=allow_inline, scope=scope)
        finally:
            self._in_fragment = outer
            self._no_abstract -= 1 if mixin else 0
        if not sel:
            return None
        frag = {"name": name, "on": on, "sel": sel, "mixins": []}
        if self.f["reuse_fragment"] > 0:
            uv = used_variables(sel, {f["name"]: f for f in self.fragments})
            frag["_flavour"] = (allow_inline, mixin)
            frag["_vardefs"] = [dict(v) for v in self.vars if v["name"] in uv]
        self.fragments.append(frag)
        self._last_new = name
        return name

    def gen_selection_set(self, type_name: str, depth: int, in_fragment: bool = False, allow_inline: bool = True,
                          scope: Optional[set] = None) -> List[Dict[str, Any]]:
        kind = self.kind(type_name)
        scope = scope if scope is not None else set()
        used: set = set()
        sel: List[Dict[str, Any]] = []
        if kind in ("object", "interface"):
            sel += self.leaf_fields(type_name, used, depth, scope=scope)
        if self.p("typename") or (kind == "union" and not sel and self.rng.random() < 0.3):
            if self.p("typename_alias"):
                sel.insert(0, {"k": "field", "alias": "kind", "name": "__typename", "args": [], "dirs": [], "sel": []})
            elif "__typename" not in used:
                sel.insert(self.rng.randint(0, len(sel)), {"k": "field", "alias": None, "name": "__typename", "args": [],
                                                           "dirs": self.directives("typename_cond"), "sel": []})
                used.add("__typename")
        if kind in ("interface", "union") and allow_inline:
            members = possible_types(self.schema, type_name)
            self.rng.shuffle(members)
            for m in members:
                if self.p("inline_obj"):
                    sub = self.leaf_fields(m, set(used), depth, at_least_one=True, scope=scope)
                    if sub and self.p("spread_in_inline"):
                        fn = self.new_fragment(m, max(depth - 1, 0), allow_inline=False, scope=scope, mixin=True)
                        if fn:
                            sub.append({"k": "spread", "name": fn, "dirs": []})
                    if sub:
                        sel.append({"k": "inline", "on": m, "dirs": self.directives("dir_frag"), "sel": sub})
                elif self.p("spread_sub"):
                    fn = self.new_fragment(m, depth, allow_inline=False, scope=scope, mixin=True)
                    if fn:
                        sel.append({"k": "spread", "name": fn, "dirs": self.directives("dir_frag")})
            if self.p("spread_with_inline"):
                # a fragment on the position's own abstract type that itself contains inline fragments: unpacked
                fn = self.new_fragment(type_name, depth, allow_inline=True, scope=scope)
                if fn:
                    body = next(f for f in self.fragments if f["name"] == fn)["sel"]
                    if any(x["k"] == "inline" for x in body) and not any(x["k"] == "spread" for x in body):
                        sel.append({"k": "spread", "name": fn, "dirs": self.directives("dir_frag")})
                    elif self._last_new == fn:
                        self.fragments.pop()
            if self.p("inline_iface") or self.p("spread_iface"):
                others = [t["name"] for t in self.schema["types"] if t["kind"] == "interface" and t["name"] != type_name]
                overlapping = [o for o in others if set(possible_types(self.schema, o)) & set(possible_types(self.schema, type_name))]
                if overlapping:
                    o = self.rng.choice(overlapping)
                    if self.p("spread_iface"):
                        fn = self.new_fragment(o, depth, allow_inline=False, scope=scope)
                        if fn:
                            sel.append({"k": "spread", "name": fn, "dirs": []})
                    else:
                        sub = self.leaf_fields(o, set(used), 0)
                        if sub:
                            sel.append({"k": "inline", "on": o, "dirs": [], "sel": sub})
        if kind in ("object", "interface"):
            if self.p("inline_same") and allow_inline:
                sub = self.leaf_fields(type_name, used, depth, at_least_one=False, scope=scope)
                if sub:
                    sel.append({"k": "inline", "on": type_name, "dirs": self.directives("dir_frag"), "sel": sub})
            if kind == "object" and self.p("spread_iface_at_object"):
                ifaces = self.tm[type_name]["interfaces"]
                if ifaces:
                    # a fragment on an interface spread at an object position: unpacked into the object's class
                    fn = self.new_fragment(self.rng.choice(ifaces), 0, allow_inline=False, scope=scope)
                    if fn:
                        sel.append({"k": "spread", "name": fn, "dirs": self.directives("dir_frag")})
            if kind == "object" and allow_inline and self.f["obj_in_abs_inline"] > 0 and self.p("obj_in_abs_inline"):
                ifaces = self.tm[type_name]["interfaces"]
                if ifaces:
                    # `... on Interface { ...FragOnThisObject }` / `... on Interface { ... on ThisObject { .. } }`: below the
                    # inline fragment the generator resolves with the interface as root and drops the object-typed part
                    if self.rng.random() < 0.5:
                        fn = self.new_fragment(type_name, 0, allow_inline=False, scope=scope, mixin=True)
                        inner = [{"k": "spread", "name": fn, "dirs": []}] if fn else []
                    else:
                        sub = self.leaf_fields(type_name, set(used), 0, at_least_one=True)
                        inner = [{"k": "inline", "on": type_name, "dirs": [], "sel": sub}] if sub else []
                    if inner:
                        sel.append({"k": "inline", "on": self.rng.choice(ifaces), "dirs": [], "sel": inner})
            if self.p("inline_notype") and allow_inline:
                sub = self.leaf_fields(type_name, used, 0, at_least_one=False)
                if sub:
                    sel.append({"k": "inline", "on": None, "dirs": [], "sel": sub})
            has_subtype_classes = kind == "interface" and any(x["k"] in ("inline", "spread") for x in sel)
            if self.p("spread_same") and depth >= 0 and (not has_subtype_classes or self.p("mixin_and_unpacked")):
                nested = self.p("nested_spread")
                fn = self.new_fragment(type_name, depth if nested else max(depth - 1, 0), allow_inline=False, scope=scope, mixin=True)
                if fn:
                    # the fragment's keys must not clash with ours in a way that changes types: same
                    # field => same response key and type, which GraphQL allows; keep it
                    sel.append({"k": "spread", "name": fn, "dirs": self.directives("dir_frag")})
        return sel

    def _has_abstract_field(self, type_name: str, s: Dict[str, Any]) -> bool:
        if s["k"] != "field":
            return False
        for fd in self.fields_of(type_name):
            if fd["name"] == s["name"]:
                return self.kind(unwrap(fd["type"])) in ("interface", "union")
        return False

    # ---- operations
    def gen_operation(self, name: str, kind: str = "query") -> Optional[Dict[str, Any]]:
        root = self.schema.get(kind)
        if not root:
            return None
        self.vars = []
        self._arg_choice = {}
        depth = int(self.f["depth"])
        sel = self.gen_selection_set(root, depth)
        if not sel:
            return None
        if kind == "subscription":
            sel = [s for s in sel if s["k"] == "field"][:1]
            if not sel:
                return None
        return {"kind": kind, "name": name, "vars": list(self.vars), "sel": sel}


OP_NAMES = ["GetThing", "listItems", "FetchAll", "search_nodes", "Q1", "loadPage", "viewer", "Overview", "doIt", "ABTest"]


def gen_document(schema: Dict[str, Any], rng: random.Random, n_ops: int = 2, features: Optional[Dict[str, float]] = None,
                 kinds: Tuple[str, ...] = ("query", "mutation")) -> Dict[str, Any]:
    g = OpsGen(schema, rng, features)
    ops = []
    names = rng.sample(OP_NAMES, min(n_ops, len(OP_NAMES)))
    for n in names:
        k = rng.choice([k for k in kinds if schema.get(k)] or ["query"])
        op = g.gen_operation(n, k)
        if op:
            ops.append(op)
    used = used_fragments(ops, g.fragments)
    frags = [f for f in g.fragments if f["name"] in used]
    for o in ops:  # keep exactly the variables the operation (transitively) uses
        uv = used_variables(o["sel"], {f["name"]: f for f in frags})
        seen: set = set()
        o["vars"] = [v for v in o["vars"] if v["name"] in uv and not (v["name"] in seen or seen.add(v["name"]))]
    return {"operations": ops, "fragments": frags}


def used_variables(sel: List[Dict[str, Any]], frags: Dict[str, Dict[str, Any]], _seen: Optional[set] = None) -> set:
    out: set = set()
    seen = _seen if _seen is not None else set()
    for s in sel:
        for d in s.get("dirs", []):
            if d.get("var"):
                out.add(d["var"])
        if s["k"] == "field":
            for a in s.get("args", []):
                if a.get("var"):
                    out.add(a["var"])
        if s["k"] == "spread":
            if s["name"] not in seen and s["name"] in frags:
                seen.add(s["name"])
                out |= used_variables(frags[s["name"]]["sel"], frags, seen)
        else:
            out |= used_variables(s.get("sel", []), frags, seen)
    return out


def used_fragments(ops: List[Dict[str, Any]], fragments: List[Dict[str, Any]]) -> set:
    by = {f["name"]: f for f in fragments}
    seen: set = set()

    def walk(sel: List[Dict[str, Any]]) -> None:
        for s in sel:
            if s["k"] == "spread":
                if s["name"] not in seen and s["name"] in by:
                    seen.add(s["name"])
                    walk(by[s["name"]]["sel"])
            else:
                walk(s.get("sel", []))

    for o in ops:
        walk(o["sel"])
    return seen


# ---- rendering


def _dirs(ds: List[Dict[str, Any]]) -> str:
    out = ""
    for d in ds:
        if d["name"] == "mixin":
            out += f' @mixin(from: "{d["from"]}", import: "{d["import"]}")'
        else:
            cond = "$" + d["var"] if d.get("var") else ("true" if d["lit"] else "false")
            out += f" @{d['name']}(if: {cond})"
    return out


def render_selection(sel: List[Dict[str, Any]], ind: int) -> str:
    pad = "  " * ind
    lines = []
    for s in sel:
        if s["k"] == "field":
            head = (s["alias"] + ": " if s.get("alias") else "") + s["name"]
            if s.get("args"):
                head += "(" + ", ".join(f"{a['name']}: " + ("$" + a["var"] if a.get("var") else a["lit"]) for a in s["args"]) + ")"
            head += _dirs(s.get("dirs", []))
            if s.get("sel"):
                lines.append(f"{pad}{head} {{\n{render_selection(s['sel'], ind + 1)}\n{pad}}}")
            else:
                lines.append(pad + head)
        elif s["k"] == "spread":
            lines.append(f"{pad}...{s['name']}{_dirs(s.get('dirs', []))}")
        else:
            on = f" on {s['on']}" if s.get("on") else ""
            lines.append(f"{pad}...{on}{_dirs(s.get('dirs', []))} {{\n{render_selection(s['sel'], ind + 1)}\n{pad}}}")
    return "\n".join(lines)


def render_operation(op: Dict[str, Any]) -> str:
    vars_ = ""
    if op["vars"]:
        vars_ = "(" + ", ".join(f"${v['name']}: {type_str(v['type'])}" + (f" = {v['default']}" if v.get("default") is not None else "") for v in op["vars"]) + ")"
    return f"{op['kind']} {op['name']}{vars_}{_dirs(op.get('dirs', []))} {{\n{render_selection(op['sel'], 1)}\n}}"


def render_fragment(f: Dict[str, Any]) -> str:
    return f"fragment {f['name']} on {f['on']}{_dirs(f.get('dirs', []))} {{\n{render_selection(f['sel'], 1)}\n}}"


def render_document(doc: Dict[str, Any]) -> str:
    return "\n\n".join([render_operation(o) for o in doc["operations"]] + [render_fragment(f) for f in doc["fragments"]]) + "\n"
