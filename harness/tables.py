"""Translator part of the tie (DESIGN.md §1.3a): everything that is *data* in /repo's source is
re-extracted on every run and written to lean/AriadneModel/Generated/Tables.lean, so that every
theorem that depends on a table is re-checked by `lake build` against what the source says now.

The file is only rewritten when its content changes (lake rebuilds by content hash anyway).
"""
from __future__ import annotations

import ast
import dataclasses
import importlib
import keyword
import os
import sys
from pathlib import Path
from typing import Any, Dict, List

from . import common


def lstr(s: str) -> str:
    out = ['"']
    for ch in s:
        if ch == '"':
            out.append('\\"')
        elif ch == "\\":
            out.append("\\\\")
        elif ch == "\n":
            out.append("\\n")
        elif ch == "\t":
            out.append("\\t")
        elif ord(ch) < 32 or ord(ch) == 127:
            out.append("\\x%02x" % ord(ch))
        else:
            out.append(ch)
    out.append('"')
    return "".join(out)


def llist(xs: List[str]) -> str:
    if not xs:
        return "[]"
    lines, cur = [], "  ["
    for i, x in enumerate(xs):
        piece = lstr(x) + (", " if i + 1 < len(xs) else "]")
        if len(cur) + len(piece) > 100:
            lines.append(cur.rstrip())
            cur = "   "
        cur += piece
    lines.append(cur)
    return "\n" + "\n".join(lines)


def lpairs(xs: List[tuple]) -> str:
    if not xs:
        return "[]"
    return "\n  [" + ",\n   ".join(f"({lstr(str(a))}, {lstr(str(b))})" for a, b in xs) + "]"


def lbool(b: bool) -> str:
    return "true" if b else "false"


def _imp(name: str) -> Any:
    return importlib.import_module(name)


def _overridden_hooks(plugin_cls: type, base: type) -> List[str]:
    return sorted(
        n
        for n, v in vars(plugin_cls).items()
        if callable(v) and not n.startswith("_") and hasattr(base, n)
    )


def collect() -> Dict[str, Any]:
    sys.path.insert(0, str(common.REPO)) if str(common.REPO) not in sys.path else None
    c = _imp("ariadne_codegen.client_generators.constants")
    u = _imp("ariadne_codegen.utils")
    s = _imp("ariadne_codegen.settings")
    t: Dict[str, Any] = {}
    t["kwlist"] = list(keyword.kwlist)
    t["softkwlist"] = list(keyword.softkwlist)
    t["pydanticReserved"] = list(u.PYDANTIC_RESERVED_FIELD_NAMES)
    t["simpleTypeMap"] = list(c.SIMPLE_TYPE_MAP.items())
    t["inputScalarsMap"] = list(c.INPUT_SCALARS_MAP.items())
    t["typenameFieldName"] = c.TYPENAME_FIELD_NAME
    t["typenameAlias"] = c.TYPENAME_ALIAS
    t["mixinName"] = c.MIXIN_NAME
    t["mixinFromName"] = c.MIXIN_FROM_NAME
    t["mixinImportName"] = c.MIXIN_IMPORT_NAME
    t["skipDirectiveName"] = c.SKIP_DIRECTIVE_NAME
    t["includeDirectiveName"] = c.INCLUDE_DIRECTIVE_NAME
    t["kwargsName"] = c.KWARGS_NAMES
    t["unsetName"] = c.UNSET_NAME
    t["uploadClassName"] = c.UPLOAD_CLASS_NAME
    t["exceptionsNames"] = list(c.GRAPHQL_CLIENT_EXCEPTIONS_NAMES)
    t["operationTypes"] = list(c.OPERATION_TYPES)
    t["defaultBaseClients"] = [
        ("async", c.DEFAULT_ASYNC_BASE_CLIENT_NAME, Path(c.DEFAULT_ASYNC_BASE_CLIENT_PATH).name),
        ("asyncOT", c.DEFAULT_ASYNC_BASE_CLIENT_OPEN_TELEMETRY_NAME, Path(c.DEFAULT_ASYNC_BASE_CLIENT_OPEN_TELEMETRY_PATH).name),
        ("sync", c.DEFAULT_BASE_CLIENT_NAME, Path(c.DEFAULT_BASE_CLIENT_PATH).name),
        ("syncOT", c.DEFAULT_BASE_CLIENT_OPEN_TELEMETRY_NAME, Path(c.DEFAULT_BASE_CLIENT_OPEN_TELEMETRY_PATH).name),
    ]
    # websocket message type tables of the two async clients
    for key, modname in (
        ("wsTypesAsync", "ariadne_codegen.client_generators.dependencies.async_base_client"),
        ("wsTypesAsyncOT", "ariadne_codegen.client_generators.dependencies.async_base_client_open_telemetry"),
    ):
        try:
            m = _imp(modname)
            t[key] = [(e.name, e.value) for e in m.GraphQLTransportWSMessageType]
        except Exception as e:  # table unreadable: an empty table breaks the proofs that need it
            t[key] = []
            t.setdefault("_problems", []).append(f"{key}: {e!r}")
    t["commentsStrategies"] = [e.value for e in s.CommentsStrategy]
    t["strategies"] = [e.value for e in s.Strategy]
    cs_fields = []
    for f in dataclasses.fields(s.ClientSettings):
        if f.default is not dataclasses.MISSING:
            d = f.default.value if hasattr(f.default, "value") else f.default
            cs_fields.append((f.name, repr(d)))
        else:
            cs_fields.append((f.name, "<factory>"))
    t["clientSettingsFields"] = cs_fields
    gs_fields = []
    for f in dataclasses.fields(s.GraphQLSchemaSettings):
        if f.default is not dataclasses.MISSING:
            gs_fields.append((f.name, repr(f.default)))
        else:
            gs_fields.append((f.name, "<factory>"))
    t["schemaSettingsFields"] = gs_fields
    # graphqlschema strategy constants
    try:
        gc = _imp("ariadne_codegen.graphql_schema_generators.constants")
        t["schemaGenConstants"] = sorted(
            (k, str(v)) for k, v in vars(gc).items() if k.isupper() and isinstance(v, str)
        )
    except Exception as e:
        t["schemaGenConstants"] = []
        t.setdefault("_problems", []).append(f"schemaGenConstants: {e!r}")
    # plugin hooks
    try:
        pb = _imp("ariadne_codegen.plugins.base")
        hooks = sorted(n for n, v in vars(pb.Plugin).items() if callable(v) and not n.startswith("_"))
        t["pluginHooks"] = hooks
        contrib = _imp("ariadne_codegen.contrib")
        over = []
        for name in ("ShorterResultsPlugin", "ExtractOperationsPlugin", "ClientForwardRefsPlugin", "NoReimportsPlugin"):
            cls = getattr(contrib, name, None)
            if cls is None:
                for modname in ("shorter_results", "extract_operations", "client_forward_refs", "no_reimports"):
                    mm = _imp(f"ariadne_codegen.contrib.{modname}")
                    cls = getattr(mm, name, None) or cls
            if cls is not None:
                over.append((name, ",".join(_overridden_hooks(cls, pb.Plugin))))
        t["pluginOverrides"] = over
    except Exception as e:
        t["pluginHooks"] = []
        t["pluginOverrides"] = []
        t.setdefault("_problems", []).append(f"plugins: {e!r}")
    return t


def render(t: Dict[str, Any]) -> str:
    L: List[str] = []
    L.append("/-")
    L.append("  GENERATED by harness/tables.py from /repo's working tree on every check run. DO NOT EDIT.")
    L.append("  Data tables of ariadne-codegen (and of the CPython / pydantic it runs on) that the models and")
    L.append("  theorems depend on.  A theorem about a table is re-checked against what the source says now.")
    L.append("-/")
    L.append("namespace Ariadne.Tables")
    L.append("")

    def strlist(name: str, doc: str) -> None:
        L.append(f"/-- {doc} -/")
        L.append(f"def {name} : List String := {llist([str(x) for x in t[name]])}")
        L.append("")

    def pairs(name: str, doc: str) -> None:
        L.append(f"/-- {doc} -/")
        L.append(f"def {name} : List (String × String) := {lpairs(t[name])}")
        L.append("")

    def string(name: str, doc: str) -> None:
        L.append(f"/-- {doc} -/")
        L.append(f"def {name} : String := {lstr(t[name])}")
        L.append("")

    strlist("kwlist", "`keyword.kwlist` of the interpreter running the generator")
    strlist("softkwlist", "`keyword.softkwlist`")
    strlist("pydanticReserved", "`utils.PYDANTIC_RESERVED_FIELD_NAMES` (public attributes of pydantic.BaseModel)")
    pairs("simpleTypeMap", "`constants.SIMPLE_TYPE_MAP`")
    pairs("inputScalarsMap", "`constants.INPUT_SCALARS_MAP`")
    string("typenameFieldName", "`constants.TYPENAME_FIELD_NAME`")
    string("typenameAlias", "`constants.TYPENAME_ALIAS`")
    string("mixinName", "`constants.MIXIN_NAME`")
    string("mixinFromName", "`constants.MIXIN_FROM_NAME`")
    string("mixinImportName", "`constants.MIXIN_IMPORT_NAME`")
    string("skipDirectiveName", "`constants.SKIP_DIRECTIVE_NAME`")
    string("includeDirectiveName", "`constants.INCLUDE_DIRECTIVE_NAME`")
    string("kwargsName", "`constants.KWARGS_NAMES`")
    string("unsetName", "`constants.UNSET_NAME`")
    string("uploadClassName", "`constants.UPLOAD_CLASS_NAME`")
    strlist("exceptionsNames", "`constants.GRAPHQL_CLIENT_EXCEPTIONS_NAMES`")
    strlist("operationTypes", "`constants.OPERATION_TYPES`")
    L.append("/-- (kind, class name, file name) of the four bundled base clients -/")
    L.append(
        "def defaultBaseClients : List (String × String × String) := \n  ["
        + ",\n   ".join(f"({lstr(a)}, {lstr(b)}, {lstr(c)})" for a, b, c in t["defaultBaseClients"])
        + "]"
    )
    L.append("")
    pairs("wsTypesAsync", "`GraphQLTransportWSMessageType` (member name, wire value) in async_base_client.py")
    pairs("wsTypesAsyncOT", "`GraphQLTransportWSMessageType` in async_base_client_open_telemetry.py")
    strlist("commentsStrategies", "`settings.CommentsStrategy` values")
    strlist("strategies", "`settings.Strategy` values")
    pairs("clientSettingsFields", "`ClientSettings` dataclass fields with `repr` of their defaults")
    pairs("schemaSettingsFields", "`GraphQLSchemaSettings` dataclass fields with `repr` of their defaults")
    pairs("schemaGenConstants", "string constants of graphql_schema_generators/constants.py")
    strlist("pluginHooks", "public hook names of `plugins.base.Plugin`")
    pairs("pluginOverrides", "hooks each bundled plugin overrides (comma separated)")
    L.append("end Ariadne.Tables")
    return "\n".join(L) + "\n"


def regenerate() -> str:
    t = collect()
    text = render(t)
    target = common.LEAN / "AriadneModel" / "Generated" / "Tables.lean"
    target.parent.mkdir(parents=True, exist_ok=True)
    old = target.read_text() if target.exists() else None
    if old != text:
        tmp = target.with_suffix(f".tmp{os.getpid()}")
        tmp.write_text(text)
        os.replace(tmp, target)
        status = "changed" if old is not None else "created"
    else:
        status = "unchanged"
    probs = t.get("_problems")
    return status + (f"; problems: {probs}" if probs else "")


if __name__ == "__main__":
    print(regenerate())
