"""Translator part of the tie (DESIGN.md §1.3a): everything that is *data* in /repo's source is
re-extracted on every run and written to lean/AriadneModel/Generated/Tables.lean, so that every
theorem that depends on a table is re-checked by `lake build` against what the source says now.

The file is only rewritten when its content changes (lake rebuilds by content hash anyway).
"""
from __future__ import annotations

import ast
import dataclasses
import importlib
import keyword
import os
import sys
from pathlib import Path
from typing import Any, Dict, List

from . import common


def lstr(s: str) -> str:
    out = ['"']
    for ch in s:
        if ch == '"':
            out.append('\\"')
        elif ch == "\\":
            out.append("\\\\")
        elif ch == "\n":
            out.append("\\n")
        elif ch == "\t":
            out.append("\\t")
        elif ord(ch) < 32 or ord(ch) == 127:
            out.append("\\x%02x" % ord(ch))
        else:
            out.append(ch)
    out.append('"')
    return "".join(out)


def llist(xs: List[str]) -> str:
    if not xs:
        return "[]"
    lines, cur = [], "  ["
    for i, x in enumerate(xs):
        piece = lstr(x) + (", " if i + 1 < len(xs) else "]")
        if len(cur) + len(piece) > 100:
            lines.append(cur.rstrip())
            cur = "   "
        cur += piece
    lines.append(cur)
    return "\n" + "\n".join(lines)


def lpairs(xs: List[tuple]) -> str:
    if not xs:
        return "[]"
    return "\n  [" + ",\n   ".join(f"({lstr(str(a))}, {lstr(str(b))})" for a, b in xs) + "]"


def lbool(b: bool) -> str:
    return "true" if b else "false"


def _imp(name: str) -> Any:
    return importlib.import_module(name)


def _overridden_hooks(plugin_cls: type, base: type) -> List[str]:
    return sorted(
        n
        for n, v in vars(plugin_cls).items()
        if callable(v) and not n.startswith("_") and hasattr(base, n)
    )


def _process_name_fallback(t: Dict[str, Any]) -> str:
    """C18: the string literal `utils.process_name` returns for names made of underscores only
    (the single `return "<literal>"` of that function); "" + a recorded problem when it is gone."""
    try:
        tree = ast.parse((common.REPO / "ariadne_codegen" / "utils.py").read_text())
        fn = [n for n in ast.walk(tree) if isinstance(n, ast.FunctionDef) and n.name == "process_name"][0]
        lits = [r.value.value for r in ast.walk(fn)
                if isinstance(r, ast.Return) and isinstance(r.value, ast.Constant) and isinstance(r.value.value, str)]
        if len(lits) == 1:
            return lits[0]
        raise ValueError(f"{len(lits)} literal returns")
    except Exception as e:  # noqa: BLE001
        t.setdefault("_problems", []).append(f"underscoreFallbackName: {e!r}")
        return ""


C19_SENSITIVE_ATTRS = ("ast_node", "extension_ast_nodes", "default_value", "description", "deprecation_reason",
                       "specified_by_url")


def _c19_tables(t: Dict[str, Any]) -> None:
    """C19: data of schema.py (graphql suffixes, flags of the introspection query that is sent) and the list of every
    place in the client strategy that reads an attribute whose value differs between an SDL-built and an
    introspection-built graphql-core schema (AST nodes, descriptions, deprecation, default values)."""
    try:
        src = (common.REPO / "ariadne_codegen" / "schema.py").read_text()
        tree = ast.parse(src)
        fns = {n.name: n for n in ast.walk(tree) if isinstance(n, ast.FunctionDef)}
        exts: List[str] = []
        for n in ast.walk(fns["walk_graphql_files"]):
            if isinstance(n, ast.Assign) and isinstance(n.value, (ast.Tuple, ast.List, ast.Set)):
                exts = [e.value for e in n.value.elts if isinstance(e, ast.Constant) and isinstance(e.value, str)]
        t["graphqlExtensions"] = exts
        flags: List[tuple] = []
        calls = [n for n in ast.walk(fns["introspect_remote_schema"]) if isinstance(n, ast.Call)
                 and getattr(n.func, "id", getattr(n.func, "attr", "")) == "get_introspection_query"]
        if len(calls) != 1 or calls[0].args:
            raise ValueError("get_introspection_query call not recognised")
        for kw in calls[0].keywords:
            flags.append((kw.arg, repr(ast.literal_eval(kw.value))))
        t["introspectionQueryFlags"] = flags
    except Exception as e:  # noqa: BLE001
        t["graphqlExtensions"] = []
        t["introspectionQueryFlags"] = [("unreadable", "True")]
        t.setdefault("_problems", []).append(f"c19 schema.py tables: {e!r}")
    try:
        import inspect

        from graphql import get_introspection_query

        t["introspectionQueryDefaults"] = [(n, repr(p.default)) for n, p in inspect.signature(get_introspection_query).parameters.items()]
    except Exception as e:  # noqa: BLE001
        t["introspectionQueryDefaults"] = []
        t.setdefault("_problems", []).append(f"introspectionQueryDefaults: {e!r}")
    uses: List[tuple] = []
    root = common.REPO / "ariadne_codegen"
    for f in sorted(root.rglob("*.py")):
        rel = f.relative_to(common.REPO).as_posix()
        if "/graphql_schema_generators/" in rel or "/dependencies/" in rel:
            continue
        try:
            tree = ast.parse(f.read_text())
        except (OSError, SyntaxError):
            uses.append((rel, "<unparseable>", "?"))
            continue

        def visit(node: ast.AST, qual: str) -> None:
            for child in ast.iter_child_nodes(node):
                q = qual
                if isinstance(child, (ast.FunctionDef, ast.AsyncFunctionDef, ast.ClassDef)):
                    q = (qual + "." if qual else "") + child.name
                if isinstance(child, ast.Attribute) and child.attr in C19_SENSITIVE_ATTRS:
                    uses.append((rel, qual or "<module>", child.attr))
                if isinstance(child, ast.Constant) and isinstance(child.value, str) and child.value in C19_SENSITIVE_ATTRS \
                        and isinstance(node, ast.Call) and getattr(node.func, "id", "") in ("getattr", "hasattr"):
                    uses.append((rel, qual or "<module>", child.value))
                visit(child, q)

        visit(tree, "")
    t["sourceSensitiveUses"] = sorted(set(uses))


def collect() -> Dict[str, Any]:
    sys.path.insert(0, str(common.REPO)) if str(common.REPO) not in sys.path else None
    c = _imp("ariadne_codegen.client_generators.constants")
    u = _imp("ariadne_codegen.utils")
    s = _imp("ariadne_codegen.settings")
    t: Dict[str, Any] = {}
    t["kwlist"] = list(keyword.kwlist)
    t["softkwlist"] = list(keyword.softkwlist)
    t["pydanticReserved"] = list(u.PYDANTIC_RESERVED_FIELD_NAMES)
    t["underscoreFallbackName"] = _process_name_fallback(t)  # C18: literal returned by utils.process_name for all-underscore names
    t["simpleTypeMap"] = list(c.SIMPLE_TYPE_MAP.items())
    t["inputScalarsMap"] = list(c.INPUT_SCALARS_MAP.items())
    t["typenameFieldName"] = c.TYPENAME_FIELD_NAME
    t["typenameAlias"] = c.TYPENAME_ALIAS
    t["mixinName"] = c.MIXIN_NAME
    t["mixinFromName"] = c.MIXIN_FROM_NAME
    t["mixinImportName"] = c.MIXIN_IMPORT_NAME
    t["skipDirectiveName"] = c.SKIP_DIRECTIVE_NAME
    t["includeDirectiveName"] = c.INCLUDE_DIRECTIVE_NAME
    t["kwargsName"] = c.KWARGS_NAMES
    t["unsetName"] = c.UNSET_NAME
    t["uploadClassName"] = c.UPLOAD_CLASS_NAME
    t["exceptionsNames"] = list(c.GRAPHQL_CLIENT_EXCEPTIONS_NAMES)
    t["operationTypes"] = list(c.OPERATION_TYPES)
    t["defaultBaseClients"] = [
        ("async", c.DEFAULT_ASYNC_BASE_CLIENT_NAME, Path(c.DEFAULT_ASYNC_BASE_CLIENT_PATH).name),
        ("asyncOT", c.DEFAULT_ASYNC_BASE_CLIENT_OPEN_TELEMETRY_NAME, Path(c.DEFAULT_ASYNC_BASE_CLIENT_OPEN_TELEMETRY_PATH).name),
        ("sync", c.DEFAULT_BASE_CLIENT_NAME, Path(c.DEFAULT_BASE_CLIENT_PATH).name),
        ("syncOT", c.DEFAULT_BASE_CLIENT_OPEN_TELEMETRY_NAME, Path(c.DEFAULT_BASE_CLIENT_OPEN_TELEMETRY_PATH).name),
    ]
    # websocket message type tables of the two async clients
    for key, modname in (
        ("wsTypesAsync", "ariadne_codegen.client_generators.dependencies.async_base_client"),
        ("wsTypesAsyncOT", "ariadne_codegen.client_generators.dependencies.async_base_client_open_telemetry"),
    ):
        try:
            m = _imp(modname)
            t[key] = [(e.name, e.value) for e in m.GraphQLTransportWSMessageType]
        except Exception as e:  # table unreadable: an empty table breaks the proofs that need it
            t[key] = []
            t.setdefault("_problems", []).append(f"{key}: {e!r}")
    # C13: the subprotocol constant of the two async clients, and the keyword arguments the INSTALLED
    # websockets.connect accepts (its own named parameters + those of loop.create_connection, to
    # which it forwards **kwargs) -- reference data about third-party code, see Spec/WsConnect.lean
    for key, modname in (
        ("wsSubprotocolAsync", "ariadne_codegen.client_generators.dependencies.async_base_client"),
        ("wsSubprotocolAsyncOT", "ariadne_codegen.client_generators.dependencies.async_base_client_open_telemetry"),
    ):
        try:
            t[key] = str(_imp(modname).GRAPHQL_TRANSPORT_WS)
        except Exception as e:
            t[key] = ""
            t.setdefault("_problems", []).append(f"{key}: {e!r}")
    try:
        import asyncio
        import inspect

        import websockets

        named = [
            n
            for n, p in inspect.signature(websockets.connect.__init__).parameters.items()
            if n != "self" and p.kind in (p.POSITIONAL_OR_KEYWORD, p.KEYWORD_ONLY)
        ]
        fwd = [
            n
            for n, p in inspect.signature(asyncio.AbstractEventLoop.create_connection).parameters.items()
            if n != "self" and p.kind in (p.POSITIONAL_OR_KEYWORD, p.KEYWORD_ONLY)
        ]
        t["wsConnectAccepted"] = named + [n for n in fwd if n not in named]
        t["websocketsVersion"] = str(websockets.__version__)
    except Exception as e:
        t["wsConnectAccepted"] = []
        t["websocketsVersion"] = ""
        t.setdefault("_problems", []).append(f"wsConnectAccepted: {e!r}")
    t["commentsStrategies"] = [e.value for e in s.CommentsStrategy]
    t["strategies"] = [e.value for e in s.Strategy]
    cs_fields = []
    for f in dataclasses.fields(s.ClientSettings):
        if f.default is not dataclasses.MISSING:
            d = f.default.value if hasattr(f.default, "value") else f.default
            cs_fields.append((f.name, repr(d)))
        else:
            cs_fields.append((f.name, "<factory>"))
    t["clientSettingsFields"] = cs_fields
    gs_fields = []
    for f in dataclasses.fields(s.GraphQLSchemaSettings):
        if f.default is not dataclasses.MISSING:
            gs_fields.append((f.name, repr(f.default)))
        else:
            gs_fields.append((f.name, "<factory>"))
    t["schemaSettingsFields"] = gs_fields
    # graphqlschema strategy constants
    try:
        gc = _imp("ariadne_codegen.graphql_schema_generators.constants")
        t["schemaGenConstants"] = sorted(
            (k, str(v)) for k, v in vars(gc).items() if k.isupper() and isinstance(v, str)
        )
    except Exception as e:
        t["schemaGenConstants"] = []
        t.setdefault("_problems", []).append(f"schemaGenConstants: {e!r}")
    # C16: the tuple / dict constants of the graphqlschema strategy, and reference data about the
    # installed graphql-core that Spec/PySchemaEval.lean evaluates against
    try:
        gc = _imp("ariadne_codegen.graphql_schema_generators.constants")
        t["schemaStandardTypes"] = [str(x) for x in gc.STANDARD_TYPES]
        t["schemaStandardScalars"] = [(str(k), str(v)) for k, v in gc.STANDARD_SCALARS.items()]
    except Exception as e:
        t["schemaStandardTypes"] = []
        t["schemaStandardScalars"] = []
        t.setdefault("_problems", []).append(f"schemaStandardTypes: {e!r}")
    try:
        import graphql as _g

        t["gqlReservedTypes"] = [str(k) for k in _g.GraphQLNamedType.reserved_types]
        t["gqlStdScalarExports"] = [
            (n, getattr(_g, n).name)
            for n in sorted(dir(_g))
            if n.startswith("GraphQL") and isinstance(getattr(_g, n), _g.GraphQLScalarType)
        ]
        t["gqlDirectiveLocations"] = [m.name for m in _g.DirectiveLocation]
        t["gqlVersion"] = str(_g.version)
    except Exception as e:
        t["gqlReservedTypes"] = []
        t["gqlStdScalarExports"] = []
        t["gqlDirectiveLocations"] = []
        t["gqlVersion"] = ""
        t.setdefault("_problems", []).append(f"gql tables: {e!r}")
    # plugin hooks
    try:
        pb = _imp("ariadne_codegen.plugins.base")
        hooks = sorted(n for n, v in vars(pb.Plugin).items() if callable(v) and not n.startswith("_"))
        t["pluginHooks"] = hooks
        contrib = _imp("ariadne_codegen.contrib")
        over = []
        for name in ("ShorterResultsPlugin", "ExtractOperationsPlugin", "ClientForwardRefsPlugin", "NoReimportsPlugin"):
            cls = getattr(contrib, name, None)
            if cls is None:
                for modname in ("shorter_results", "extract_operations", "client_forward_refs", "no_reimports"):
                    mm = _imp(f"ariadne_codegen.contrib.{modname}")
                    cls = getattr(mm, name, None) or cls
            if cls is not None:
                over.append((name, ",".join(_overridden_hooks(cls, pb.Plugin))))
        t["pluginOverrides"] = over
    except Exception as e:
        t["pluginHooks"] = []
        t["pluginOverrides"] = []
        t.setdefault("_problems", []).append(f"plugins: {e!r}")
    _c19_tables(t)
    # C17: names of the bundled dependency files PackageGenerator copies / checks for uniqueness
    try:
        t["packageFileNames"] = [
            ("base_model", Path(c.BASE_MODEL_FILE_PATH).name),
            ("base_operation", Path(c.BASE_OPERATION_FILE_PATH).name),
            ("exceptions", Path(c.EXCEPTIONS_FILE_PATH).name),
        ]
    except Exception as e:  # noqa: BLE001
        t["packageFileNames"] = []
        t.setdefault("_problems", []).append(f"packageFileNames: {e!r}")
    return t


def render(t: Dict[str, Any]) -> str:
    L: List[str] = []
    L.append("/-")
    L.append("  GENERATED by harness/tables.py from /repo's working tree on every check run. DO NOT EDIT.")
    L.append("  Data tables of ariadne-codegen (and of the CPython / pydantic it runs on) that the models and")
    L.append("  theorems depend on.  A theorem about a table is re-checked against what the source says now.")
    L.append("-/")
    L.append("namespace Ariadne.Tables")
    L.append("")

    def strlist(name: str, doc: str) -> None:
        L.append(f"/-- {doc} -/")
        L.append(f"def {name} : List String := {llist([str(x) for x in t[name]])}")
        L.append("")

    def pairs(name: str, doc: str) -> None:
        L.append(f"/-- {doc} -/")
        L.append(f"def {name} : List (String × String) := {lpairs(t[name])}")
        L.append("")

    def string(name: str, doc: str) -> None:
        L.append(f"/-- {doc} -/")
        L.append(f"def {name} : String := {lstr(t[name])}")
        L.append("")

    strlist("kwlist", "`keyword.kwlist` of the interpreter running the generator")
    strlist("softkwlist", "`keyword.softkwlist`")
    strlist("pydanticReserved", "`utils.PYDANTIC_RESERVED_FIELD_NAMES` (public attributes of pydantic.BaseModel)")
    string("underscoreFallbackName", "literal returned by `utils.process_name` for all-underscore names (C18)")
    pairs("simpleTypeMap", "`constants.SIMPLE_TYPE_MAP`")
    pairs("inputScalarsMap", "`constants.INPUT_SCALARS_MAP`")
    string("typenameFieldName", "`constants.TYPENAME_FIELD_NAME`")
    string("typenameAlias", "`constants.TYPENAME_ALIAS`")
    string("mixinName", "`constants.MIXIN_NAME`")
    string("mixinFromName", "`constants.MIXIN_FROM_NAME`")
    string("mixinImportName", "`constants.MIXIN_IMPORT_NAME`")
    string("skipDirectiveName", "`constants.SKIP_DIRECTIVE_NAME`")
    string("includeDirectiveName", "`constants.INCLUDE_DIRECTIVE_NAME`")
    string("kwargsName", "`constants.KWARGS_NAMES`")
    string("unsetName", "`constants.UNSET_NAME`")
    string("uploadClassName", "`constants.UPLOAD_CLASS_NAME`")
    strlist("exceptionsNames", "`constants.GRAPHQL_CLIENT_EXCEPTIONS_NAMES`")
    strlist("operationTypes", "`constants.OPERATION_TYPES`")
    L.append("/-- (kind, class name, file name) of the four bundled base clients -/")
    L.append(
        "def defaultBaseClients : List (String × String × String) := \n  ["
        + ",\n   ".join(f"({lstr(a)}, {lstr(b)}, {lstr(c)})" for a, b, c in t["defaultBaseClients"])
        + "]"
    )
    L.append("")
    pairs("wsTypesAsync", "`GraphQLTransportWSMessageType` (member name, wire value) in async_base_client.py")
    pairs("wsTypesAsyncOT", "`GraphQLTransportWSMessageType` in async_base_client_open_telemetry.py")
    string("wsSubprotocolAsync", "`GRAPHQL_TRANSPORT_WS` in async_base_client.py")
    string("wsSubprotocolAsyncOT", "`GRAPHQL_TRANSPORT_WS` in async_base_client_open_telemetry.py")
    strlist("wsConnectAccepted", "keyword arguments accepted by the installed `websockets.connect` (own parameters + `loop.create_connection`'s)")
    string("websocketsVersion", "`websockets.__version__` of the interpreter running the checks")
    strlist("commentsStrategies", "`settings.CommentsStrategy` values")
    strlist("strategies", "`settings.Strategy` values")
    pairs("clientSettingsFields", "`ClientSettings` dataclass fields with `repr` of their defaults")
    pairs("schemaSettingsFields", "`GraphQLSchemaSettings` dataclass fields with `repr` of their defaults")
    pairs("schemaGenConstants", "string constants of graphql_schema_generators/constants.py")
    strlist("schemaStandardTypes", "`graphql_schema_generators.constants.STANDARD_TYPES` (C16)")
    pairs("schemaStandardScalars", "`graphql_schema_generators.constants.STANDARD_SCALARS` (GraphQL name, name imported from graphql) (C16)")
    strlist("gqlReservedTypes", "installed graphql-core: `GraphQLNamedType.reserved_types` keys (constructing a type so named raises TypeError)")
    pairs("gqlStdScalarExports", "installed graphql-core: exported specified scalar objects (export name, `.name`)")
    strlist("gqlDirectiveLocations", "installed graphql-core: `DirectiveLocation` member names")
    string("gqlVersion", "installed graphql-core version")
    strlist("pluginHooks", "public hook names of `plugins.base.Plugin`")
    pairs("pluginOverrides", "hooks each bundled plugin overrides (comma separated)")
    strlist("graphqlExtensions", "`extensions` of `schema.walk_graphql_files` (C19)")
    pairs("introspectionQueryFlags", "keyword arguments of the `get_introspection_query(...)` call in `schema.introspect_remote_schema` (C19)")
    pairs("introspectionQueryDefaults", "parameters of the installed graphql-core `get_introspection_query` with `repr` of their defaults (C19)")
    pairs("packageFileNames", "file names of the bundled dependency modules copied into every package (C17)")
    L.append("/-- (file, enclosing function, attribute): every read of a source-sensitive schema attribute in the client strategy (C19) -/")
    L.append(
        "def sourceSensitiveUses : List (String × String × String) := "
        + ("[]" if not t["sourceSensitiveUses"] else "\n  [" + ",\n   ".join(f"({lstr(a)}, {lstr(b)}, {lstr(c)})" for a, b, c in t["sourceSensitiveUses"]) + "]")
    )
    L.append("")
    L.append("end Ariadne.Tables")
    return "\n".join(L) + "\n"


def regenerate() -> str:
    t = collect()
    text = render(t)
    target = common.LEAN / "AriadneModel" / "Generated" / "Tables.lean"
    target.parent.mkdir(parents=True, exist_ok=True)
    old = target.read_text() if target.exists() else None
    if old != text:
        tmp = target.with_suffix(f".tmp{os.getpid()}")
        tmp.write_text(text)
        os.replace(tmp, target)
        status = "changed" if old is not None else "created"
    else:
        status = "unchanged"
    probs = t.get("_problems")
    try:  # C15: data of plugins/manager.py, plugins/base.py (a generated file of its own: Generated/PluginTables.lean)
        from . import tables_plugins

        status += tables_plugins.regenerate()
    except Exception as e:  # noqa: BLE001 - a missing table shows up as a failing build of Properties/C15.lean
        status += f"; plugin tables: {e!r}"
    try:  # C16: `str.isprintable` of the running interpreter (a generated file of its own: Generated/PyUnicode.lean)
        from . import tables_c16

        status += tables_c16.regenerate()
    except Exception as e:  # noqa: BLE001 - a missing table shows up as a failing build of Properties/C16.lean
        status += f"; C16 unicode table: {e!r}"
    try:  # C11: `class Upload` of base_model.py (a generated file of its own: Generated/UploadTables.lean)
        from . import tables_upload

        status += tables_upload.regenerate()
    except Exception as e:  # noqa: BLE001 - a missing table shows up as a failing build of Properties/C11.lean
        status += f"; upload tables: {e!r}"
    try:  # C19: separator of the joined schema text (a generated file of its own: Generated/SchemaTextTables.lean)
        from . import tables_c19

        status += tables_c19.regenerate()
    except Exception as e:  # noqa: BLE001 - a missing table shows up as a failing build of Properties/C19.lean
        status += f"; C19 text tables: {e!r}"
    return status + (f"; problems: {probs}" if probs else "")


if __name__ == "__main__":
    print(regenerate())
