"""Shared end-to-end engine (DESIGN.md §1.3c): run the REAL generator on a (schema, operations,
configuration) case, import the emitted package in a fresh process, and drive the generated client
through an in-process transport.

Everything that touches ariadne_codegen's generators runs in a *forked child* of the check
process: several module-level AST constants of ariadne-codegen (UNSET_IMPORT, UPLOAD_IMPORT,
BASE_MODEL_IMPORT) are mutated in place by plugins, and imported generated packages would
otherwise accumulate in sys.modules.  The parent never generates and never imports a generated
package, so every case starts from the same pristine interpreter state.
"""
from __future__ import annotations

import contextlib
import importlib
import io
import json
import multiprocessing as mp
import os
import pickle
import shutil
import signal
import sys
import tempfile
import traceback
from pathlib import Path
from typing import Any, Callable, Dict, Iterable, List, Optional, Tuple

from . import common

import warnings



def _quiet_fork_warning() -> None:
    # ariadne_codegen.config calls simplefilter("default", DeprecationWarning) at import time, which
    # re-enables the (harmless here) "multi-threaded, use of fork()" warning: re-install the filter before forking
    warnings.filterwarnings("ignore", message=".*multi-threaded, use of fork.*", category=DeprecationWarning)


_quiet_fork_warning()

_CTX = mp.get_context("fork")
SCRATCH_PREFIX = "ariadne-verif-"


def scratch_root() -> Path:
    root = Path(os.environ.get("VERIF_SCRATCH", tempfile.gettempdir()))
    root.mkdir(parents=True, exist_ok=True)
    return root


# --------------------------------------------------------------------------------------------
# forked execution
# --------------------------------------------------------------------------------------------


def _child(conn: Any, fn: Callable[..., Any], args: tuple) -> None:
    try:
        # children must not inherit a half-written stdout buffer of the parent
        sys.stdout = io.StringIO()
        sys.stderr = io.StringIO()
        out = ("ok", fn(*args))
    except BaseException as e:  # noqa: BLE001 - reported to the parent
        out = ("exc", (type(e).__name__, str(e)[:2000], traceback.format_exc()[-4000:]))
    try:
        conn.send(out)
    except Exception as e:  # unpicklable result
        conn.send(("exc", ("HarnessPickleError", repr(e), "")))
    finally:
        conn.close()
        os._exit(0)


def forked(fn: Callable[..., Any], *args: Any, timeout: float = 120.0) -> Tuple[str, Any]:
    """Run fn(*args) in a forked child; returns ("ok", value) | ("exc", (cls, msg, tb)) | ("timeout", None)."""
    _quiet_fork_warning()
    parent, child = _CTX.Pipe(duplex=False)
    p = _CTX.Process(target=_child, args=(child, fn, args))
    p.start()
    child.close()
    try:
        if parent.poll(timeout):
            try:
                res = parent.recv()
            except EOFError:
                res = ("exc", ("ChildDied", f"exit code {p.exitcode}", ""))
            except Exception as e:  # noqa: BLE001 - e.g. the child's result cannot be unpickled here
                res = ("exc", ("HarnessUnpickleError", repr(e)[:500], ""))
        else:
            res = ("timeout", None)
    finally:
        if p.is_alive():
            p.kill()
        p.join()
        parent.close()
    return res


def _worker(task_q: Any, res_q: Any, fn: Callable[..., Any], timeout: float) -> None:
    while True:
        item = task_q.get()
        if item is None:
            return
        idx, args = item
        res_q.put((idx, forked(fn, *args, timeout=timeout)))


def pmap_forked(fn: Callable[..., Any], arg_list: List[tuple], procs: Optional[int] = None, timeout: float = 120.0) -> List[Tuple[str, Any]]:
    """Each fn(*args) runs in its own forked grandchild (pristine state), `procs` at a time."""
    n = len(arg_list)
    if n == 0:
        return []
    _quiet_fork_warning()
    procs = min(procs or int(os.environ.get("VERIF_PROCS", "14")), n)
    task_q: Any = _CTX.Queue()
    res_q: Any = _CTX.Queue()
    workers = [_CTX.Process(target=_worker, args=(task_q, res_q, fn, timeout)) for _ in range(procs)]
    for w in workers:
        w.start()
    for i, a in enumerate(arg_list):
        task_q.put((i, a))
    for _ in workers:
        task_q.put(None)
    out: List[Any] = [None] * n
    got = 0
    while got < n:
        try:
            idx, r = res_q.get(timeout=5.0)
        except Exception:  # noqa: BLE001 - queue.Empty: look whether anybody is still working
            if any(w.is_alive() for w in workers):
                continue
            try:  # all workers gone: drain what is left, then give up on the rest (never hang)
                idx, r = res_q.get(timeout=1.0)
            except Exception:  # noqa: BLE001
                break
        out[idx] = r
        got += 1
    for i in range(n):
        if out[i] is None:
            out[i] = ("exc", ("WorkerDied", "no result was delivered for this case", ""))
    for w in workers:
        w.join(timeout=5.0)
    return out


# --------------------------------------------------------------------------------------------
# generation (call only inside a forked child)
# --------------------------------------------------------------------------------------------

DOCUMENTED_REFUSALS = ("NotSupported", "ParsingError", "InvalidOperationForSchema", "InvalidGraphqlSyntax",
                       "InvalidConfiguration", "MissingConfiguration", "PluginImportError", "IntrospectionError",
                       "ConfigFileNotFound")


class Generated:
    """A generated package on disk (inside a scratch directory that the caller removes)."""

    def __init__(self, root: Path, package: str, files: List[str], stdout: str) -> None:
        self.root = root
        self.package = package
        self.files = files
        self.stdout = stdout

    @property
    def dir(self) -> Path:
        return self.root / self.package

    def read(self, name: str) -> str:
        return (self.dir / name).read_text()


def write_inputs(root: Path, schema: Any, queries: Any) -> Tuple[str, str]:
    """schema/queries: a string (one file) or a dict {relative path: text} (directory tree)."""
    def put(base: str, src: Any, default_name: str) -> str:
        if src is None:
            return ""
        if isinstance(src, str):
            p = root / default_name
            p.write_text(src)
            return str(p)
        d = root / base
        for rel, text in src.items():
            f = d / rel
            f.parent.mkdir(parents=True, exist_ok=True)
            f.write_text(text)
        return str(d)

    return put("schema_dir", schema, "schema.graphql"), put("queries_dir", queries, "queries.graphql")


def generate_client(root: Path, schema: Any, queries: Any, config: Optional[Dict[str, Any]] = None) -> Generated:
    """Run ariadne_codegen.main.client on files written under `root`. Raises what the generator raises."""
    from ariadne_codegen import main as ac_main

    schema_path, queries_path = write_inputs(root, schema, queries)
    cfg: Dict[str, Any] = {"schema_path": schema_path, "target_package_path": str(root), "target_package_name": "gen_pkg",
                           "include_comments": "none"}
    if queries_path:
        cfg["queries_path"] = queries_path
    cfg.update(config or {})
    buf = io.StringIO()
    cwd = os.getcwd()
    os.chdir(root)
    try:
        with contextlib.redirect_stdout(buf):
            ac_main.client({"tool": {"ariadne-codegen": cfg}})
    finally:
        os.chdir(cwd)
    out = buf.getvalue()
    files: List[str] = []
    if "Generated files:" in out:
        files = [l.strip() for l in out.split("Generated files:")[1].splitlines() if l.strip()]
    return Generated(root, cfg["target_package_name"], files, out)


def import_package(gen: Generated) -> Any:
    """Import the generated package (inside the forked child) and every module of it."""
    sys.path.insert(0, str(gen.root))
    importlib.invalidate_caches()
    pkg = importlib.import_module(gen.package)
    for f in sorted(gen.dir.glob("*.py")):
        if f.stem != "__init__":
            importlib.import_module(f"{gen.package}.{f.stem}")
    return pkg


def classify_exception(cls_name: str) -> str:
    return "refusal:" + cls_name if cls_name in DOCUMENTED_REFUSALS else "internal:" + cls_name


def with_scratch(fn: Callable[..., Any]) -> Callable[..., Any]:
    """Decorator for child-side case functions: gives them a scratch dir and always removes it."""

    def wrapper(*args: Any) -> Any:
        root = Path(tempfile.mkdtemp(prefix=SCRATCH_PREFIX, dir=scratch_root()))
        try:
            return fn(root, *args)
        finally:
            shutil.rmtree(root, ignore_errors=True)

    wrapper.__name__ = getattr(fn, "__name__", "case")
    return wrapper


def cleanup_scratch(max_age_s: float = 3600.0) -> None:
    """remove *stale* scratch directories only (other checks may be running concurrently)"""
    import time

    now = time.time()
    for p in scratch_root().glob(SCRATCH_PREFIX + "*"):
        try:
            if now - p.stat().st_mtime > max_age_s:
                shutil.rmtree(p, ignore_errors=True)
        except OSError:
            pass


# --------------------------------------------------------------------------------------------
# driving a generated client
# --------------------------------------------------------------------------------------------


def make_generated_client(pkg: Any, handler: Callable[[Any], Any], client_name: str = "Client", is_async: bool = True,
                          **kwargs: Any) -> Any:
    import httpx

    transport = httpx.MockTransport(handler)
    http = httpx.AsyncClient(transport=transport) if is_async else httpx.Client(transport=transport)
    cls = getattr(pkg, client_name)
    return cls(url="http://verif.test/graphql", http_client=http, **kwargs)


def call_method(client: Any, name: str, is_async: bool, *args: Any, **kwargs: Any) -> Any:
    import asyncio

    m = getattr(client, name)
    if is_async:
        return asyncio.run(m(*args, **kwargs))
    return m(*args, **kwargs)


def graphql_handler(schema_sdl: str, resolver_factory: Callable[[Any], Any], log: List[Dict[str, Any]]) -> Callable[[Any], Any]:
    """An httpx MockTransport handler that executes the received request with graphql-core on the
    user's schema; `resolver_factory(info)` decides every field value (PRNG-driven in the callers)."""
    import httpx
    from graphql import build_schema, graphql_sync

    schema = build_schema(schema_sdl)

    def handler(request: Any) -> Any:
        body = json.loads(request.content)
        log.append({"query": body.get("query"), "operationName": body.get("operationName"), "variables": body.get("variables"),
                    "headers": dict(request.headers)})
        result = graphql_sync(schema, body["query"], variable_values=body.get("variables"), operation_name=body.get("operationName"),
                              field_resolver=resolver_factory, type_resolver=getattr(resolver_factory, "type_resolver", None))
        payload: Dict[str, Any] = {"data": result.data}
        if result.errors:
            payload["errors"] = [e.formatted for e in result.errors]
        return httpx.Response(200, json=payload)

    return handler
