"""C16 — seeded, type-directed generator of *feature-rich* GraphQL schemas as SDL text.

Every named type kind, interfaces implementing interfaces, custom root type names, defaults of every
literal kind (nested objects, enums, null, large / small / negative-zero floats, ints beyond 2^63 on
custom scalars, strings with quotes / backslashes / unicode / line separators), single- and
multi-line descriptions, repeatable directives with arguments, `@specifiedBy`, deprecated fields /
arguments / enum values / input fields (with, without and with empty reason), a schema description,
unreachable types.  `one_of` > 0 adds `@oneOf` input objects (finding C16-F1 region).

graphql-core's `build_schema` + `validate_schema` are the judges of validity (the caller drops
invalid schemas and counts them).
"""
from __future__ import annotations

import random
from typing import Any, Dict, List, Optional, Tuple

from graphql.language.block_string import print_block_string
from graphql.language.print_string import print_string

TYPE_NAMES = ["User", "Post", "Comment", "Entity", "Timestamped", "SearchResult", "Media", "Role", "Status", "Filter",
              "PageInput", "Date", "JSON", "BigInt", "URL", "Item", "Order", "Tag", "Review", "Color", "Direction",
              "NewUserInput", "Money", "Animal", "Shape", "Account", "Event", "Thing", "Other", "Kind"]
# GraphQL names that look like Python / module names: they only ever occur inside string constants
STRESS_TYPE_NAMES = ["type_map", "schema", "cast", "List", "GraphQLField", "Undefined", "None", "True", "lambda",
                     "_Under", "A1", "X", "TypeMap", "GraphQLSchema", "class", "print"]
ROOT_NAMES = {"query": ["Query", "Query", "RootQuery", "QueryRoot", "Q"], "mutation": ["Mutation", "Mutation", "RootMutation", "M"],
              "subscription": ["Subscription", "Subscription", "Sub"]}
FIELD_NAMES = ["id", "name", "title", "count", "ratio", "active", "createdAt", "bestFriend", "items", "owner", "node",
               "kind", "tags", "score", "parent", "children", "value", "label", "status", "meta", "URLPath", "x1", "fooBar",
               "class", "lambda", "type_map", "_private", "a_b"]
ARG_NAMES = ["first", "after", "filter", "id", "ids", "where", "orderBy", "flag", "input", "limit", "self", "cast", "q"]
ENUM_VALUES = ["RED", "GREEN", "BLUE", "ASC", "DESC", "ADMIN", "USER", "GUEST", "ACTIVE", "INACTIVE", "A", "B", "C", "lower",
               "Mixed_Case", "None", "TRUE", "NULL", "_X"]
DIRECTIVE_NAMES = ["tag", "auth", "cost", "key", "live", "cacheControl", "cast", "x_y"]
EXEC_LOCATIONS = ["QUERY", "MUTATION", "SUBSCRIPTION", "FIELD", "FRAGMENT_DEFINITION", "FRAGMENT_SPREAD", "INLINE_FRAGMENT",
                  "VARIABLE_DEFINITION"]
TS_LOCATIONS = ["SCHEMA", "SCALAR", "OBJECT", "FIELD_DEFINITION", "ARGUMENT_DEFINITION", "INTERFACE", "UNION", "ENUM", "ENUM_VALUE",
                "INPUT_OBJECT", "INPUT_FIELD_DEFINITION"]

STRINGS = [
    "plain", "with \"double\" quotes", "single 'quotes'", "back\\slash", "multi\nline", "  leading and trailing  ",
    "unicode é ß 😀 \u2028 end", "tab\there", "triple \"\"\" quote", "ends with backslash\\", "ends with quote\"",
    "\\n literal backslash-n", "{braces} and %s $var #hash", "line1\r\nline2", "'''", "\x7f del", "mixed 'single' and \"double\"",
    "x" * 130, "\u2029 para \x85 nel \x0b vt \x0c ff", "\x00nul\x1b", "# comment-like\nimport os\nfrom x import y\nclass A:\n\n    pass",
    "Undefined", "None", "caf\u00e9 \u0301 combining", "\\u0041 \\x41 \\N{DASH}", "f\"{x}\" b'bytes' r'raw'", " ", "\n", "\ttab first",
]
BLOCK_OK = ["Line one.\nLine two.", "Para one.\n\nPara two with \"quotes\" inside.", "  Indented first? no\n  - bullet\n    - nested",
            "Ends with a long sentence that goes on and on so that the printer has to think about wrapping; it does not."]


class Gen:
    def __init__(self, rng: random.Random, one_of: float = 0.0, size: int = 2, stress_names: float = 0.1,
                 default_stress: bool = False) -> None:
        self.rng = rng
        # default_stress: many input-object / list defaults whose members are null, falsy (0, false, "", [], {}) or nested —
        # whatever builds the default's text must carry every one of them at every depth
        self.dstress = default_stress
        self.one_of = one_of
        self.size = size
        self.stress = stress_names
        self.used: set = set()
        self.scalars: List[str] = []
        self.enums: Dict[str, List[str]] = {}
        self.inputs: Dict[str, List[Tuple[str, str, bool]]] = {}  # name -> [(field, type text, required)]
        self.input_order: List[str] = []
        self.interfaces: Dict[str, Dict[str, Any]] = {}
        self.objects: List[str] = []
        self.unions: List[str] = []
        self.features: Dict[str, int] = {}

    # -- helpers
    def feat(self, k: str) -> None:
        self.features[k] = self.features.get(k, 0) + 1

    def p(self, x: float) -> bool:
        return self.rng.random() < x

    def fresh(self, pool: List[str]) -> str:
        rng = self.rng
        for _ in range(50):
            n = rng.choice(STRESS_TYPE_NAMES) if self.p(self.stress) else rng.choice(pool)
            if n not in self.used:
                self.used.add(n)
                return n
        n = "T%d" % len(self.used)
        self.used.add(n)
        return n

    def text(self) -> str:
        return self.rng.choice(STRINGS)

    def desc(self, indent: str = "", p: float = 0.35) -> str:
        """a description prefix (possibly empty) ending in a newline + indent"""
        if not self.p(p):
            return ""
        self.feat("description")
        if self.p(0.25):
            self.feat("description:block")
            body = print_block_string(self.rng.choice(BLOCK_OK))
            return ("\n" + indent).join(body.split("\n")) + "\n" + indent
        s = self.text()
        if "\n" in s:
            self.feat("description:multi-line")
        if self.p(0.03):
            s = ""
            self.feat("description:empty")
        return print_string(s) + "\n" + indent

    def inline_desc(self, p: float = 0.2) -> str:
        if not self.p(p):
            return ""
        self.feat("description:arg")
        return print_string(self.text()) + " "

    def deprecated(self, p: float = 0.2) -> str:
        if not self.p(p):
            return ""
        r = self.rng.random()
        if r < 0.3:
            self.feat("deprecated:no-reason")
            return " @deprecated"
        if r < 0.4:
            self.feat("deprecated:empty-reason")
            return ' @deprecated(reason: "")'
        self.feat("deprecated:reason")
        return " @deprecated(reason: %s)" % print_string(self.text())

    def wrap(self, base: str, allow_nonnull: bool = True) -> str:
        r = self.rng.random()
        nn = "!" if allow_nonnull else ""
        if r < 0.45:
            return base
        if r < 0.6:
            return base + nn
        if r < 0.7:
            return "[%s]" % base
        if r < 0.8:
            return "[%s!]" % base
        if r < 0.9:
            return "[%s!]%s" % (base, nn)
        # lists directly wrapping lists, every depth / nullability (a modifier-peeling generator must keep each layer)
        self.feat("type:nested-list")
        if r < 0.95:
            return self.rng.choice(["[[%s]]", "[[%s]]", "[[%s!]]", "[[[%s]]]", "[[[%s]]]" + nn, "[[%s]]" + nn]) % base
        return self.rng.choice(["[[%s!]!]" + nn, "[[%s]!]" + nn, "[[[%s!]]!]" + nn]) % base

    # -- literals (type-directed)
    def literal(self, type_text: str, depth: int = 0, avail_inputs: Optional[List[str]] = None) -> Optional[str]:
        """a const literal of the given type (SDL text), or None when none can be made"""
        rng = self.rng
        t = type_text
        if t.endswith("!"):
            return self.literal(t[:-1], depth, avail_inputs) if True else None
        if self.p(0.3 if (self.dstress and depth >= 1) else 0.08):
            self.feat("default:null")
            return "null"
        if t.startswith("["):
            inner = t[1:-1]
            if self.p(0.15):
                self.feat("default:list-coerced-single")
                return self.literal_nonnull(inner, depth + 1, avail_inputs)
            n = rng.choice([0, 1, 2, 3])
            items = [self.literal(inner, depth + 1, avail_inputs) if not inner.endswith("!") else self.literal_nonnull(inner, depth + 1, avail_inputs)
                     for _ in range(n)]
            if any(i is None for i in items):
                return None
            self.feat("default:list")
            if "null" in items:
                self.feat("default:list-null-item")
            return "[" + ", ".join(items) + "]"  # type: ignore
        return self.literal_nonnull(t, depth, avail_inputs)

    def literal_nonnull(self, t: str, depth: int, avail_inputs: Optional[List[str]]) -> Optional[str]:
        rng = self.rng
        if t.endswith("!"):
            t = t[:-1]
        if t.startswith("["):
            n = rng.choice([0, 1, 2])
            inner = t[1:-1]
            items = [self.literal_nonnull(inner, depth + 1, avail_inputs) for _ in range(n)]
            if any(i is None for i in items):
                return None
            self.feat("default:list")
            return "[" + ", ".join(items) + "]"  # type: ignore
        if self.dstress and t in ("Int", "String", "Boolean", "Float") and self.p(0.4):
            self.feat("default:falsy" if depth else "default:falsy-top-level")
            return {"Int": "0", "String": '""', "Boolean": "false", "Float": "0.0"}[t]
        if t == "Int":
            self.feat("default:int")
            return str(rng.choice([0, 1, -1, 42, 2147483647, -2147483648, 7]))
        if t == "Float":
            self.feat("default:float")
            return rng.choice(["1.5", "-0.0", "0.0", "1e300", "1e-320", "5", "1.7976931348623157e308", "123456789.12345679", "-2.5E-7",
                               "1e16", "1e22", "0.1", "3.0e0", "4.9e-324"])
        if t == "String":
            self.feat("default:string")
            return print_string(self.text())
        if t == "Boolean":
            self.feat("default:bool")
            return rng.choice(["true", "false"])
        if t == "ID":
            self.feat("default:id")
            return rng.choice(['"abc"', "123", '"with \\"q\\""', "0"])
        if t in self.enums:
            self.feat("default:enum")
            return rng.choice(self.enums[t])
        if t in self.scalars:
            r = rng.random()
            if r < 0.25:
                self.feat("default:custom-bigint")
                return str(rng.choice([2**63, -(2**63) - 1, 123456789012345678901234567890, 2**64 + 1, 10**40]))
            if r < 0.45:
                self.feat("default:custom-float")
                return rng.choice(["1e308", "2.2250738585072014e-308", "-1.0e-5", "6.02e23"])
            if r < 0.65:
                self.feat("default:custom-string")
                return print_string(self.text())
            if r < 0.75:
                self.feat("default:custom-bool")
                return rng.choice(["true", "false"])
            if r < 0.85:
                self.feat("default:custom-enum-word")
                return rng.choice(["FOO", "bar", "Undefined", "None"])
            if r < 0.93 and depth < 2:
                self.feat("default:custom-list(unprintable)")
                return "[1, \"x\", null, true, 2.5]"
            if depth < 2:
                self.feat("default:custom-object(unprintable)")
                return "{k: [1, \"x\", null, true, {z: 1.0}], e: ENUMISH, s: %s}" % print_string(self.text())
            return "1"
        if t in self.inputs:
            if depth > 2 or (avail_inputs is not None and t not in avail_inputs):
                return None
            parts = []
            for fname, ftype, required in self.inputs[t]:
                if required or self.p(0.5):
                    if ftype.rstrip("!").strip("[]!") in self.inputs and depth >= 1 and not required:
                        continue
                    lit = self.literal(ftype, depth + 1, avail_inputs) if not required else self.literal_nonnull(ftype, depth + 1, avail_inputs)
                    if lit is None:
                        if required:
                            return None
                        continue
                    if lit == "null":
                        self.feat("default:object-null-key")
                    parts.append("%s: %s" % (fname, lit))
            if self.dstress and len(parts) > 1 and self.p(0.5):
                rng.shuffle(parts)  # keys in an order of their own (neither declaration order nor sorted)
            if not parts:
                self.feat("default:empty-object")
            self.feat("default:object" if depth == 0 else "default:nested-object")
            return "{" + ", ".join(parts) + "}"
        return None

    def input_type_text(self, avail_inputs: Optional[List[str]] = None) -> str:
        rng = self.rng
        pool = ["Int", "Float", "String", "Boolean", "ID"] * 2 + self.scalars * 2 + list(self.enums) * 2
        pool += (avail_inputs if avail_inputs is not None else list(self.inputs)) * (8 if self.dstress else 2)
        return self.wrap(rng.choice(pool))

    def args(self, p: float = 0.45) -> str:
        if not self.p(p):
            return ""
        rng = self.rng
        names = rng.sample(ARG_NAMES, rng.randint(1, 3))
        out = []
        for n in names:
            t = self.input_type_text()
            default = ""
            if self.p(0.9 if self.dstress else 0.55):
                lit = self.literal(t, 0, None)
                if lit is not None and not (lit == "null" and t.endswith("!")):
                    default = " = " + lit
            dep = ""
            if not t.endswith("!") or default:
                dep = self.deprecated(0.15)
                if dep:
                    self.feat("deprecated:argument")
            out.append("%s%s: %s%s%s" % (self.inline_desc(), n, t, default, dep))
        self.feat("args")
        return "(" + ", ".join(out) + ")"

    def output_type_text(self) -> str:
        rng = self.rng
        pool = ["Int", "Float", "String", "Boolean", "ID"] + self.scalars + list(self.enums) * 2 + list(self.interfaces) * 2
        pool += self.objects * 3 + self.unions * 2
        return self.wrap(rng.choice(pool))

    def fields(self, exclude: List[str], lo: int = 1, hi: int = 4) -> List[Tuple[str, str]]:
        """[(name, 'name(args): Type' text without description/deprecation)]"""
        rng = self.rng
        names = [n for n in rng.sample(FIELD_NAMES, min(len(FIELD_NAMES), rng.randint(lo, hi) + len(exclude))) if n not in exclude]
        names = names[: max(lo, min(hi, len(names)))]
        return [(n, "%s%s: %s" % (n, self.args(), self.output_type_text())) for n in names]

    def render_fields(self, fs: List[Tuple[str, str]]) -> str:
        lines = []
        for _, text in fs:
            dep = self.deprecated(0.15)
            if dep:
                self.feat("deprecated:field")
            lines.append("  " + self.desc("  ", 0.25) + text + dep)
        return "\n".join(lines)

    # -- the schema
    def build(self) -> str:
        rng = self.rng
        sz = self.size
        out: List[str] = []
        roots: Dict[str, Optional[str]] = {"query": None, "mutation": None, "subscription": None}
        roots["query"] = rng.choice(ROOT_NAMES["query"])
        if self.p(0.4):
            roots["mutation"] = rng.choice(ROOT_NAMES["mutation"])
        if self.p(0.3):
            roots["subscription"] = rng.choice(ROOT_NAMES["subscription"])
        for r in roots.values():
            if r:
                self.used.add(r)
        custom_roots = any(v and v != k.capitalize() for k, v in roots.items())
        # scalars
        for _ in range(rng.randint(0, 1 + sz)):
            n = self.fresh(TYPE_NAMES)
            self.scalars.append(n)
            spec = ""
            if self.p(0.4):
                self.feat("specifiedBy")
                spec = " @specifiedBy(url: %s)" % print_string(rng.choice(["https://example.com/" + n, "https://tools.ietf.org/html/rfc3339",
                                                                             "urn:weird \"q\" \\ é"]))
            out.append("%sscalar %s%s" % (self.desc(), n, spec))
        # enums
        for _ in range(rng.randint(1, 1 + sz)):
            n = self.fresh(TYPE_NAMES)
            vals = rng.sample(ENUM_VALUES, rng.randint(1, 5))
            self.enums[n] = vals
            lines = []
            for v in vals:
                dep = self.deprecated(0.2)
                if dep:
                    self.feat("deprecated:enum-value")
                lines.append("  " + self.desc("  ", 0.25) + v + dep)
            out.append("%senum %s {\n%s\n}" % (self.desc(), n, "\n".join(lines)))
        # input objects (defaults of input fields only mention earlier input types: graphql-core cannot
        # build a schema whose input type has a default of its own type)
        n_inputs = rng.randint(2 if self.dstress else 0, max(2, 1 + sz))
        names = [self.fresh(TYPE_NAMES) for _ in range(n_inputs)]
        for idx, n in enumerate(names):
            earlier = names[:idx]
            one_of = self.p(self.one_of)
            fnames = rng.sample(FIELD_NAMES, rng.randint(1, 4))
            fl: List[Tuple[str, str, bool]] = []
            lines = []
            self.inputs[n] = fl  # visible for nullable self reference
            for fn in fnames:
                pool = ["Int", "Float", "String", "Boolean", "ID"] * 2 + self.scalars * 2 + list(self.enums) * 2 + earlier * 2
                base = rng.choice(pool + [n])
                t = self.wrap(base, allow_nonnull=(base != n) and not one_of)
                if one_of:
                    t = t.rstrip("!")
                default = ""
                if not one_of and self.p(0.5):
                    lit = self.literal(t, 0, earlier)
                    if lit is not None and not (lit == "null" and t.endswith("!")):
                        default = " = " + lit
                required = t.endswith("!") and not default
                dep = ""
                if not required:
                    dep = self.deprecated(0.15)
                    if dep:
                        self.feat("deprecated:input-field")
                fl.append((fn, t, required))
                lines.append("  %s%s: %s%s%s" % (self.desc("  ", 0.25), fn, t, default, dep))
            if one_of:
                self.feat("oneOf")
            out.append("%sinput %s%s {\n%s\n}" % (self.desc(), n, " @oneOf" if one_of else "", "\n".join(lines)))
        # names of composite types first (fields may reference later types)
        iface_names = [self.fresh(TYPE_NAMES) for _ in range(rng.randint(0, 1 + sz))]
        obj_names = [self.fresh(TYPE_NAMES) for _ in range(rng.randint(1, 2 + sz))]
        union_names = [self.fresh(TYPE_NAMES) for _ in range(rng.randint(0, sz))]
        for n in iface_names:
            self.interfaces[n] = {"fields": [], "implements": []}
        self.objects = obj_names + [r for r in roots.values() if r]
        self.unions = union_names
        # interfaces (may implement earlier interfaces, transitively)
        for idx, n in enumerate(iface_names):
            impl: List[str] = []
            if idx and self.p(0.5):
                parent = rng.choice(iface_names[:idx])
                impl = [parent] + [x for x in self.interfaces[parent]["implements"]]
                self.feat("interface-implements-interface")
            inherited: List[Tuple[str, str]] = []
            for i in impl:
                for f in self.interfaces[i]["fields"]:
                    if f[0] not in [x[0] for x in inherited]:
                        inherited.append(f)
            own = self.fields([f[0] for f in inherited], 1, 3)
            fs = inherited + own
            self.interfaces[n] = {"fields": fs, "implements": impl}
            out.append("%sinterface %s%s {\n%s\n}" % (self.desc(), n, (" implements " + " & ".join(impl)) if impl else "", self.render_fields(fs)))
        # objects
        for n in self.objects:
            impl = []
            if iface_names and self.p(0.5):
                i = rng.choice(iface_names)
                impl = [i] + list(self.interfaces[i]["implements"])
                if self.p(0.3):
                    j = rng.choice(iface_names)
                    for x in [j] + list(self.interfaces[j]["implements"]):
                        if x not in impl:
                            impl.append(x)
                self.feat("object-implements")
            inherited = []
            ok = True
            for i in impl:
                for f in self.interfaces[i]["fields"]:
                    same = [x for x in inherited if x[0] == f[0]]
                    if same and same[0][1] != f[1]:
                        ok = False
                    if not same:
                        inherited.append(f)
            if not ok:  # two interfaces disagree on a field: implement only the first
                i = impl[0]
                impl = [i] + list(self.interfaces[i]["implements"])
                inherited = []
                for i in impl:
                    for f in self.interfaces[i]["fields"]:
                        if f[0] not in [x[0] for x in inherited]:
                            inherited.append(f)
            own = self.fields([f[0] for f in inherited], 0 if inherited else 1, 4)
            fs = inherited + own
            out.append("%stype %s%s {\n%s\n}" % (self.desc(), n, (" implements " + " & ".join(impl)) if impl else "", self.render_fields(fs)))
        # unions
        for n in union_names:
            members = rng.sample(self.objects, rng.randint(1, min(3, len(self.objects))))
            out.append("%sunion %s = %s" % (self.desc(), n, " | ".join(members)))
        # directives
        for dn in rng.sample(DIRECTIVE_NAMES, rng.randint(0, 1 + sz)):
            locs = rng.sample(EXEC_LOCATIONS + TS_LOCATIONS, rng.randint(1, 4))
            rep = ""
            if self.p(0.4):
                rep = " repeatable"
                self.feat("directive:repeatable")
            a = self.args(0.6)
            if a:
                self.feat("directive:args")
            out.append("%sdirective @%s%s%s on %s" % (self.desc(), dn, a, rep, " | ".join(locs)))
            self.feat("directive")
        if self.p(0.15):
            out.append("directive @skip(if: Boolean!) on FIELD | FRAGMENT_SPREAD | INLINE_FRAGMENT")
            self.feat("directive:redeclared-standard")
        # schema definition
        sdesc = self.desc("", 0.3)
        if sdesc:
            self.feat("schema-description")
        if custom_roots or sdesc or self.p(0.2):
            if custom_roots:
                self.feat("custom-root-names")
            ops = "".join("  %s: %s\n" % (k, v) for k, v in roots.items() if v)
            out.append("%sschema {\n%s}" % (sdesc, ops))
        rng.shuffle(out)
        return "\n\n".join(out) + "\n"


def make_sdl(rng: random.Random, one_of: float = 0.0, size: int = 2, default_stress: bool = False) -> Tuple[str, Dict[str, int]]:
    g = Gen(rng, one_of=one_of, size=size, default_stress=default_stress)
    return g.build(), g.features
