"""graphql-core schema / document objects -> the JSON the Lean drivers read (twin of
lean/AriadneModel/Driver/GqlWire.lean).  Part of the trusted base (DESIGN.md §6 item 3): it only
*reads* graphql-core's own objects, never ariadne-codegen's helpers."""
from __future__ import annotations

from typing import Any, Dict, List, Optional

from graphql import (DocumentNode, FieldNode, FragmentDefinitionNode, FragmentSpreadNode, GraphQLEnumType,
                     GraphQLInputObjectType, GraphQLInterfaceType, GraphQLList, GraphQLNonNull, GraphQLObjectType,
                     GraphQLScalarType, GraphQLSchema, GraphQLUnionType, InlineFragmentNode, OperationDefinitionNode,
                     SelectionSetNode, StringValueNode, Undefined)


def type_ref(t: Any) -> List[Any]:
    if isinstance(t, GraphQLNonNull):
        return ["nonnull", type_ref(t.of_type)]
    if isinstance(t, GraphQLList):
        return ["list", type_ref(t.of_type)]
    return ["named", t.name]


def schema_to_json(schema: GraphQLSchema) -> Dict[str, Any]:
    types = []
    for name, t in schema.type_map.items():
        if name.startswith("__"):
            continue
        d: Dict[str, Any] = {"name": name, "fields": [], "interfaces": [], "members": [], "values": [], "inputFields": []}
        if isinstance(t, GraphQLScalarType):
            d["kind"] = "scalar"
        elif isinstance(t, (GraphQLObjectType, GraphQLInterfaceType)):
            d["kind"] = "object" if isinstance(t, GraphQLObjectType) else "interface"
            d["interfaces"] = [i.name for i in t.interfaces]
            for fname, f in t.fields.items():
                d["fields"].append({"name": fname, "type": type_ref(f.type),
                                    "args": [{"name": an, "type": type_ref(a.type), "hasDefault": a.default_value is not Undefined}
                                             for an, a in f.args.items()]})
        elif isinstance(t, GraphQLUnionType):
            d["kind"] = "union"
            d["members"] = [m.name for m in t.types]
        elif isinstance(t, GraphQLEnumType):
            d["kind"] = "enum"
            d["values"] = list(t.values.keys())
        elif isinstance(t, GraphQLInputObjectType):
            d["kind"] = "input"
            for fname, f in t.fields.items():
                d["inputFields"].append({"name": fname, "type": type_ref(f.type), "hasDefault": f.default_value is not Undefined})
        else:
            continue
        types.append(d)
    return {"types": types, "query": schema.query_type.name if schema.query_type else None,
            "mutation": schema.mutation_type.name if schema.mutation_type else None,
            "subscription": schema.subscription_type.name if schema.subscription_type else None}


def directives_to_json(dirs: Any) -> List[Dict[str, Any]]:
    out = []
    for d in dirs or ():
        args = []
        for a in d.arguments or ():
            args.append({"name": a.name.value, "str": a.value.value if isinstance(a.value, StringValueNode) else None})
        out.append({"name": d.name.value, "args": args})
    return out


class Sids:
    """unique ids of the selection sets of a document, in a fixed DFS order over
    operations-then-fragments as they appear in the document"""

    def __init__(self) -> None:
        self.by_node: Dict[int, int] = {}
        self.nodes: List[SelectionSetNode] = []

    def sid(self, ss: Optional[SelectionSetNode]) -> int:
        if ss is None:
            return 0
        k = id(ss)
        if k not in self.by_node:
            self.nodes.append(ss)
            self.by_node[k] = len(self.nodes)  # sids start at 1; 0 = "no selection set"
        return self.by_node[k]


def selection_set_to_json(ss: Optional[SelectionSetNode], sids: Sids) -> List[Dict[str, Any]]:
    out: List[Dict[str, Any]] = []
    if ss is None:
        return out
    for s in ss.selections:
        if isinstance(s, FieldNode):
            out.append({"k": "field", "alias": s.alias.value if s.alias else None, "name": s.name.value,
                        "dirs": directives_to_json(s.directives), "sid": sids.sid(s.selection_set),
                        "sel": selection_set_to_json(s.selection_set, sids)})
        elif isinstance(s, FragmentSpreadNode):
            out.append({"k": "spread", "name": s.name.value, "dirs": directives_to_json(s.directives)})
        elif isinstance(s, InlineFragmentNode):
            out.append({"k": "inline", "on": s.type_condition.name.value if s.type_condition else None,
                        "dirs": directives_to_json(s.directives), "sid": sids.sid(s.selection_set),
                        "sel": selection_set_to_json(s.selection_set, sids)})
    return out


def document_to_json(doc: DocumentNode, sids: Optional[Sids] = None) -> Dict[str, Any]:
    sids = sids or Sids()
    ops, frags = [], []
    for d in doc.definitions:
        if isinstance(d, OperationDefinitionNode):
            ops.append({"kind": d.operation.value, "name": d.name.value if d.name else None,
                        "dirs": directives_to_json(d.directives), "sid": sids.sid(d.selection_set),
                        "sel": selection_set_to_json(d.selection_set, sids),
                        "vars": [{"name": v.variable.name.value} for v in d.variable_definitions or ()]})
    for d in doc.definitions:
        if isinstance(d, FragmentDefinitionNode):
            frags.append({"name": d.name.value, "on": d.type_condition.name.value, "dirs": directives_to_json(d.directives),
                          "sid": sids.sid(d.selection_set), "sel": selection_set_to_json(d.selection_set, sids)})
    return {"operations": ops, "fragments": frags}
