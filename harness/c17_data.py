"""Data tables of the C17 check: schemas (valid / one per graphql-core schema rule), operation documents
(valid / one per specified validation rule / ariadne-codegen's own refusals), configuration violations."""
from __future__ import annotations

from typing import Any, Dict, List, Tuple

BASE_SCHEMA = """
type Query { a: Int, u(id: ID!): User, s: SearchResult, n: Node, e: E }
interface Node { id: ID! }
type User implements Node { id: ID! name: String friends: [User!] }
type Other implements Node { id: ID! x: Int }
union SearchResult = User | Other
input Inp { a: Int }
enum E { A B }
type Mutation { m(i: Inp): Int }
type Subscription { tick: Int tock: Int }
"""

BASE_QUERIES = """
query GetA { a }
query GetU($id: ID!) { u(id: $id) { ...UserF } }
mutation DoM($i: Inp) { m(i: $i) }
fragment UserF on User { id name }
"""

# label -> (SDL, a document that is valid for it)            every entry must be an INVALID schema
# (the harness measures that with graphql-core and drops + counts entries that turn out valid)
INVALID_SCHEMAS: Dict[str, Tuple[str, str]] = {
    # --- SDL rules (assert_valid_sdl) ---
    "sdl:LoneSchemaDefinition": ("schema { query: Query }\nschema { query: Query }\ntype Query { a: Int }", "query Q { a }"),
    "sdl:UniqueOperationTypes": ("schema { query: Query query: Q2 }\ntype Query { a: Int }\ntype Q2 { a: Int }", "query Q { a }"),
    "sdl:UniqueTypeNames": ("type Query { a: Int }\ntype Query { b: Int }", "query Q { b }"),
    "sdl:UniqueEnumValueNames": ("type Query { e: E }\nenum E { A A }", "query Q { e }"),
    "sdl:UniqueFieldDefinitionNames": ("type Query { a: Int a: String }", "query Q { a }"),
    "sdl:UniqueArgumentDefinitionNames": ("type Query { a(x: Int, x: Int): Int }", "query Q { a }"),
    "sdl:UniqueDirectiveNames": ("directive @d on FIELD\ndirective @d on FIELD\ntype Query { a: Int }", "query Q { a }"),
    "sdl:KnownTypeNames": ("type Query { a: Missing }", "query Q { a }"),
    "sdl:KnownDirectives": ("type Query { a: Int @nope }", "query Q { a }"),
    "sdl:UniqueDirectivesPerLocation": ("type Query { a: Int @deprecated @deprecated }", "query Q { a }"),
    "sdl:PossibleTypeExtensions": ("type Query { a: Int }\nextend type Missing { b: Int }", "query Q { a }"),
    "sdl:KnownArgumentNamesOnDirectives": ("type Query { a: Int @deprecated(nope: 1) }", "query Q { a }"),
    "sdl:UniqueArgumentNames": ('type Query { a: Int @deprecated(reason: "a", reason: "b") }', "query Q { a }"),
    "sdl:UniqueInputFieldNames": ("input I { a: Int }\ntype Query { f(i: I = {a: 1, a: 2}): Int }", "query Q { f }"),
    "sdl:ProvidedRequiredArgumentsOnDirectives": ("directive @d(x: Int!) on FIELD_DEFINITION\ntype Query { a: Int @d }", "query Q { a }"),
    # --- type-system rules (validate_schema) ---
    "schema:QueryRootMissing": ("type A { a: Int }", "fragment F on A { a }"),
    "schema:RootNotObject": ("schema { query: I }\ninput I { x: Int }", "query Q { __typename }"),
    "schema:ReservedName": ("type Query { __a: Int }", "query Q { __a }"),
    "schema:ObjectWithoutFields": ("type Query { a: A }\ntype A", "query Q { a { __typename } }"),
    "schema:InterfaceFieldMissing": ("type Query { n: Node }\ninterface Node { id: ID! }\ntype User implements Node { name: String }", "query Q { n { id } }"),
    "schema:InterfaceFieldType": ("type Query { n: N }\ninterface N { id: ID! }\ntype A implements N { id: Int }", "query Q { n { id } }"),
    "schema:InterfaceArgMissing": ("type Query { n: N }\ninterface N { f(x: Int): Int }\ntype A implements N { f: Int }", "query Q { n { f } }"),
    "schema:TransitiveInterface": ("type Query { n: A }\ninterface B { b: Int }\ninterface A implements B { b: Int }\ntype T implements A { b: Int }", "query Q { n { b } }"),
    "schema:DuplicateUnionMember": ("type Query { s: S }\ntype A { a: Int }\nunion S = A | A", "query Q { s { __typename } }"),
    "schema:EmptyUnion": ("type Query { a: U }\nunion U", "query Q { a { __typename } }"),
    "schema:EmptyEnum": ("type Query { a: E }\nenum E", "query Q { a }"),
    "schema:EnumValueName": ("type Query { a: E }\nenum E { true }", "query Q { a }"),
    "schema:InputWithoutFields": ("type Query { a(i: I): Int }\ninput I", "query Q { a }"),
    "schema:InputCycle": ("type Query { a(i: I): Int }\ninput I { x: I! }", "query Q { a }"),
    "schema:ReservedDirectiveName": ("directive @__d on FIELD\ntype Query { a: Int }", "query Q { a }"),
    "schema:RequiredArgDeprecated": ("type Query { a(x: Int! @deprecated): Int }", "query Q { a(x: 1) }"),
    "schema:OutputAsInput": ("type Query { a(x: Query): Int }", "query Q { a }"),
    "schema:InputAsOutput": ("type Query { a: I }\ninput I { x: Int }", "query Q { a }"),
    "schema:UnionOfNonObject": ("type Query { a: U }\nunion U = Int", "query Q { a { __typename } }"),
    "schema:ImplementsNonInterface": ("type Query { n: A }\ntype B { id: Int }\ntype A implements B { id: Int }", "query Q { n { id } }"),
}

# label -> document invalid for BASE_SCHEMA (one per specified validation rule of graphql-core)
INVALID_OPERATIONS: Dict[str, str] = {
    "ExecutableDefinitionsRule": "query Q { a }\ntype X { a: Int }",
    "UniqueOperationNamesRule": "query Q { a }\nquery Q { a }",
    "LoneAnonymousOperationRule": "{ a }\nquery Q { a }",
    "SingleFieldSubscriptionsRule": "subscription S { tick tock }",
    "KnownTypeNamesRule": "query Q { a }\nfragment F on Nope { a }",
    "FragmentsOnCompositeTypesRule": "query Q { a }\nfragment F on E { a }",
    "VariablesAreInputTypesRule": "query Q($x: User) { a }",
    "ScalarLeafsRule": 'query Q { u(id: "1") }',
    "ScalarLeafsRule:sub": "query Q { a { x } }",
    "FieldsOnCorrectTypeRule": "query Q { zzz }",
    "UniqueFragmentNamesRule": 'query Q { u(id: "1") { ...F } }\nfragment F on User { id }\nfragment F on User { name }',
    "KnownFragmentNamesRule": 'query Q { u(id: "1") { ...Nope } }',
    "PossibleFragmentSpreadsRule": 'query Q { u(id: "1") { ...OF } }\nfragment OF on Other { x }',
    "NoFragmentCyclesRule": 'query Q { u(id: "1") { ...A } }\nfragment A on User { ...B }\nfragment B on User { ...A }',
    "UniqueVariableNamesRule": "query Q($x: Int, $x: Int) { m: a }",
    "NoUndefinedVariablesRule": "query Q { u(id: $y) { id } }",
    "NoUnusedVariablesRule": "query Q($x: Int) { a }",
    "KnownDirectivesRule": "query Q { a @nope }",
    "UniqueDirectivesPerLocationRule": "query Q { a @skip(if: true) @skip(if: true) }",
    "KnownArgumentNamesRule": 'query Q { u(idd: "1") { id } }',
    "UniqueArgumentNamesRule": 'query Q { u(id: "1", id: "2") { id } }',
    "ValuesOfCorrectTypeRule": 'mutation M { m(i: {a: "x"}) }',
    "ValuesOfCorrectTypeRule:mixin": "query Q { a @mixin(from: 1, import: 2) }",
    "ProvidedRequiredArgumentsRule": "query Q { u { id } }",
    "VariablesInAllowedPositionRule": "query Q($x: Int) { u(id: $x) { id } }",
    "OverlappingFieldsCanBeMergedRule": 'query Q { u(id: "1") { x: id x: name } }',
    "UniqueInputFieldNamesRule": "mutation M { m(i: {a: 1, a: 2}) }",
    # documents WITHOUT any operation: the fragments alone must be validated too
    "fragments-only:FieldsOnCorrectTypeRule": "fragment F on User { id zzz }",
    "fragments-only:KnownTypeNamesRule": "fragment F on Nope { a }",
    "fragments-only:NoFragmentCyclesRule": "fragment A on User { ...B }\nfragment B on User { ...A }",
    "fragments-only:one-valid-one-invalid": "fragment Ok on User { id }\nfragment Bad on Other { name }",
    # rules that only fire on the document AS A WHOLE
    "UniqueOperationNamesRule:three": "query Q { a }\nmutation Q { m }\nquery R { a }",
    "UniqueOperationNamesRule:with-fragment": 'query Q { u(id: "1") { ...F } }\nquery Q { a }\nfragment F on User { id }',
    "LoneAnonymousOperationRule:two-anonymous": "{ a }\n{ a }",
}

# documents graphql-core accepts but ariadne-codegen refuses itself (label -> (document, facts))
# facts: ops errors by operation name, fragment facts by fragment name
PARSING = {"k": "codegen", "cls": "ParsingError"}
OWN_REFUSALS: Dict[str, Dict[str, Any]] = {
    "anonymous": {"doc": "{ a }", "cls": "ParsingError", "phase": "addOperation"},
    "subscription": {"doc": "subscription S { tick }", "cls": "NotSupported", "phase": "addOperation", "needs_sync": True},
    "mixin-field": {"doc": 'query Q { u(id: "1") @mixin(from: "x") { id } }', "cls": "ParsingError", "phase": "addOperation",
                    "op_err": {"Q": PARSING}},
    "mixin-fragment": {"doc": 'query Q { u(id: "1") { ...UF } }\nfragment UF on User @mixin(from: "x") { id name }',
                       "cls": "ParsingError", "phase": "generateWrite", "frag_err": {"UF": PARSING}},
    "collide-client": {"doc": "query client { a }", "cls": "ParsingError", "phase": "generatePre"},
    "collide-enums": {"doc": "query GetA { a }\nquery Enums { a }", "cls": "ParsingError", "phase": "generatePre"},
    "collide-base-model": {"doc": "query BaseModel { a }", "cls": "ParsingError", "phase": "generatePre"},
}

# documents that are fine (incl. some that look suspicious but are accepted by design)
VALID_QUERIES: Dict[str, Dict[str, Any]] = {
    "base": {"doc": BASE_QUERIES},
    "unused-fragment": {"doc": "query GetA { a }\nfragment Unused on User { id }"},   # NoUnusedFragmentsRule is switched off
    "same-module-twice": {"doc": "query getA { a }\nquery get_a { a }"},               # C18's subject; one module, not an error here
    "mixin-ok": {"doc": 'query Q { u(id: "1") @mixin(from: ".mixins", import: "M") { id } }'},
    "mixin-on-unpacked-fragment": {   # the malformed @mixin sits on a fragment that is always unpacked: never looked at
        "doc": 'query Q { s { ...SF } }\nfragment SF on SearchResult @mixin(from: "x") { ... on User { id } }',
        "frag_unpacked": {"SF": True}, "frag_err": {"SF": PARSING}},
    "subscription-async": {"doc": "subscription S { tick }"},
    "only-fragments": {"doc": "fragment UserF on User { id name }"},
}

SYNTAX_ERRORS = {"schema": "type Query { a: Int", "queries": "query Q { a "}

# names for identifier options: (value, is valid python identifier that is no keyword)
NAME_POOL: List[Tuple[str, bool]] = [
    ("ok_name", True), ("_x", True), ("A1", True), ("not-valid", False), ("1abc", False), ("", False), ("a b", False),
    ("class", False), ("import", False), ("None", False), ("match", True), ("type", True), ("a.b", False), ("x$", False),
    ("__init__", True), ("async", False), ("print", True),
]
