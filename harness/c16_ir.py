"""C16 — the two trusted serialisers of the correspondence and the IR printer.

`schema_to_ir(schema)`     graphql-core schema object  ->  SchemaIR JSON   (what Lean's `gen` is fed)
`module_to_ir(ast.Module)` emitted Python module        ->  PyModuleIR JSON (what Lean's `gen` must produce)
`ir_to_py(ir)`             PyModuleIR JSON              ->  Python text     (to exec perturbed modules)

SchemaIR JSON
  {"types": [T], "query"|"mutation"|"subscription": null | [name, kind], "directives": [D], "description": null|str}
  T = {"kind": "scalar", "name", "description", "specifiedBy"}
    | {"kind": "object"|"interface", "name", "description", "interfaces": [name], "fields": [F]}
    | {"kind": "union", "name", "description", "members": [name]}
    | {"kind": "enum", "name", "description", "values": [{"name", "value": PV, "description", "deprecation"}]}
    | {"kind": "input", "name", "description", "fields": [A], "oneOf": bool}
  F = {"name", "type": R, "args": [A], "description", "deprecation"}
  A = {"name", "type": R, "default": "undefined" | {"v": PV}, "description", "deprecation"}
  R = {"n": name, "k": kind} | {"list": R} | {"nonNull": R}
  D = {"name", "description", "repeatable", "locations": [str], "args": [A]}
  PV = null | {"b": bool} | {"i": "<decimal>"} | {"f": "<repr>"} | {"s": str} | {"l": [PV]} | {"d": [[key, PV]]}
`types` lists schema.type_map in order without graphql-core's own built-in objects.

PyModuleIR JSON: see lean/AriadneModel/Driver/C16.lean (`encModule`) — one node per emitted ast shape.
"""
from __future__ import annotations

import ast
from typing import Any, Dict, List, Optional

from graphql import (GraphQLEnumType, GraphQLInputObjectType, GraphQLInterfaceType, GraphQLList, GraphQLNonNull,
                     GraphQLObjectType, GraphQLScalarType, GraphQLSchema, GraphQLUnionType, Undefined, introspection_types,
                     specified_scalar_types)


class Unrecognised(Exception):
    pass


# --------------------------------------------------------------------------------------------
# Python constants
# --------------------------------------------------------------------------------------------


def pyval(v: Any) -> Any:
    if v is None:
        return None
    if isinstance(v, bool):
        return {"b": v}
    if isinstance(v, int):
        return {"i": str(v)}
    if isinstance(v, float):
        return {"f": repr(v)}
    if isinstance(v, str):
        return {"s": v}
    if isinstance(v, (list, tuple)):
        return {"l": [pyval(x) for x in v]}
    if isinstance(v, dict):
        if not all(isinstance(k, str) for k in v):
            raise Unrecognised("dict constant with a non-string key")
        return {"d": [[k, pyval(x)] for k, x in v.items()]}
    raise Unrecognised("constant of type %s" % type(v).__name__)


def pyval_to_py(pv: Any) -> Any:
    if pv is None:
        return None
    (k, v), = pv.items()
    if k == "b":
        return bool(v)
    if k == "i":
        return int(v)
    if k == "f":
        return float(v)
    if k == "s":
        return v
    if k == "l":
        return [pyval_to_py(x) for x in v]
    if k == "d":
        return {a: pyval_to_py(b) for a, b in v}
    raise ValueError(pv)


def finite(pv: Any) -> bool:
    if pv is None:
        return True
    (k, v), = pv.items()
    if k == "f":
        return v not in ("inf", "-inf", "nan")
    if k == "l":
        return all(finite(x) for x in v)
    if k == "d":
        return all(finite(b) for _, b in v)
    return True


# --------------------------------------------------------------------------------------------
# schema object -> SchemaIR
# --------------------------------------------------------------------------------------------

KIND = [(GraphQLScalarType, "scalar"), (GraphQLObjectType, "object"), (GraphQLInterfaceType, "interface"),
        (GraphQLUnionType, "union"), (GraphQLEnumType, "enum"), (GraphQLInputObjectType, "input")]


def kind_of(t: Any) -> str:
    for cls, k in KIND:
        if type(t) is cls:
            return k
    raise Unrecognised("named type of class %s" % type(t).__name__)


def ref(t: Any) -> Any:
    if isinstance(t, GraphQLNonNull):
        return {"nonNull": ref(t.of_type)}
    if isinstance(t, GraphQLList):
        return {"list": ref(t.of_type)}
    return {"n": t.name, "k": kind_of(t)}


def arg_ir(name: str, a: Any) -> Dict[str, Any]:
    return {"name": name, "type": ref(a.type), "default": "undefined" if a.default_value is Undefined else {"v": pyval(a.default_value)},
            "description": a.description, "deprecation": a.deprecation_reason}


def field_ir(name: str, f: Any) -> Dict[str, Any]:
    return {"name": name, "type": ref(f.type), "args": [arg_ir(n, a) for n, a in f.args.items()], "description": f.description,
            "deprecation": f.deprecation_reason}


def is_builtin(t: Any) -> bool:
    return specified_scalar_types.get(getattr(t, "name", None)) is t or introspection_types.get(getattr(t, "name", None)) is t


def type_ir(key: str, t: Any) -> Dict[str, Any]:
    if key != t.name:
        raise Unrecognised("type map key %r differs from type name %r" % (key, t.name))
    k = kind_of(t)
    base = {"kind": k, "name": t.name, "description": t.description}
    if k == "scalar":
        base["specifiedBy"] = t.specified_by_url
    elif k in ("object", "interface"):
        base["interfaces"] = [i.name for i in t.interfaces]
        base["fields"] = [field_ir(n, f) for n, f in t.fields.items()]
    elif k == "union":
        base["members"] = [m.name for m in t.types]
    elif k == "enum":
        base["values"] = [{"name": n, "value": pyval(v.value), "description": v.description, "deprecation": v.deprecation_reason}
                          for n, v in t.values.items()]
    else:
        base["fields"] = [arg_ir(n, f) for n, f in t.fields.items()]
        base["oneOf"] = bool(getattr(t, "is_one_of", False))
    return base


def root_ir(t: Any) -> Any:
    return None if t is None else [t.name, kind_of(t)]


def schema_to_ir(schema: GraphQLSchema) -> Dict[str, Any]:
    return {
        "types": [type_ir(k, t) for k, t in schema.type_map.items() if not is_builtin(t)],
        "query": root_ir(schema.query_type),
        "mutation": root_ir(schema.mutation_type),
        "subscription": root_ir(schema.subscription_type),
        "directives": [{"name": d.name, "description": d.description, "repeatable": d.is_repeatable,
                        "locations": [l.name for l in d.locations], "args": [arg_ir(n, a) for n, a in d.args.items()]}
                       for d in schema.directives],
        "description": schema.description,
    }


def schema_defaults_finite(ir: Dict[str, Any]) -> bool:
    def args_ok(args: List[Dict[str, Any]]) -> bool:
        return all(a["default"] == "undefined" or finite(a["default"]["v"]) for a in args)

    for t in ir["types"]:
        if t["kind"] in ("object", "interface") and not all(args_ok(f["args"]) for f in t["fields"]):
            return False
        if t["kind"] == "input" and not args_ok(t["fields"]):
            return False
        if t["kind"] == "enum" and not all(finite(v["value"]) for v in t["values"]):
            return False
    return all(args_ok(d["args"]) for d in ir["directives"])


# --------------------------------------------------------------------------------------------
# emitted module -> PyModuleIR
# --------------------------------------------------------------------------------------------


def _lit(node: ast.AST) -> Any:
    """a literal expression as the Python object it denotes (the assumed law eval(repr c) = c lives here)"""
    if isinstance(node, ast.Constant):
        if isinstance(node.value, (bytes, complex)) or node.value is Ellipsis:
            raise Unrecognised("constant %r" % (node.value,))
        return node.value
    if isinstance(node, ast.UnaryOp) and isinstance(node.op, ast.USub) and isinstance(node.operand, ast.Constant) \
            and isinstance(node.operand.value, (int, float)) and not isinstance(node.operand.value, bool):
        return -node.operand.value
    if isinstance(node, ast.List):
        return [_lit(e) for e in node.elts]
    if isinstance(node, ast.Dict):
        out = {}
        for k, v in zip(node.keys, node.values):
            if k is None:
                raise Unrecognised("dict unpacking")
            kk = _lit(k)
            if kk in out:
                raise Unrecognised("duplicate key in a dict literal")
            out[kk] = _lit(v)
        return out
    raise Unrecognised("not a literal: %s" % type(node).__name__)


def cexpr(node: ast.AST) -> Any:
    if isinstance(node, ast.Name):
        return {"n": node.id}
    return {"c": pyval(_lit(node))}


def _name(node: ast.AST) -> str:
    if not isinstance(node, ast.Name):
        raise Unrecognised("name expected, got %s" % type(node).__name__)
    return node.id


def _strkey(node: ast.AST) -> str:
    if isinstance(node, ast.Constant) and isinstance(node.value, str):
        return node.value
    raise Unrecognised("string key expected")


def _call(node: ast.AST, nargs: int, kws: List[str]) -> ast.Call:
    if not isinstance(node, ast.Call) or len(node.args) != nargs:
        raise Unrecognised("call with %d positional argument(s) expected" % nargs)
    got = [k.arg for k in node.keywords]
    if got != kws:
        raise Unrecognised("keywords %r expected, got %r" % (kws, got))
    return node


def _kw(call: ast.Call, name: str) -> ast.AST:
    return [k.value for k in call.keywords if k.arg == name][0]


def _cast4(node: ast.AST) -> List[str]:
    c = _call(node, 2, [])
    sub = c.args[1]
    if not isinstance(sub, ast.Subscript):
        raise Unrecognised("subscript expected in cast(...)")
    return [_name(c.func), _name(c.args[0]), _name(sub.value), _strkey(sub.slice)]


def texpr(node: ast.AST) -> Any:
    if isinstance(node, ast.Name):
        return {"name": node.id}
    if isinstance(node, ast.Call) and len(node.args) == 2:
        return {"cast": _cast4(node)}
    c = _call(node, 1, [])
    return {"call": _name(c.func), "arg": texpr(c.args[0])}


def arg_e(node: ast.AST) -> Any:
    c = _call(node, 1, ["default_value", "description", "deprecation_reason"])
    return {"ctor": _name(c.func), "type": texpr(c.args[0]), "default": cexpr(_kw(c, "default_value")),
            "description": cexpr(_kw(c, "description")), "deprecation": cexpr(_kw(c, "deprecation_reason"))}


def _items(node: ast.AST, f: Any) -> List[Any]:
    if not isinstance(node, ast.Dict):
        raise Unrecognised("dict display expected, got %s" % type(node).__name__)
    return [[_strkey(k), f(v)] for k, v in zip(node.keys, node.values)]


def field_e(node: ast.AST) -> Any:
    c = _call(node, 1, ["args", "description", "deprecation_reason"])
    return {"ctor": _name(c.func), "type": texpr(c.args[0]), "args": _items(_kw(c, "args"), arg_e),
            "description": cexpr(_kw(c, "description")), "deprecation": cexpr(_kw(c, "deprecation_reason"))}


def _thunk_body(node: ast.AST) -> Optional[ast.AST]:
    if isinstance(node, ast.Lambda):
        a = node.args
        if a.args or a.posonlyargs or a.kwonlyargs or a.vararg or a.kwarg:
            raise Unrecognised("lambda with parameters")
        return node.body
    return None


def fields_e(node: ast.AST, f: Any) -> Any:
    body = _thunk_body(node)
    if body is None:
        if isinstance(node, ast.Dict) and not node.keys:
            return "empty"
        raise Unrecognised("fields= is neither `{}` nor a lambda")
    return {"thunk": _items(body, f)}


def names_e(node: ast.AST) -> Any:
    body = _thunk_body(node)
    if body is None:
        if isinstance(node, ast.List) and not node.elts:
            return "empty"
        raise Unrecognised("neither `[]` nor a lambda")
    c = _call(body, 2, [])
    ann, lst = c.args
    if not isinstance(ann, ast.Subscript) or not isinstance(lst, ast.List):
        raise Unrecognised("cast(List[X], [...]) expected")
    keys, tms = [], set()
    for e in lst.elts:
        if not isinstance(e, ast.Subscript):
            raise Unrecognised("type map subscript expected")
        tms.add(_name(e.value))
        keys.append(_strkey(e.slice))
    if len(tms) != 1:
        raise Unrecognised("list of named types over %d type map names" % len(tms))
    return {"thunk": [_name(c.func), _name(ann.value), _name(ann.slice), tms.pop()], "keys": keys}


def enum_value_e(node: ast.AST) -> Any:
    c = _call(node, 0, ["value", "description", "deprecation_reason"])
    return {"ctor": _name(c.func), "value": cexpr(_kw(c, "value")), "description": cexpr(_kw(c, "description")),
            "deprecation": cexpr(_kw(c, "deprecation_reason"))}


def type_e(node: ast.AST) -> Any:
    if not isinstance(node, ast.Call) or node.args:
        raise Unrecognised("keyword-only constructor call expected")
    kws = [k.arg for k in node.keywords]
    base = {"ctor": _name(node.func), "name": cexpr(_kw(node, "name")) if "name" in kws else None,
            "description": cexpr(_kw(node, "description")) if "description" in kws else None}
    if kws == ["name", "description", "specified_by_url"]:
        return {"t": "scalar", **base, "specifiedBy": cexpr(_kw(node, "specified_by_url"))}
    if kws == ["name", "description", "interfaces", "fields"]:
        return {"t": "composite", **base, "interfaces": names_e(_kw(node, "interfaces")), "fields": fields_e(_kw(node, "fields"), field_e)}
    if kws == ["name", "description", "types"]:
        return {"t": "union", **base, "types": names_e(_kw(node, "types"))}
    if kws == ["name", "description", "values"]:
        return {"t": "enum", **base, "values": _items(_kw(node, "values"), enum_value_e)}
    if kws == ["name", "description", "fields"]:
        return {"t": "input", **base, "fields": fields_e(_kw(node, "fields"), arg_e)}
    raise Unrecognised("named type constructor with keywords %r" % kws)


def root_e(node: ast.AST) -> Any:
    if isinstance(node, ast.Constant) and node.value is None:
        return None
    return {"cast": _cast4(node)}


def directive_e(node: ast.AST) -> Any:
    c = _call(node, 0, ["name", "description", "is_repeatable", "locations", "args"])
    locs = _kw(c, "locations")
    if not isinstance(locs, ast.Tuple):
        raise Unrecognised("locations tuple expected")
    pairs = []
    for e in locs.elts:
        if not isinstance(e, ast.Attribute):
            raise Unrecognised("DirectiveLocation.X expected")
        pairs.append([_name(e.value), e.attr])
    a = _kw(c, "args")
    args = None if (isinstance(a, ast.Constant) and a.value is None) else _items(a, arg_e)
    return {"ctor": _name(c.func), "name": cexpr(_kw(c, "name")), "description": cexpr(_kw(c, "description")),
            "repeatable": cexpr(_kw(c, "is_repeatable")), "locations": pairs, "args": args}


def schema_e(node: ast.AST) -> Any:
    c = _call(node, 0, ["query", "mutation", "subscription", "types", "directives", "description"])
    t = _kw(c, "types")
    if not (isinstance(t, ast.Call) and not t.args and not t.keywords and isinstance(t.func, ast.Attribute) and t.func.attr == "values"):
        raise Unrecognised("types=<tm>.values() expected")
    ds = _kw(c, "directives")
    if not isinstance(ds, ast.List):
        raise Unrecognised("directives list expected")
    return {"ctor": _name(c.func), "query": root_e(_kw(c, "query")), "mutation": root_e(_kw(c, "mutation")),
            "subscription": root_e(_kw(c, "subscription")), "typesTm": _name(t.func.value),
            "directives": [directive_e(d) for d in ds.elts], "description": cexpr(_kw(c, "description"))}


def module_to_ir(mod: ast.Module) -> Dict[str, Any]:
    imports = []
    rest = []
    for st in mod.body:
        if isinstance(st, ast.ImportFrom):
            if rest or st.level:
                raise Unrecognised("import after a statement / relative import")
            if any(a.asname for a in st.names):
                raise Unrecognised("import ... as ...")
            imports.append({"module": st.module, "names": [a.name for a in st.names]})
        else:
            rest.append(st)
    if len(rest) != 2 or not all(isinstance(s, ast.AnnAssign) and s.simple == 1 and s.value is not None for s in rest):
        raise Unrecognised("two annotated assignments expected after the imports, got %r" % [type(s).__name__ for s in rest])
    tm_st, sv_st = rest
    return {"imports": imports, "tmName": _name(tm_st.target), "tmAnn": _name(tm_st.annotation),
            "typeMap": _items(tm_st.value, type_e), "svName": _name(sv_st.target), "svAnn": _name(sv_st.annotation),
            "schema": schema_e(sv_st.value)}


def text_to_ir(text: str) -> Dict[str, Any]:
    try:
        return module_to_ir(ast.parse(text))
    except Unrecognised as e:
        return {"unrecognised": str(e)}
    except SyntaxError as e:
        return {"unrecognised": "SyntaxError: %s" % e}


def canon_imports(imports: List[Dict[str, Any]]) -> List[Any]:
    """isort reorders import statements and names: order is not part of the observation"""
    return sorted((i["module"], sorted(i["names"])) for i in imports)


# --------------------------------------------------------------------------------------------
# constants as text (tie of Model/PyRepr.lean and Spec/PyLiteral.lean)
# --------------------------------------------------------------------------------------------


def canon_pv(pv: Any) -> Any:
    """floats by value: `1e300` (black) and `1e+300` (repr) are the same constant"""
    if pv is None:
        return None
    (k, v), = pv.items()
    if k == "f":
        try:
            return {"f": repr(float(v))}
        except ValueError:
            return {"f": v}
    if k == "l":
        return {"l": [canon_pv(x) for x in v]}
    if k == "d":
        return {"d": [[a, canon_pv(b)] for a, b in v]}
    return pv


def canon_cexpr(c: Any) -> Any:
    return {"c": canon_pv(c["c"])} if isinstance(c, dict) and "c" in c else c


def _segment(lines: List[bytes], node: ast.AST) -> Optional[str]:
    """source text of a node (col offsets are UTF-8 byte offsets)"""
    try:
        l0, c0, l1, c1 = node.lineno - 1, node.col_offset, node.end_lineno - 1, node.end_col_offset  # type: ignore[attr-defined]
    except AttributeError:
        return None
    if l0 == l1:
        return lines[l0][c0:c1].decode("utf-8")
    parts = [lines[l0][c0:]] + lines[l0 + 1: l1] + [lines[l1][:c1]]
    return b"\n".join(parts).decode("utf-8")


def literal_segments(text: str, limit: int = 4000) -> List[List[Any]]:
    """[[source text, what CPython makes of it as a CExpr JSON]] for every constant position of a module text: the values of
    keyword arguments that are literals or bare names, and the string keys of the remaining dict displays"""
    try:
        tree = ast.parse(text)
    except SyntaxError:
        return []
    lines = text.encode("utf-8").split(b"\n")
    seen: Dict[str, Any] = {}

    def add(node: ast.AST) -> bool:
        try:
            c = cexpr(node)
        except Unrecognised:
            return False
        seg = _segment(lines, node)
        if seg is not None and seg not in seen and len(seen) < limit:
            seen[seg] = c
        return True

    for node in ast.walk(tree):
        if isinstance(node, ast.keyword):
            add(node.value)
        elif isinstance(node, ast.Dict):
            try:
                _lit(node)
            except Unrecognised:
                for k in node.keys:
                    if k is not None:
                        add(k)
    return [[k, v] for k, v in seen.items()]


def module_constants(mod: ast.AST, limit: int = 4000) -> List[List[Any]]:
    """[[PV, the text ast.unparse writes for the node]] for every `ast.Constant` of the module AST the generator returned
    (the value object itself is read off the node: nothing is parsed here)"""
    seen: Dict[str, Any] = {}
    for node in ast.walk(mod):
        if isinstance(node, ast.Constant):
            try:
                pv = pyval(node.value)
            except Unrecognised:
                continue  # graphql-core's Undefined: written as a name
            t = ast.unparse(node)
            if t not in seen and len(seen) < limit:
                seen[t] = pv
    return [[v, k] for k, v in seen.items()]


# --------------------------------------------------------------------------------------------
# PyModuleIR -> Python text
# --------------------------------------------------------------------------------------------


def _ce(c: Any) -> str:
    return c["n"] if "n" in c else repr(pyval_to_py(c["c"]))


def _tx(t: Any) -> str:
    if "name" in t:
        return t["name"]
    if "cast" in t:
        fn, cls, tm, key = t["cast"]
        return "%s(%s, %s[%r])" % (fn, cls, tm, key)
    return "%s(%s)" % (t["call"], _tx(t["arg"]))


def _ae(a: Any) -> str:
    return "%s(%s, default_value=%s, description=%s, deprecation_reason=%s)" % (
        a["ctor"], _tx(a["type"]), _ce(a["default"]), _ce(a["description"]), _ce(a["deprecation"]))


def _dict(items: List[Any], f: Any) -> str:
    return "{" + ", ".join("%r: %s" % (k, f(v)) for k, v in items) + "}"


def _fe(f: Any) -> str:
    return "%s(%s, args=%s, description=%s, deprecation_reason=%s)" % (
        f["ctor"], _tx(f["type"]), _dict(f["args"], _ae), _ce(f["description"]), _ce(f["deprecation"]))


def _names(n: Any) -> str:
    if n == "empty":
        return "[]"
    c, l, e, tm = n["thunk"]
    return "lambda: %s(%s[%s], [%s])" % (c, l, e, ", ".join("%s[%r]" % (tm, k) for k in n["keys"]))


def _fields(fs: Any, f: Any) -> str:
    return "{}" if fs == "empty" else "lambda: " + _dict(fs["thunk"], f)


def _te(t: Any) -> str:
    head = "%s(name=%s, description=%s, " % (t["ctor"], _ce(t["name"]), _ce(t["description"]))
    if t["t"] == "scalar":
        return head + "specified_by_url=%s)" % _ce(t["specifiedBy"])
    if t["t"] == "composite":
        return head + "interfaces=%s, fields=%s)" % (_names(t["interfaces"]), _fields(t["fields"], _fe))
    if t["t"] == "union":
        return head + "types=%s)" % _names(t["types"])
    if t["t"] == "enum":
        ev = lambda v: "%s(value=%s, description=%s, deprecation_reason=%s)" % (v["ctor"], _ce(v["value"]), _ce(v["description"]), _ce(v["deprecation"]))  # noqa: E731
        return head + "values=%s)" % _dict(t["values"], ev)
    return head + "fields=%s)" % _fields(t["fields"], _ae)


def _root(r: Any) -> str:
    if r is None:
        return "None"
    fn, cls, tm, key = r["cast"]
    return "%s(%s, %s[%r])" % (fn, cls, tm, key)


def _de(d: Any) -> str:
    locs = "(" + "".join("%s.%s, " % (a, b) for a, b in d["locations"]) + ")"
    args = "None" if d["args"] is None else _dict(d["args"], _ae)
    return "%s(name=%s, description=%s, is_repeatable=%s, locations=%s, args=%s)" % (
        d["ctor"], _ce(d["name"]), _ce(d["description"]), _ce(d["repeatable"]), locs, args)


def ir_to_py(m: Dict[str, Any]) -> str:
    lines = ["from %s import %s" % (i["module"], ", ".join(i["names"])) for i in m["imports"] if i["names"]]
    lines.append("%s: %s = %s" % (m["tmName"], m["tmAnn"], _dict(m["typeMap"], _te)))
    s = m["schema"]
    lines.append("%s: %s = %s(query=%s, mutation=%s, subscription=%s, types=%s.values(), directives=[%s], description=%s)" % (
        m["svName"], m["svAnn"], s["ctor"], _root(s["query"]), _root(s["mutation"]), _root(s["subscription"]), s["typesTm"],
        ", ".join(_de(d) for d in s["directives"]), _ce(s["description"])))
    return "\n".join(lines) + "\n"
