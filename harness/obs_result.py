"""Observer for the result-type generation: runs the REAL ResultTypesGenerator the way
PackageGenerator / FragmentsGenerator do and canonicalises its classes into the class IR that
lean/AriadneModel/Driver/C01.lean prints.  Call inside a forked child (the generators mutate the
shared fragment ASTs)."""
from __future__ import annotations

import ast
from typing import Any, Dict, List, Optional

from . import engine, gqlwire


def ann_to_json(node: ast.AST) -> Dict[str, Any]:
    if isinstance(node, ast.Name):
        if node.id.startswith('"') and node.id.endswith('"'):
            return {"k": "cls", "n": node.id[1:-1]}
        return {"k": "name", "n": node.id}
    if isinstance(node, ast.Subscript) and isinstance(node.value, ast.Name):
        head = node.value.id
        sl = node.slice
        if head == "Optional":
            return {"k": "optional", "a": ann_to_json(sl)}
        if head == "List":
            return {"k": "list", "a": ann_to_json(sl)}
        if head == "Union":
            elts = sl.elts if isinstance(sl, ast.Tuple) else [sl]
            return {"k": "union", "as": [ann_to_json(e) for e in elts]}
        if head == "Literal":
            elts = sl.elts if isinstance(sl, ast.Tuple) else [sl]
            vals = []
            for e in elts:
                v = e.id if isinstance(e, ast.Name) else repr(getattr(e, "value", e))
                vals.append(v[1:-1] if v.startswith('"') and v.endswith('"') else v)
            return {"k": "literal", "vs": vals}
        if head == "Annotated" and isinstance(sl, ast.Tuple) and len(sl.elts) == 2 and isinstance(sl.elts[1], ast.Call):
            inner, call = sl.elts
            fn = call.func.id if isinstance(call.func, ast.Name) else ast.dump(call.func)
            if fn == "Field" and any(k.arg == "discriminator" for k in call.keywords):
                return {"k": "disc", "a": ann_to_json(inner)}
            if fn == "BeforeValidator" and call.args and isinstance(call.args[0], ast.Name) and isinstance(inner, ast.Name):
                return {"k": "before", "type": inner.id, "parse": call.args[0].id}
    return {"k": "unknown", "dump": ast.dump(node)[:200]}


def class_to_json(c: ast.ClassDef) -> Dict[str, Any]:
    fields = []
    for st in c.body:
        if isinstance(st, ast.Pass):
            continue
        if not isinstance(st, ast.AnnAssign) or not isinstance(st.target, ast.Name):
            fields.append({"py": "?", "ann": {"k": "unknown", "dump": ast.dump(st)[:200]}, "alias": None, "disc": False, "defaultNone": False})
            continue
        alias, disc, default_none = None, False, False
        v = st.value
        if isinstance(v, ast.Constant) and v.value is None:
            default_none = True
        elif isinstance(v, ast.Call) and isinstance(v.func, ast.Name) and v.func.id == "Field":
            for k in v.keywords:
                if k.arg == "alias" and isinstance(k.value, ast.Constant):
                    alias = k.value.value
                elif k.arg == "discriminator":
                    disc = True
                elif k.arg == "default" and isinstance(k.value, ast.Constant) and k.value.value is None:
                    default_none = True
        fields.append({"py": st.target.id, "ann": ann_to_json(st.annotation), "alias": alias, "disc": disc, "defaultNone": default_none})
    return {"name": c.name, "bases": [b.id if isinstance(b, ast.Name) else ast.dump(b) for b in c.bases], "fields": fields}


def _classify(e: BaseException) -> Dict[str, Any]:
    return {"error": engine.classify_exception(type(e).__name__), "msg": str(e)[:300]}


def observe(case: Dict[str, Any]) -> Dict[str, Any]:
    """case: {"sdl", "queries", "snake": bool, "scalars": [{"name","type","parse"?}]}
    -> {"env": <json for the Lean driver>, "defs": [{"kind": "op"|"frag", "name", "impl": {...}}]}"""
    from graphql import FragmentDefinitionNode, OperationDefinitionNode, build_ast_schema, parse

    from ariadne_codegen.client_generators.result_types import ResultTypesGenerator
    from ariadne_codegen.client_generators.scalars import ScalarData
    from ariadne_codegen.schema import add_mixin_directive_to_schema

    schema = build_ast_schema(parse(case["sdl"]), assume_valid=True)
    schema_json = gqlwire.schema_to_json(schema)
    schema = add_mixin_directive_to_schema(schema)
    doc = parse(case["queries"])
    sids = gqlwire.Sids()
    doc_json = gqlwire.document_to_json(doc, sids)
    scalars = {s["name"]: ScalarData(type_=s["type"], parse=s.get("parse"), serialize=s.get("serialize"), graphql_name=s["name"])
               for s in case.get("scalars", [])}
    scalars_json = []
    for s in case.get("scalars", []):
        sd = scalars[s["name"]]
        scalars_json.append({"name": s["name"], "typeName": sd.type_name, "parseName": sd.parse_name})
    frag_defs = {d.name.value: d for d in doc.definitions if isinstance(d, FragmentDefinitionNode)}
    ops = [d for d in doc.definitions if isinstance(d, OperationDefinitionNode)]
    env = {"schema": schema_json, "fragments": doc_json["fragments"], "scalars": scalars_json, "snake": case.get("snake", True)}

    def snapshot() -> Dict[int, int]:
        return {id(ss): len(ss.selections) for ss in sids.nodes}

    def new_marks(before: Dict[int, int]) -> List[int]:
        out = []
        for ss in sids.nodes:
            if len(ss.selections) == before[id(ss)] + 1 and getattr(ss.selections[0], "name", None) is not None \
                    and ss.selections[0].name.value == "__typename":
                out.append(sids.by_node[id(ss)])
            elif len(ss.selections) != before[id(ss)]:
                out.append(-sids.by_node[id(ss)])  # unexpected mutation
        return sorted(out)

    defs = []

    def run(kind: str, node: Any, wire: Dict[str, Any], as_fragment: bool) -> None:
        before = snapshot()
        try:
            kwargs: Dict[str, Any] = dict(schema=schema, operation_definition=node, enums_module_name="enums",
                                          fragments_definitions=frag_defs, convert_to_snake_case=case.get("snake", True),
                                          custom_scalars=scalars)
            if not as_fragment:
                kwargs["fragments_module_name"] = "fragments"
            g = ResultTypesGenerator(**kwargs)
            module = g.generate()
            rebuild = [st.value.func.value.id for st in module.body
                       if isinstance(st, ast.Expr) and isinstance(st.value, ast.Call) and isinstance(st.value.func, ast.Attribute)
                       and st.value.func.attr == "model_rebuild"]
            mixin_imports = [[i.module, i.names[0].name] for i in g.get_imports()[3:]
                             if isinstance(i, ast.ImportFrom) and i.level == 0 and i.module not in ("typing", "pydantic")]
            impl = {"classes": [class_to_json(c) for c in g.get_classes()], "rebuild": rebuild,
                    "usedEnums": list(g.get_used_enums()), "usedScalars": list(g._used_scalars),
                    "mixins": sorted(g.get_fragments_used_as_mixins()), "unpacked": sorted(g.get_unpacked_fragments()),
                    "publicNames": list(g.get_generated_public_names()), "marks": new_marks(before)}
            if not scalars:
                impl["mixinImports"] = mixin_imports
            try:
                impl["related"] = sorted(g._get_all_related_fragments())
                impl["opstr"] = g.get_operation_as_str()
            except BaseException as e:  # noqa: BLE001
                impl["opstr_error"] = _classify(e)
        except BaseException as e:  # noqa: BLE001
            impl = _classify(e)
        defs.append({"kind": kind, "name": wire.get("name"), "wire": wire, "impl": impl})

    for node, wire in zip(ops, doc_json["operations"]):
        run("op", node, wire, False)
    # FragmentsGenerator: one ResultTypesGenerator per fragment definition (it iterates a set; we go by name)
    for wire in sorted(doc_json["fragments"], key=lambda f: f["name"]):
        run("frag", frag_defs[wire["name"]], wire, True)
    return {"env": env, "defs": defs}
