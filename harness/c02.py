"""C02 — the document sent is the document written.

Tie (DESIGN.md §3 C02):
  (a) sent-document model  `Ariadne.OpText.addOperation` (Model/OpText.lean on top of Model/ResultTypes.lean)
      vs the REAL `ResultTypesGenerator.get_operation_as_str()` for every operation of seeded random
      (schema, operations, fragments) documents, processed in `add_operation` order with the in-place
      `__typename` marks threaded: related set, sorted order, the printed document (parsed back with
      graphql-core and reduced to the model's document IR), the generator state, the trigger flags;
  (b) embedding model `Ariadne.Embed.embed` + `Spec/PyStr.lean` vs the REAL
      `ClientGenerator._generate_operation_str_assign` -> `ast_to_str(module, multiline_strings=True)` ->
      `ast.parse` of the emitted module (and `ExtractOperationsPlugin._get_operations_module/_module_to_str`),
      on seeded random operation texts; plus the CPython reference semantics (`splitlines`, `repr`,
      `textwrap.indent`, triple-quoted literal evaluation) against the running interpreter;
  (c) inside the four text-trigger regions (model answers `.unmodelled`) only "does the real pipeline
      preserve the text" is observed, to keep the findings confirmed.
Oracle (the property itself, through the real generated client, `e2e.run_case`): the captured `query` parses,
validates against the USER's schema (no injected @mixin) under `specified_rules`, `operationName` names its single
operation, and after undoing the two documented rewrites it is AST-equal (graphql-core nodes, locations ignored)
to the authored operation followed by exactly the reachable fragment definitions — with and without
ExtractOperationsPlugin (then the constants of the operations module are judged the same way).
"""
from __future__ import annotations

import ast
import copy
import json
import random
from pathlib import Path
from types import SimpleNamespace
from typing import Any, Dict, List, Optional, Tuple

from . import common, e2e, engine, gqlwire, obs_result
from .common import Ctx, Failure, LeanStatus, Mismatch, Result
from .gen import ops_gen, schema_gen, values

PROP = "C02"
TYPENAME = "__typename"
MIXIN = "mixin"
TEXT_TRIGGERS = ("textBlockString", "textQuote", "textEscN", "textLineSep")
LINE_SEPS = "\n\r\x0b\x0c\x1c\x1d\x1e\x85\u2028\u2029"


def fingerprint_items() -> List[Tuple[str, Optional[str]]]:
    rt = "ariadne_codegen/client_generators/result_types.py"
    return [
        (rt, "ResultTypesGenerator.get_operation_as_str"),
        (rt, "ResultTypesGenerator._get_all_related_fragments"),
        (rt, "ResultTypesGenerator._get_fragments_names"),
        (rt, "ResultTypesGenerator._get_node_without_mixin_directive"),
        (rt, "ResultTypesGenerator._add_typename_field_to_selections"),
        (rt, "ResultTypesGenerator._resolve_selection_set"),
        (rt, "ResultTypesGenerator._unpack_fragment"),
        (rt, "ResultTypesGenerator._parse_type_definition"),
        ("ariadne_codegen/client_generators/client.py", "ClientGenerator._generate_operation_str_assign"),
        ("ariadne_codegen/client_generators/client.py", "ClientGenerator._generate_execute_call"),
        ("ariadne_codegen/client_generators/package.py", "PackageGenerator.add_operation"),
        ("ariadne_codegen/utils.py", "ast_to_str"),
        ("ariadne_codegen/utils.py", "format_multiline_strings"),
        ("ariadne_codegen/utils.py", "convert_to_multiline_string"),
        ("ariadne_codegen/utils.py", "get_variable_indent_size"),
        ("ariadne_codegen/contrib/extract_operations.py", "ExtractOperationsPlugin.generate_operation_str"),
        ("ariadne_codegen/contrib/extract_operations.py", "ExtractOperationsPlugin._get_operations_module"),
        ("ariadne_codegen/contrib/extract_operations.py", "ExtractOperationsPlugin._module_to_str"),
        ("ariadne_codegen/contrib/extract_operations.py", "ExtractOperationsPlugin.generate_client_method"),
        ("ariadne_codegen/schema.py", "add_mixin_directive_to_schema"),
    ]


# --------------------------------------------------------------------------------------------
# text triggers (Python twin of Ariadne.Embed.trigger)
# --------------------------------------------------------------------------------------------


def text_trigger(q: str) -> Optional[str]:
    if '"""' in q:
        return "textBlockString"
    if "'" in q:
        return "textQuote"
    if "\\n" in q:
        return "textEscN"
    if any(c in q for c in LINE_SEPS[1:]):
        return "textLineSep"
    return None


def expected_sent(k: int, q: str) -> str:
    """the re-indented text a correct embedding hands to the transport (twin of Ariadne.Embed.expectedSent)"""
    out = "\n"
    for l in q.splitlines():
        out += (l if all(c == " " for c in l) else " " * k + l) + "\n"
    return out + " " * k


def cps(s: str) -> List[int]:
    return [ord(c) for c in s]


def uncps(xs: Optional[List[int]]) -> Optional[str]:
    return None if xs is None else "".join(chr(c) for c in xs)


def nonprintable(s: str) -> List[int]:
    return sorted({ord(c) for c in s if ord(c) >= 128 and not c.isprintable()})


# --------------------------------------------------------------------------------------------
# graphql-core documents -> the model's document IR; oracle helpers
# --------------------------------------------------------------------------------------------


def sel_ir(ss: Any) -> List[Dict[str, Any]]:
    from graphql import FieldNode, FragmentSpreadNode, InlineFragmentNode

    out: List[Dict[str, Any]] = []
    if ss is None:
        return out
    for s in ss.selections:
        if isinstance(s, FieldNode):
            out.append({"k": "field", "alias": s.alias.value if s.alias else None, "name": s.name.value,
                        "dirs": gqlwire.directives_to_json(s.directives), "sel": sel_ir(s.selection_set)})
        elif isinstance(s, FragmentSpreadNode):
            out.append({"k": "spread", "name": s.name.value, "dirs": gqlwire.directives_to_json(s.directives)})
        elif isinstance(s, InlineFragmentNode):
            out.append({"k": "inline", "on": s.type_condition.name.value if s.type_condition else None,
                        "dirs": gqlwire.directives_to_json(s.directives), "sel": sel_ir(s.selection_set)})
    return out


def doc_ir(doc: Any) -> Dict[str, Any]:
    """first operation + fragment definitions IN DOCUMENT ORDER, reduced to what the model's `Doc` carries"""
    from graphql import FragmentDefinitionNode, OperationDefinitionNode

    ops, frags = [], []
    for d in doc.definitions:
        if isinstance(d, OperationDefinitionNode):
            ops.append({"kind": d.operation.value, "name": d.name.value if d.name else None,
                        "dirs": gqlwire.directives_to_json(d.directives), "sel": sel_ir(d.selection_set)})
        elif isinstance(d, FragmentDefinitionNode):
            frags.append({"name": d.name.value, "on": d.type_condition.name.value,
                          "dirs": gqlwire.directives_to_json(d.directives), "sel": sel_ir(d.selection_set)})
    return {"ops": ops, "frags": frags}


def strip_sids(x: Any) -> Any:
    if isinstance(x, dict):
        return {k: strip_sids(v) for k, v in x.items() if k not in ("sid", "vars")}
    if isinstance(x, list):
        return [strip_sids(v) for v in x]
    return x


def direct_spreads(sel: List[Dict[str, Any]]) -> List[str]:
    out: List[str] = []
    for s in sel:
        if s["k"] == "spread":
            out.append(s["name"])
        else:
            out += direct_spreads(s.get("sel", []))
    return out


def reachable(sel: List[Dict[str, Any]], frags: Dict[str, Dict[str, Any]]) -> List[str]:
    seen: List[str] = []
    todo = list(direct_spreads(sel))
    while todo:
        n = todo.pop(0)
        if n in seen or n not in frags:
            continue
        seen.append(n)
        todo += direct_spreads(frags[n]["sel"])
    return seen


def plain(node: Any) -> Any:
    from graphql.utilities import ast_to_dict

    return ast_to_dict(node, locations=False)


def is_plain_typename(sel: Any) -> bool:
    from graphql import FieldNode

    return (isinstance(sel, FieldNode) and sel.name.value == TYPENAME and sel.alias is None and not sel.arguments
            and not sel.directives and sel.selection_set is None)


def names_typename(sel: Any) -> bool:
    from graphql import FieldNode

    return isinstance(sel, FieldNode) and sel.name.value == TYPENAME


def strip_mixin_everywhere(node: Any) -> Any:
    """the documented rewrite "removal of the codegen-only @mixin directive", undone on the AUTHORED side:
    the expected document is the authored one without any @mixin"""
    from graphql import Visitor, visit

    class V(Visitor):
        def enter(self, n: Any, *_: Any) -> Any:
            if getattr(n, "directives", None):
                n.directives = tuple(d for d in n.directives if d.name.value != MIXIN)
            return None

    c = copy.deepcopy(node)
    visit(c, V())
    return c


def undo_typename(sent_ss: Any, auth_ss: Any) -> None:
    """in place on the SENT selection set: remove exactly one leading automatic `__typename` where the authored
    selection set had none (DESIGN.md §3.0), then descend pairwise"""
    if sent_ss is None or auth_ss is None:
        return
    s, a = list(sent_ss.selections), list(auth_ss.selections)
    if len(s) == len(a) + 1 and is_plain_typename(s[0]) and not any(names_typename(x) for x in a):
        s = s[1:]
        sent_ss.selections = tuple(s)
    for x, y in zip(s, a):
        if type(x) is type(y) and getattr(x, "selection_set", None) is not None:
            undo_typename(x.selection_set, getattr(y, "selection_set", None))


def classify_validation(msg: str) -> str:
    if msg.startswith("Unknown directive"):
        return "sent-invalid-unknown-directive"
    if msg.startswith("Unknown fragment"):
        return "sent-invalid-unknown-fragment"
    return "sent-invalid-other"


class Authored:
    """the authored document of a case, parsed once (locations dropped)"""

    def __init__(self, sdl: str, queries: str) -> None:
        from graphql import FragmentDefinitionNode, OperationDefinitionNode, build_schema, parse

        self.schema = build_schema(sdl)  # the USER's schema: no @mixin directive injected
        self.doc = parse(queries, no_location=True)
        self.ops = {d.name.value: d for d in self.doc.definitions if isinstance(d, OperationDefinitionNode) and d.name}
        self.frags = {d.name.value: d for d in self.doc.definitions if isinstance(d, FragmentDefinitionNode)}
        ir = doc_ir(self.doc)
        self.ir_ops = {o["name"]: o for o in ir["ops"]}
        self.ir_frags = {f["name"]: f for f in ir["frags"]}

    def reachable(self, op: str) -> List[str]:
        return reachable(self.ir_ops[op]["sel"], self.ir_frags)

    def printed(self, op: str) -> str:
        """graphql-core's own print of the authored operation + reachable fragments: the text whose literal
        contents decide the text triggers (independent of ariadne-codegen)"""
        from graphql import print_ast

        return "\n\n".join([print_ast(self.ops[op])] + [print_ast(self.frags[n]) for n in sorted(self.reachable(op))])

    def mixin_on_reachable_fragment(self, op: str) -> bool:
        return any(any(d["name"] == MIXIN for d in self.ir_frags[n]["dirs"]) for n in self.reachable(op))


def judge_text(auth: Authored, op: str, text: Any, operation_name: Any, check_name: bool = True) -> Optional[Tuple[str, str]]:
    """The property for ONE operation text (the `query` handed to the transport, or a constant of the
    operations module).  Returns (signature, detail) of the first clause that fails, or None."""
    from graphql import FragmentDefinitionNode, GraphQLError, OperationDefinitionNode, parse, specified_rules, validate

    if not isinstance(text, str):
        return "sent-not-a-string", repr(text)[:100]
    try:
        sent = parse(text, no_location=True)
    except GraphQLError as e:
        return "sent-does-not-parse", e.message[:160]
    errs = validate(auth.schema, sent, specified_rules)
    if errs:
        return classify_validation(errs[0].message), errs[0].message[:160]
    sops = [d for d in sent.definitions if isinstance(d, OperationDefinitionNode)]
    if len(sops) != 1:
        return "not-exactly-one-operation", f"{len(sops)} operations"
    if check_name and (sops[0].name is None or operation_name != sops[0].name.value):
        return "operation-name-mismatch", f"operationName={operation_name!r} operation={sops[0].name.value if sops[0].name else None!r}"
    if sops[0].name is None or sops[0].name.value != op or sent.definitions[0] is not sops[0]:
        return "ast-differs:operation", "the first definition is not the authored operation"
    want_op = strip_mixin_everywhere(auth.ops[op])
    want_frags = {n: strip_mixin_everywhere(auth.frags[n]) for n in auth.reachable(op)}
    sfrags = [d for d in sent.definitions if isinstance(d, FragmentDefinitionNode)]
    if sorted(d.name.value for d in sfrags) != sorted(want_frags):
        return "ast-differs:fragments", f"sent fragments {sorted(d.name.value for d in sfrags)} != reachable {sorted(want_frags)}"
    if len(sent.definitions) != 1 + len(sfrags):
        return "ast-differs:other", "definitions other than one operation and fragments"
    undo_typename(sops[0].selection_set, want_op.selection_set)
    if plain(sops[0]) != plain(want_op):
        return diff_signature(plain(sops[0]), plain(want_op)), f"operation {op} differs after undoing the rewrites"
    for d in sfrags:
        w = want_frags[d.name.value]
        undo_typename(d.selection_set, w.selection_set)
        if plain(d) != plain(w):
            return diff_signature(plain(d), plain(w)), f"fragment {d.name.value} differs after undoing the rewrites"
    return None


def _strings_blanked(x: Any) -> Any:
    if isinstance(x, dict):
        if x.get("kind") == "string_value":
            return {"kind": "string_value"}
        return {k: _strings_blanked(v) for k, v in x.items()}
    if isinstance(x, list):
        return [_strings_blanked(v) for v in x]
    return x


def diff_signature(got: Any, want: Any) -> str:
    return "ast-differs:literal" if _strings_blanked(got) == _strings_blanked(want) else "ast-differs:other"
