"""C02 — the document sent is the document written.

Tie (DESIGN.md §3 C02):
  (a) sent-document model  `Ariadne.OpText.addOperation` (Model/OpText.lean on top of Model/ResultTypes.lean)
      vs the REAL `ResultTypesGenerator.get_operation_as_str()` for every operation of seeded random
      (schema, operations, fragments) documents, processed in `add_operation` order with the in-place
      `__typename` marks threaded: related set, sorted order, the printed document (parsed back with
      graphql-core and reduced to the model's document IR), the generator state, the trigger flags; three document
      generators: random schemas (one fresh fragment per spread), the family of overlapping interfaces, and SHARED
      fragment graphs (`gen_graph_case`: spreads pick from a pool, so one fragment is inherited / unpacked / dropped at
      different positions and reached along several paths; the shapes reached are counted as `…:graph: …`);
  (b) embedding model `Ariadne.Embed.embed` + `Spec/PyStr.lean` vs the REAL
      `ClientGenerator._generate_operation_str_assign` -> `ast_to_str(module, multiline_strings=True)` ->
      `ast.parse` of the emitted module (and `ExtractOperationsPlugin._get_operations_module/_module_to_str`),
      on seeded random operation texts; plus the CPython reference semantics (`splitlines`, `repr`,
      `textwrap.indent`, triple-quoted literal evaluation) against the running interpreter;
  (c) the text-trigger regions: inside `textEscN` and `textLineSep` the model ANSWERS (it is exact on every text
      without `'` and triple double quotes; Properties/C02.lean `embed_described`) and is compared with the real pipeline like on
      safe texts — unparsed constants, rewritten literal, the value Python reads back — and its closed form
      `describedSent` with what the real pipeline sends; inside `textQuote` and `textBlockString` (model answers
      `.unmodelled`) only "does the real pipeline preserve the text" is observed, to keep the findings confirmed.
Oracle (the property itself, through the real generated client, `e2e.run_case`): the captured `query` parses,
validates against the USER's schema (no injected @mixin) under `specified_rules`, `operationName` names its single
operation, and after undoing the two documented rewrites it is AST-equal (graphql-core nodes, locations ignored)
to the authored operation followed by exactly the reachable fragment definitions — with and without
ExtractOperationsPlugin (then the constants of the operations module are judged the same way).
"""
from __future__ import annotations

import ast
import copy
import json
import random
from pathlib import Path
from types import SimpleNamespace
from typing import Any, Dict, List, Optional, Tuple

from . import common, e2e, engine, gqlwire, obs_result
from .common import Ctx, Failure, LeanStatus, Mismatch, Result
from .gen import ops_gen, schema_gen, values

PROP = "C02"
TYPENAME = "__typename"
MIXIN = "mixin"
TEXT_TRIGGERS = ("textBlockString", "textQuote", "textEscN", "textLineSep")
TEXT_DECLINED = ("textBlockString", "textQuote")  # twin of Ariadne.Embed.Trig.declined: the model answers `.unmodelled`
LINE_SEPS = "\n\r\x0b\x0c\x1c\x1d\x1e\x85\u2028\u2029"


def fingerprint_items() -> List[Tuple[str, Optional[str]]]:
    rt = "ariadne_codegen/client_generators/result_types.py"
    return [
        (rt, "ResultTypesGenerator.get_operation_as_str"),
        (rt, "ResultTypesGenerator._get_all_related_fragments"),
        (rt, "ResultTypesGenerator._get_fragments_names"),
        (rt, "ResultTypesGenerator._get_node_without_mixin_directive"),
        (rt, "ResultTypesGenerator._add_typename_field_to_selections"),
        (rt, "ResultTypesGenerator._resolve_selection_set"),
        (rt, "ResultTypesGenerator._unpack_fragment"),
        (rt, "ResultTypesGenerator._parse_type_definition"),
        ("ariadne_codegen/client_generators/client.py", "ClientGenerator._generate_operation_str_assign"),
        ("ariadne_codegen/client_generators/client.py", "ClientGenerator._generate_execute_call"),
        ("ariadne_codegen/client_generators/package.py", "PackageGenerator.add_operation"),
        ("ariadne_codegen/utils.py", "ast_to_str"),
        ("ariadne_codegen/utils.py", "format_multiline_strings"),
        ("ariadne_codegen/utils.py", "convert_to_multiline_string"),
        ("ariadne_codegen/utils.py", "get_variable_indent_size"),
        ("ariadne_codegen/contrib/extract_operations.py", "ExtractOperationsPlugin.generate_operation_str"),
        ("ariadne_codegen/contrib/extract_operations.py", "ExtractOperationsPlugin._get_operations_module"),
        ("ariadne_codegen/contrib/extract_operations.py", "ExtractOperationsPlugin._module_to_str"),
        ("ariadne_codegen/contrib/extract_operations.py", "ExtractOperationsPlugin.generate_client_method"),
        ("ariadne_codegen/schema.py", "add_mixin_directive_to_schema"),
    ]


# --------------------------------------------------------------------------------------------
# text triggers (Python twin of Ariadne.Embed.trigger)
# --------------------------------------------------------------------------------------------


def text_trigger(q: str) -> Optional[str]:
    if '"""' in q:
        return "textBlockString"
    if "'" in q:
        return "textQuote"
    if "\\n" in q:
        return "textEscN"
    if any(c in q for c in LINE_SEPS[1:]):
        return "textLineSep"
    return None


def expected_sent(k: int, q: str) -> str:
    """the re-indented text a correct embedding hands to the transport (twin of Ariadne.Embed.expectedSent)"""
    out = "\n"
    lines = q.split("\n")  # a correct embedding keeps every character of a line: only \n ends a line
    if lines and lines[-1] == "":
        lines.pop()
    for l in lines:
        out += (l if all(c == " " for c in l) else " " * k + l) + "\n"
    return out + " " * k


def cps(s: str) -> List[int]:
    return [ord(c) for c in s]


def uncps(xs: Optional[List[int]]) -> Optional[str]:
    return None if xs is None else "".join(chr(c) for c in xs)


def nonprintable(s: str) -> List[int]:
    return sorted({ord(c) for c in s if ord(c) >= 128 and not c.isprintable()})


# --------------------------------------------------------------------------------------------
# graphql-core documents -> the model's document IR; oracle helpers
# --------------------------------------------------------------------------------------------


def sel_ir(ss: Any) -> List[Dict[str, Any]]:
    from graphql import FieldNode, FragmentSpreadNode, InlineFragmentNode

    out: List[Dict[str, Any]] = []
    if ss is None:
        return out
    for s in ss.selections:
        if isinstance(s, FieldNode):
            out.append({"k": "field", "alias": s.alias.value if s.alias else None, "name": s.name.value,
                        "dirs": gqlwire.directives_to_json(s.directives), "sel": sel_ir(s.selection_set)})
        elif isinstance(s, FragmentSpreadNode):
            out.append({"k": "spread", "name": s.name.value, "dirs": gqlwire.directives_to_json(s.directives)})
        elif isinstance(s, InlineFragmentNode):
            out.append({"k": "inline", "on": s.type_condition.name.value if s.type_condition else None,
                        "dirs": gqlwire.directives_to_json(s.directives), "sel": sel_ir(s.selection_set)})
    return out


def doc_ir(doc: Any) -> Dict[str, Any]:
    """first operation + fragment definitions IN DOCUMENT ORDER, reduced to what the model's `Doc` carries"""
    from graphql import FragmentDefinitionNode, OperationDefinitionNode

    ops, frags = [], []
    for d in doc.definitions:
        if isinstance(d, OperationDefinitionNode):
            ops.append({"kind": d.operation.value, "name": d.name.value if d.name else None,
                        "dirs": gqlwire.directives_to_json(d.directives), "sel": sel_ir(d.selection_set)})
        elif isinstance(d, FragmentDefinitionNode):
            frags.append({"name": d.name.value, "on": d.type_condition.name.value,
                          "dirs": gqlwire.directives_to_json(d.directives), "sel": sel_ir(d.selection_set)})
    return {"ops": ops, "frags": frags}


def strip_sids(x: Any) -> Any:
    if isinstance(x, dict):
        return {k: strip_sids(v) for k, v in x.items() if k not in ("sid", "vars")}
    if isinstance(x, list):
        return [strip_sids(v) for v in x]
    return x


def direct_spreads(sel: List[Dict[str, Any]]) -> List[str]:
    out: List[str] = []
    for s in sel:
        if s["k"] == "spread":
            out.append(s["name"])
        else:
            out += direct_spreads(s.get("sel", []))
    return out


def reachable(sel: List[Dict[str, Any]], frags: Dict[str, Dict[str, Any]]) -> List[str]:
    seen: List[str] = []
    todo = list(direct_spreads(sel))
    while todo:
        n = todo.pop(0)
        if n in seen or n not in frags:
            continue
        seen.append(n)
        todo += direct_spreads(frags[n]["sel"])
    return seen


def spread_occurrences(sel: List[Dict[str, Any]], frags: Dict[str, Dict[str, Any]]) -> Dict[str, int]:
    """how many spreads of each fragment are written in the operation and in the fragments reachable from it"""
    occ: Dict[str, int] = {}
    for n in direct_spreads(sel):
        occ[n] = occ.get(n, 0) + 1
    for r in reachable(sel, frags):
        for n in direct_spreads(frags[r]["sel"]):
            occ[n] = occ.get(n, 0) + 1
    return occ


def walked_from(mixins: List[str], frags: Dict[str, Dict[str, Any]]) -> set:
    """names the loop of `_get_all_related_fragments` meets below the inherited fragments"""
    out: set = set()
    for m in mixins:
        if m in frags:
            out |= set(reachable(frags[m]["sel"], frags))
    return out


def related_visited_once(mixins: List[str], unpacked: List[str], frags: Dict[str, Dict[str, Any]]) -> set:
    """COVERAGE MEASURE only (never compared with the implementation): the related set a closure walk would compute if
    it treated every name the generator registered (inherited or unpacked) as already visited.  Where it differs from
    the real related set, the input distinguishes "registered" from "walked"."""
    names = set(mixins) | set(unpacked)

    def walk(sel: List[Dict[str, Any]]) -> None:
        for s in sel:
            if s["k"] == "spread":
                if s["name"] not in names and s["name"] in frags:
                    names.add(s["name"])
                    walk(frags[s["name"]]["sel"])
            else:
                walk(s.get("sel", []))

    for m in mixins:
        if m in frags:
            walk(frags[m]["sel"])
    return names


def plain(node: Any) -> Any:
    from graphql.utilities import ast_to_dict

    return ast_to_dict(node, locations=False)


def is_plain_typename(sel: Any) -> bool:
    from graphql import FieldNode

    return (isinstance(sel, FieldNode) and sel.name.value == TYPENAME and sel.alias is None and not sel.arguments
            and not sel.directives and sel.selection_set is None)


def names_typename(sel: Any) -> bool:
    from graphql import FieldNode

    return isinstance(sel, FieldNode) and sel.name.value == TYPENAME


def strip_mixin_everywhere(node: Any) -> Any:
    """the documented rewrite "removal of the codegen-only @mixin directive", undone on the AUTHORED side:
    the expected document is the authored one without any @mixin"""
    from graphql import Visitor, visit

    class V(Visitor):
        def enter(self, n: Any, *_: Any) -> Any:
            if getattr(n, "directives", None):
                n.directives = tuple(d for d in n.directives if d.name.value != MIXIN)
            return None

    c = copy.deepcopy(node)
    visit(c, V())
    return c


def undo_typename(sent_ss: Any, auth_ss: Any) -> None:
    """in place on the SENT selection set: remove exactly one leading automatic `__typename` where the authored
    selection set had none (DESIGN.md §3.0), then descend pairwise"""
    if sent_ss is None or auth_ss is None:
        return
    s, a = list(sent_ss.selections), list(auth_ss.selections)
    if len(s) == len(a) + 1 and is_plain_typename(s[0]) and not any(names_typename(x) for x in a):
        s = s[1:]
        sent_ss.selections = tuple(s)
    for x, y in zip(s, a):
        if type(x) is type(y) and getattr(x, "selection_set", None) is not None:
            undo_typename(x.selection_set, getattr(y, "selection_set", None))


def classify_validation(msg: str) -> str:
    if msg.startswith("Unknown directive"):
        return "sent-invalid-unknown-directive"
    if msg.startswith("Unknown fragment"):
        return "sent-invalid-unknown-fragment"
    return "sent-invalid-other"


class Authored:
    """the authored document of a case, parsed once (locations dropped)"""

    def __init__(self, sdl: str, queries: str) -> None:
        from graphql import FragmentDefinitionNode, OperationDefinitionNode, build_schema, parse

        self.schema = build_schema(sdl)  # the USER's schema: no @mixin directive injected
        self.doc = parse(queries, no_location=True)
        self.ops = {d.name.value: d for d in self.doc.definitions if isinstance(d, OperationDefinitionNode) and d.name}
        self.frags = {d.name.value: d for d in self.doc.definitions if isinstance(d, FragmentDefinitionNode)}
        ir = doc_ir(self.doc)
        self.ir_ops = {o["name"]: o for o in ir["ops"]}
        self.ir_frags = {f["name"]: f for f in ir["frags"]}

    def reachable(self, op: str) -> List[str]:
        return reachable(self.ir_ops[op]["sel"], self.ir_frags)

    def printed(self, op: str) -> str:
        """graphql-core's own print of the authored operation + reachable fragments: the text whose literal
        contents decide the text triggers (independent of ariadne-codegen)"""
        from graphql import print_ast

        return "\n\n".join([print_ast(self.ops[op])] + [print_ast(self.frags[n]) for n in sorted(self.reachable(op))])

    def mixin_on_reachable_fragment(self, op: str) -> bool:
        return any(any(d["name"] == MIXIN for d in self.ir_frags[n]["dirs"]) for n in self.reachable(op))


def judge_text(auth: Authored, op: str, text: Any, operation_name: Any, check_name: bool = True) -> Optional[Tuple[str, str]]:
    """The property for ONE operation text (the `query` handed to the transport, or a constant of the
    operations module).  Returns (signature, detail) of the first clause that fails, or None."""
    from graphql import FragmentDefinitionNode, GraphQLError, OperationDefinitionNode, parse, specified_rules, validate

    if not isinstance(text, str):
        return "sent-not-a-string", repr(text)[:100]
    try:
        sent = parse(text, no_location=True)
    except GraphQLError as e:
        return "sent-does-not-parse", e.message[:160]
    errs = validate(auth.schema, sent, specified_rules)
    if errs:
        return classify_validation(errs[0].message), errs[0].message[:160]
    sops = [d for d in sent.definitions if isinstance(d, OperationDefinitionNode)]
    if len(sops) != 1:
        return "not-exactly-one-operation", f"{len(sops)} operations"
    if check_name and (sops[0].name is None or operation_name != sops[0].name.value):
        return "operation-name-mismatch", f"operationName={operation_name!r} operation={sops[0].name.value if sops[0].name else None!r}"
    if sops[0].name is None or sops[0].name.value != op or sent.definitions[0] is not sops[0]:
        return "ast-differs:operation", "the first definition is not the authored operation"
    want_op = strip_mixin_everywhere(auth.ops[op])
    want_frags = {n: strip_mixin_everywhere(auth.frags[n]) for n in auth.reachable(op)}
    sfrags = [d for d in sent.definitions if isinstance(d, FragmentDefinitionNode)]
    if sorted(d.name.value for d in sfrags) != sorted(want_frags):
        return "ast-differs:fragments", f"sent fragments {sorted(d.name.value for d in sfrags)} != reachable {sorted(want_frags)}"
    if len(sent.definitions) != 1 + len(sfrags):
        return "ast-differs:other", "definitions other than one operation and fragments"
    undo_typename(sops[0].selection_set, want_op.selection_set)
    if plain(sops[0]) != plain(want_op):
        return diff_signature(plain(sops[0]), plain(want_op)), f"operation {op} differs after undoing the rewrites"
    for d in sfrags:
        w = want_frags[d.name.value]
        undo_typename(d.selection_set, w.selection_set)
        if plain(d) != plain(w):
            return diff_signature(plain(d), plain(w)), f"fragment {d.name.value} differs after undoing the rewrites"
    return None


def _strings_blanked(x: Any) -> Any:
    if isinstance(x, dict):
        if x.get("kind") == "string_value":
            return {"kind": "string_value"}
        return {k: _strings_blanked(v) for k, v in x.items()}
    if isinstance(x, list):
        return [_strings_blanked(v) for v in x]
    return x


def diff_signature(got: Any, want: Any) -> str:
    return "ast-differs:literal" if _strings_blanked(got) == _strings_blanked(want) else "ast-differs:other"


# --------------------------------------------------------------------------------------------
# the oracle through the real generated client
# --------------------------------------------------------------------------------------------

EXTRACT_PLUGIN = "ariadne_codegen.contrib.extract_operations.ExtractOperationsPlugin"


def operations_constants(source: str) -> Dict[str, Any]:
    """NAME_GQL -> value, from the emitted operations module (ExtractOperationsPlugin)"""
    out: Dict[str, Any] = {}
    tree = ast.parse(source)
    for st in tree.body:
        if isinstance(st, ast.Assign) and len(st.targets) == 1 and isinstance(st.targets[0], ast.Name) and st.targets[0].id != "__all__":
            try:
                out[st.targets[0].id] = ast.literal_eval(st.value)
            except Exception as e:  # noqa: BLE001
                out[st.targets[0].id] = e
    return out


def gql_constant_name(op: str) -> str:
    """ExtractOperationsPlugin's documented constant name: SNAKE_CASE_NAME + _GQL (independent re-statement)"""
    import re

    words = re.findall(r"[A-Z]?[a-z]+|[A-Z]+(?=[A-Z][a-z]|\d|\W|_|$)|\d+", op)
    return "_".join(w.lower() for w in words).upper() + "_GQL"


def case_triggers(auth: Authored, op_names: List[str], model_flags: Optional[Dict[str, Dict[str, Any]]]) -> Dict[str, List[str]]:
    """finding-trigger predicates an operation satisfies: text triggers on graphql-core's own print of the
    authored operation + reachable fragments, `mixinOnFragDef` on the authored AST, `droppedSpread` from
    the model's generator state (Ariadne.OpText.droppedSpread, evaluated by the driver)"""
    out: Dict[str, List[str]] = {}
    for op in op_names:
        t: List[str] = []
        tt = text_trigger(auth.printed(op))
        if tt:
            t.append(tt)
        if auth.mixin_on_reachable_fragment(op):
            t.append("mixinOnFragDef")
        if model_flags and model_flags.get(op, {}).get("dropped"):
            t.append("droppedSpread")
        out[op] = t
    return out


def pick_trigger(triggers: List[str], signature: str, findings: List[Dict[str, Any]]) -> Optional[str]:
    for t in triggers:
        for f in findings:
            sigs = f.get("signature")
            sigs = sigs if isinstance(sigs, list) else [sigs]
            if f.get("status") == "open" and f.get("trigger") == t and signature in sigs:
                return t
    return triggers[0] if triggers else None


def judge_e2e(case: Dict[str, Any], out: Dict[str, Any], model_flags: Optional[Dict[str, Dict[str, Any]]], res: Result,
              findings: List[Dict[str, Any]]) -> List[Failure]:
    """all clauses of the property for one generated package"""
    fails: List[Failure] = []
    auth = Authored(case["sdl"], case["queries"])
    ops = [c["op"] for c in case["calls"]]
    trig = case_triggers(auth, ops, model_flags)
    all_trig: List[str] = []
    for op in ops:
        all_trig += [t for t in trig[op] if t not in all_trig]
    inp = {k: case[k] for k in ("sdl", "queries", "config", "calls", "label") if k in case}

    def fail(sig: str, triggers: List[str], detail: str, op: Optional[str] = None) -> None:
        fails.append(Failure(sig, pick_trigger(triggers, sig, findings), {**inp, "op": op}, detail))

    if out["gen"] != "ok":
        res.count("e2e:generation:" + out["gen"])
        # a crash inside the source formatters (black / the Python parser) is the embedding breaking the module;
        # every other generation failure is C04's business, not judged here
        if out["gen"] in ("internal:InvalidInput", "internal:SyntaxError", "internal:NothingChanged", "internal:IndentationError"):
            fail("generation-internal-error", all_trig, out["gen"] + ": " + out.get("message", "")[:160])
        return fails
    if out.get("import") != "ok":
        res.count("e2e:import-failed (not judged here)")
        return fails
    extract = EXTRACT_PLUGIN in ((case.get("config") or {}).get("plugins") or [])
    consts = None
    if extract:
        src = (out.get("sources") or {}).get("operations.py")
        consts = operations_constants(src) if src is not None else None
    for call in out.get("calls", []):
        op = call["op"]
        sent = call.get("sent")
        if call.get("outcome") == "no-method":
            # no generated method carries operation_name=<this operation>: nothing can be "sent with an operationName
            # naming its single operation"
            fail("no-client-method-for-operation", trig[op], f"{op}: methods carry operation names {sorted(out.get('methods', {}))[:6]}", op)
            continue
        if sent is None:
            res.count("e2e:no-request-captured")
            fail("no-request-sent", trig[op], f"{op}: {call.get('exception')}: {call.get('message', '')[:160]}", op)
            continue
        res.count("e2e:operations-judged")
        bad = judge_text(auth, op, sent.get("query"), sent.get("operationName"))
        if bad:
            fail(bad[0], trig[op], f"{op}: {bad[1]}", op)
        elif extract:
            if consts is None or gql_constant_name(op) not in consts:
                fail("operations-constant-missing", trig[op], f"{gql_constant_name(op)} not in operations module", op)
            else:
                bad = judge_text(auth, op, consts[gql_constant_name(op)], None, check_name=False)
                if bad:
                    fail("constant:" + bad[0], trig[op], f"{op}: {bad[1]}", op)
                elif consts[gql_constant_name(op)] != sent.get("query"):
                    fail("constant-differs-from-sent", trig[op], f"{op}: the client sends another text than the constant", op)
    return fails


# --------------------------------------------------------------------------------------------
# running the model on a case
# --------------------------------------------------------------------------------------------


def observe_case(case: Dict[str, Any]) -> Dict[str, Any]:
    """child side: the real ResultTypesGenerator per operation (obs_result), trimmed to what C02 compares"""
    obs = obs_result.observe({"sdl": case["sdl"], "queries": case["queries"], "snake": case.get("snake", True), "scalars": case.get("scalars", [])})
    defs = []
    for d in obs["defs"]:
        impl = d["impl"]
        keep = {k: impl[k] for k in ("mixins", "unpacked", "marks", "related", "opstr", "opstr_error", "error", "msg") if k in impl}
        defs.append({"kind": d["kind"], "name": d["name"], "wire": d["wire"], "impl": keep})
    return {"env": obs["env"], "defs": defs}


def model_lines(obs: Dict[str, Any]) -> Tuple[List[Dict[str, Any]], List[Dict[str, Any]]]:
    """driver lines for the operations of an observed case, marks threaded from the implementation's own
    observations (each line is then independent of the model's earlier answers)"""
    lines, defs = [], []
    marks: List[int] = []
    for d in obs["defs"]:
        if d["kind"] != "op":
            continue
        lines.append({"op": "sentDoc", **obs["env"], "operation": d["wire"], "marksIn": sorted(marks)})
        defs.append(d)
        if "error" in d["impl"]:
            # the real pipeline aborts at the first operation that raises; the failed operation may already have
            # inserted `__typename` into shared fragment ASTs, so later operations of this document are no behaviour
            # of ariadne-codegen: not compared (same rule as rt_common.class_ir_correspondence)
            break
        for m in d["impl"].get("marks", []) or []:
            if m > 0 and m not in marks:
                marks.append(m)
    return lines, defs


def graph_shape(op_sel: List[Dict[str, Any]], frs: Dict[str, Dict[str, Any]], impl: Dict[str, Any], dropped: bool, res: Result, what: str) -> None:
    """shape of the fragment GRAPH of one operation (measured, see gen_graph_case): sharing, and the closure walk
    re-entering fragments the generator registered somewhere else"""
    related = set(impl["related"])
    occ = spread_occurrences(op_sel, frs)
    if any(v > 1 for v in occ.values()):
        res.count(f"{what}:graph: a fragment is spread at >= 2 places reachable from the operation")
    walked = walked_from(impl["mixins"], frs)
    if set(impl["unpacked"]) & walked:
        res.count(f"{what}:graph: a fragment is unpacked at one position and reached through an inherited fragment at another")
    if set(impl["mixins"]) & set(impl["unpacked"]):
        res.count(f"{what}:graph: a fragment is both inherited and unpacked")
    if related_visited_once(impl["mixins"], impl["unpacked"], frs) != related:
        res.count(f"{what}:graph: the closure walk must re-enter a fragment the generator already registered (a walk that visits each registered name once loses a fragment)")
    if dropped is False and any(not set(direct_spreads(frs[u]["sel"])) <= set(impl["mixins"]) | set(impl["unpacked"]) for u in impl["unpacked"] if u in frs):
        res.count(f"{what}:graph: a spread dropped where its fragment was unpacked is supplied by the closure walk (not in the trigger)")
    if parent_iface_at_child_iface(op_sel, frs) & set(impl["unpacked"]):
        res.count(f"{what}:graph: a fragment on a parent interface is unpacked at a position typed as an interface implementing it")


def parent_iface_at_child_iface(op_sel: List[Dict[str, Any]], frs: Dict[str, Dict[str, Any]]) -> set:
    """COVERAGE MEASURE for documents over GRAPH_SDL (field names are unique per type there): fragments on `Node` spread
    directly in the selection set of a field typed `Resource` (interface Resource implements Node)"""
    field_type = {f: t for f, t in GRAPH_ROOTS}
    for fs in GRAPH_COMPOSITE.values():
        field_type.update(dict(fs))
    out: set = set()
    seen: set = set()

    def walk(sel: List[Dict[str, Any]], at_resource: bool) -> None:
        for s in sel:
            if s["k"] == "spread":
                f = frs.get(s["name"])
                if f is None:
                    continue
                if at_resource and f["on"] == "Node":
                    out.add(s["name"])
                if (s["name"], at_resource) not in seen:
                    seen.add((s["name"], at_resource))
                    walk(f["sel"], at_resource and f["on"] in ("Node", "Resource"))
            elif s["k"] == "inline":
                walk(s.get("sel", []), at_resource and s.get("on") in ("Node", "Resource"))
            else:
                walk(s.get("sel", []), field_type.get(s["name"]) == "Resource")

    walk(op_sel, False)
    return out


def compare_sent_doc(case_label: Any, d: Dict[str, Any], marks_in: List[int], model: Dict[str, Any], frag_wires: Dict[str, Any],
                     res: Result) -> None:
    """correspondence (a) for one operation"""
    from graphql import parse

    impl = d["impl"]
    name = d["name"]
    inp = {"case": case_label, "operation": name}
    if "error" in impl:
        res.count("sentdoc:generator-error:" + impl["error"])
        if "gen" not in model or model["gen"].get("error") != impl["error"]:
            res.mismatches.append(Mismatch("sentDoc.generator-error", inp, impl["error"], model.get("gen", "ok")))
        return
    if "gen" in model:
        res.mismatches.append(Mismatch("sentDoc.generator-error", inp, "ok", model["gen"]))
        return
    new_marks = sorted(m for m in model["marks"] if m not in marks_in)
    state_impl = {"mixins": sorted(impl["mixins"]), "unpacked": sorted(impl["unpacked"]), "marks": sorted(impl["marks"])}
    state_model = {"mixins": sorted(model["mixins"]), "unpacked": sorted(model["unpacked"]), "marks": new_marks}
    if state_impl != state_model:
        res.mismatches.append(Mismatch("sentDoc.generator-state", inp, state_impl, state_model))
        return
    if "opstr_error" in impl:
        res.count("sentdoc:opstr-error:" + impl["opstr_error"]["error"])
        if model.get("opstr", {}).get("error") != impl["opstr_error"]["error"]:
            res.mismatches.append(Mismatch("sentDoc.opstr-error", inp, impl["opstr_error"], model.get("opstr", "ok")))
        return
    if "opstr" in model:
        res.mismatches.append(Mismatch("sentDoc.opstr-error", inp, "ok", model["opstr"]))
        return
    if sorted(impl["related"]) != sorted(model["related"]):
        res.mismatches.append(Mismatch("sentDoc.related", inp, sorted(impl["related"]), sorted(model["related"])))
        return
    ir = doc_ir(parse(impl["opstr"], no_location=True))
    got = {"op": ir["ops"][0] if len(ir["ops"]) == 1 else ir["ops"], "frags": ir["frags"]}
    if not common.same_json(got, model["doc"]):
        res.mismatches.append(Mismatch("sentDoc.document", inp, got, model["doc"]))
        return
    # the trigger predicates exist twice: python twins vs the model's flags
    op_sel = strip_sids(d["wire"])["sel"]
    frs = {n: strip_sids(w) for n, w in frag_wires.items()}
    related = set(impl["related"])
    py_dropped = not (set(direct_spreads(op_sel)) <= related and all(set(direct_spreads(frs[u]["sel"])) <= related for u in impl["unpacked"] if u in frs))
    py_mixin = any(any(x["name"] == MIXIN for x in frs[n]["dirs"]) for n in related if n in frs)
    reach = reachable(op_sel, frs)
    py_sound = set(impl["mixins"]) <= set(reach) and set(impl["unpacked"]) <= set(reach)
    flags_py = {"dropped": py_dropped, "mixinOnFrag": py_mixin, "stateSound": py_sound, "reach": sorted(reach)}
    flags_model = {"dropped": model["dropped"], "mixinOnFrag": model["mixinOnFrag"], "stateSound": model["stateSound"],
                   "reach": sorted(model["reach"] or [])}
    if flags_py != flags_model:
        res.mismatches.append(Mismatch("sentDoc.triggers", inp, flags_py, flags_model))
    res.count("sentdoc:trigger droppedSpread" if py_dropped else "sentdoc:no dropped spread")
    if py_mixin:
        res.count("sentdoc:trigger mixinOnFragDef")
    if not py_sound:
        res.count("sentdoc:generator state NOT within reachable (contradicts generator_state_sound)")
    # the undo of the theorem is guided by the marks; the reading of the property removes a leading __typename only
    # "where the authored text had none": every marked selection set must be one without a direct __typename
    by_sid: Dict[int, List[Dict[str, Any]]] = {}

    def collect(node: Dict[str, Any]) -> None:
        if node.get("sid"):
            by_sid[node["sid"]] = node.get("sel", [])
        for x in node.get("sel", []):
            if x["k"] != "spread":
                collect(x)

    collect(d["wire"])
    for w in frag_wires.values():
        collect(w)
    stale = [m for m in impl["marks"] if m > 0 and any(x["k"] == "field" and x["name"] == TYPENAME for x in by_sid.get(m, []))]
    if stale or any(m <= 0 for m in impl["marks"]):
        res.mismatches.append(Mismatch("sentDoc.marks-fresh", inp, {"marks": impl["marks"], "stale": stale}, "marks only on selection sets without __typename"))
    graph_shape(op_sel, frs, impl, py_dropped, res, "sentdoc")
    res.count("sentdoc:related=%s" % min(len(related), 4))
    res.count("sentdoc:with automatic __typename" if state_impl["marks"] or marks_in else "sentdoc:no automatic __typename")
    if py_dropped != (set(reach) - related != set()) and py_sound:
        res.mismatches.append(Mismatch("sentDoc.trigger-is-failure-region", inp, {"dropped": py_dropped}, {"missing": sorted(set(reach) - related)}))


# --------------------------------------------------------------------------------------------
# generators
# --------------------------------------------------------------------------------------------

# GraphQL SOURCE text of string literal contents (already GraphQL-escaped), outside every trigger
LIT_SAFE = ["abc", "two words", "a # b = c", "x=1&y=2", '\\"q\\"', "\\\\", "a\\tb", "\\u00e9", "\u00e9t\u00e9", "\U0001f600", "nb\u00a0sp",
            "wide\u3000space", "zw\u200bsp", "{ } ( ) [ ] $v @d ...F", "\\b\\f\\r", "a/b", "C:\\\\dir\\\\file", "", "0", "null", "  lead",
            "trail  ", "a,b", "\u00fcn\u00ef", "\\u000b", "\\u0085", "# not a comment", "query Q { a }", "\\\\\\\\", "tab\\there", "\\\\t",
            "\u4e2d\u6587", "a\\\\", '\\"', "x\\\\ny"[:3] + "z", "\ufeff"]
# contents inside a trigger region, by trigger
LIT_TRIG = {
    "textQuote": ["it's", "'", "a'b'c", "''"],
    "textEscN": ["a\\nb", "C:\\\\new", "\\n", "x\\\\\\nb"],
    "textLineSep": ["a\u2028b", "\u2029", "p\u2028\u2029q"],
}
BLOCK_STRINGS = ['"""block"""', '"""two\n  lines"""', '"""it\'s"""']

MIXIN_DIR = {"name": "mixin", "from": "abc", "import": "ABC"}
MIXIN_SDL = "\ndirective @mixin(from: String, import: String) repeatable on FIELD | FRAGMENT_DEFINITION\n"

FRAGMENT_HEAVY = {"spread_same": 0.45, "spread_sub": 0.35, "nested_spread": 0.5, "spread_with_inline": 0.3,
                  "spread_iface_at_object": 0.3, "inline_obj": 0.6, "typename": 0.15, "alias": 0.25, "dir_field": 0.1}
REGIONS = {"spread_iface": 0.9, "dup_key": 0.08, "inline_iface": 0.1, "abstract_in_mixin": 0.3, "mixin_and_unpacked": 0.3,
           "dir_frag": 0.1}


def gql_literal(rng: random.Random, region: Optional[str]) -> str:
    if region == "textBlockString":
        return rng.choice(BLOCK_STRINGS)
    parts = [rng.choice(LIT_SAFE) for _ in range(rng.randint(1, 2))]
    if region in LIT_TRIG:
        parts.insert(rng.randint(0, len(parts)), rng.choice(LIT_TRIG[region]))
    return '"' + " ".join(parts) + '"'


def _all_fields(sel: List[Dict[str, Any]]) -> List[Dict[str, Any]]:
    out = []
    for s in sel:
        if s["k"] == "field":
            out.append(s)
        if s["k"] != "spread":
            out += _all_fields(s.get("sel", []))
    return out


def gen_case(rng: random.Random, idx: int, *, regions: bool, literal_region: Optional[str] = None, literals: float = 0.6,
             mixin_frag: float = 0.0, mixin_field: float = 0.15, subscription: bool = False) -> Optional[Dict[str, Any]]:
    """(schema, operations sharing fragments) from the shared generators, decorated with what C02 is about:
    string literals (arguments, variable defaults; in operations and in shared root fragments), @mixin on fields
    and — trigger region of F6 — on fragment definitions, unused fragments."""
    schema = schema_gen.gen_schema(rng, size=rng.choice([1, 2, 2, 3]), subscription=subscription, custom_root_names=0.1)
    tm = schema_gen.type_map(schema)
    echo = {"name": "echoStr", "type": schema_gen.named("String"),
            "args": [{"name": "s", "type": schema_gen.named("String"), "default": None},
                     {"name": "ss", "type": ["list", ["nonnull", schema_gen.named("String")]], "default": None}]}
    for r in ("query", "mutation"):
        if schema.get(r):
            tm[schema[r]]["fields"].append(dict(echo))
    feats = dict(FRAGMENT_HEAVY)
    if regions:
        for k, v in REGIONS.items():
            if rng.random() < 0.5:
                feats[k] = v
    kinds = tuple(k for k in ("query", "mutation", "subscription") if schema.get(k))
    doc = ops_gen.gen_document(schema, rng, n_ops=rng.randint(1, 4), features=feats, kinds=kinds)
    if not doc["operations"]:
        return None
    lit_n = 0
    shared_root: Dict[str, str] = {}
    for op in doc["operations"]:
        if op["kind"] == "subscription":
            continue
        root = schema[op["kind"]]
        if rng.random() < literals:
            for _ in range(rng.randint(1, 2)):
                lit_n += 1
                how = rng.random()
                region = literal_region if (literal_region and (lit_n == 1 or rng.random() < 0.3)) else None
                lit = gql_literal(rng, region)
                if how < 0.55:
                    arg = {"name": "s", "var": None, "lit": lit}
                elif how < 0.7:
                    arg = {"name": "ss", "var": None, "lit": "[" + lit + ", " + gql_literal(rng, None) + "]"}
                else:
                    v = f"strv{lit_n}"
                    op["vars"].append({"name": v, "type": schema_gen.named("String"), "default": lit})
                    arg = {"name": "s", "var": v, "lit": None}
                f = {"k": "field", "alias": f"e{lit_n}", "name": "echoStr", "args": [arg], "dirs": [], "sel": []}
                if arg["var"] is None and rng.random() < 0.3:
                    # the literal lives in a fragment on the root type, shared by the operations of that kind
                    if root not in shared_root:
                        shared_root[root] = f"RootLit{len(shared_root)}"
                        doc["fragments"].append({"name": shared_root[root], "on": root, "sel": [f], "mixins": []})
                    if not any(s["k"] == "spread" and s["name"] == shared_root[root] for s in op["sel"]):
                        op["sel"].append({"k": "spread", "name": shared_root[root], "dirs": []})
                else:
                    op["sel"].append(f)
    frags = {f["name"]: f for f in doc["fragments"]}
    for op in doc["operations"]:
        for f in _all_fields(op["sel"]):
            if f["sel"] and rng.random() < mixin_field:
                f["dirs"] = f["dirs"] + [dict(MIXIN_DIR)]
    for f in doc["fragments"]:
        for x in _all_fields(f["sel"]):
            if x["sel"] and rng.random() < mixin_field:
                x["dirs"] = x["dirs"] + [dict(MIXIN_DIR)]
        if rng.random() < mixin_frag:
            f["dirs"] = [dict(MIXIN_DIR)]
    if rng.random() < 0.25:
        objs = [t for t in schema["types"] if t["kind"] == "object" and t["fields"]]
        t = rng.choice(objs)
        leaf = [fd for fd in t["fields"] if not any(a["type"][0] == "nonnull" for a in fd.get("args", []))
                and tm.get(schema_gen.unwrap(fd["type"]), {"kind": "scalar"})["kind"] in ("scalar", "enum")]
        if leaf:
            fd = rng.choice(leaf)
            doc["fragments"].append({"name": "UnusedOne", "on": t["name"], "mixins": [],
                                     "sel": [{"k": "field", "alias": None, "name": fd["name"], "args": [], "dirs": [], "sel": []}]})
    sdl = schema_gen.to_sdl(schema)
    queries = ops_gen.render_document(doc)
    try:
        from graphql import NoUnusedFragmentsRule, build_schema, parse, specified_rules, validate

        errs = validate(build_schema(sdl + MIXIN_SDL), parse(queries), [r for r in specified_rules if r is not NoUnusedFragmentsRule])
        if errs:
            return None
    except Exception:  # noqa: BLE001 - the generators produced something graphql-core refuses: not an input
        return None
    calls = []
    for op in doc["operations"]:
        vrng = random.Random(f"{idx}:{op['name']}")
        vs = {}
        for v in op["vars"]:
            if v.get("default") is not None and vrng.random() < 0.5:
                continue
            vs[v["name"]] = values.input_value(schema, v["type"], vrng)
        calls.append({"op": op["name"], "vars": vs, "seed": idx})
    return {"label": f"random-{idx}", "sdl": sdl, "queries": queries, "config": {}, "calls": calls,
            "literal_region": literal_region, "n_ops": len(doc["operations"]), "n_frags": len(doc["fragments"])}


FAMILY_SDL = """type Query {
  node: Node
  named: Named
  search: [SR!]
  me: User
  echoStr(s: String, ss: [String!]): String
}

interface Node {
  id: ID!
}

interface Named {
  name: String
}

type User implements Node & Named {
  id: ID!
  name: String
  friend: Node
}

type Bot implements Node & Named {
  id: ID!
  name: String
  owner: User
}

type Doc implements Node {
  id: ID!
  title: String
}

union SR = User | Bot | Doc
"""
FAMILY_FIELDS = {"Node": ["id"], "Named": ["name"], "User": ["id", "name"], "Bot": ["id", "name"], "Doc": ["id", "title"], "SR": []}
FAMILY_MEMBERS = {"Node": ["User", "Bot", "Doc"], "Named": ["User", "Bot"], "SR": ["User", "Bot", "Doc"], "User": ["User"], "Bot": ["Bot"], "Doc": ["Doc"]}


# operation names whose order differs from the order of their UPPER_SNAKE constants (`GetUser` < `GetUsers` but
# `GET_USERS_GQL` < `GET_USER_GQL`; `fetchUserById` < `fetchUsers` but `FETCH_USERS_GQL` < `FETCH_USER_BY_ID_GQL`): with
# ExtractOperationsPlugin every constant must still hold the document of its own operation
ORDER_STRESS_OP_NAMES = ["GetUsers", "GetUser", "fetchUsers", "fetchUserById"]


def gen_family_case(rng: random.Random, idx: int) -> Optional[Dict[str, Any]]:
    """fragment graphs at abstract positions of a fixed schema with two overlapping interfaces and a union: spreads of
    fragments on the position's type, on members, on the OTHER interface (dropped by the generator: finding C02-F7),
    nested and shared between operations"""
    frags: List[str] = []
    n_frag = [0]

    def new_frag(on: str, depth: int) -> str:
        n_frag[0] += 1
        name = f"{rng.choice(['Fr', 'Part', 'bits'])}{n_frag[0]}"
        body = [rng.choice(FAMILY_FIELDS[on])] if FAMILY_FIELDS[on] else ["__typename"]
        if depth > 0 and rng.random() < 0.5:
            body.append("..." + new_frag(rng.choice([on] + [t for t in ("Node", "Named") if set(FAMILY_MEMBERS[t]) & set(FAMILY_MEMBERS[on])]), depth - 1))
        if on in ("Node", "Named", "SR") and rng.random() < 0.3:
            m = rng.choice(FAMILY_MEMBERS[on])
            body.append(f"... on {m} {{ {rng.choice(FAMILY_FIELDS[m])} }}")
        if on == "User" and depth > 0 and rng.random() < 0.4:
            body.append("friend { id ..." + new_frag(rng.choice(["Node", "Named", "User"]), depth - 1) + " }")
        frags.append(f"fragment {name} on {on} {{ {' '.join(body)} }}")
        return name

    positions = [("node", "Node"), ("named", "Named"), ("search", "SR"), ("me", "User")]
    ops = []
    shared: List[Tuple[str, str]] = []
    for k in range(rng.randint(1, 3)):
        field, typ = rng.choice(positions)
        sel = [rng.choice(FAMILY_FIELDS[typ])] if FAMILY_FIELDS[typ] and rng.random() < 0.7 else []
        for _ in range(rng.randint(1, 2)):
            cands = [t for t in FAMILY_MEMBERS if set(FAMILY_MEMBERS[t]) & set(FAMILY_MEMBERS[typ]) and t != "SR"] + ([typ] if typ != "SR" else [])
            on = rng.choice(cands)
            reuse = [n for n, t in shared if t == on]
            if reuse and rng.random() < 0.5:
                sel.append("..." + rng.choice(reuse))
            else:
                n = new_frag(on, 2)
                shared.append((n, on))
                sel.append("..." + n)
        if typ != "User" and rng.random() < 0.3:
            m = rng.choice(FAMILY_MEMBERS[typ])
            sel.append(f"... on {m} {{ {rng.choice(FAMILY_FIELDS[m])} }}")
        extra = ' e1: echoStr(s: "lit # 1")' if rng.random() < 0.3 else ""
        ops.append(f"query {ORDER_STRESS_OP_NAMES[k]} {{ {field} {{ {' '.join(sel)} }}{extra} }}")
    try:
        from graphql import NoUnusedFragmentsRule, build_schema, parse, print_ast, specified_rules, validate

        doc = parse("\n".join(ops + frags))
        if validate(build_schema(FAMILY_SDL), doc, [r for r in specified_rules if r is not NoUnusedFragmentsRule]):
            return None
        queries = print_ast(doc) + "\n"
    except Exception:  # noqa: BLE001
        return None
    return {"label": f"family-{idx}", "sdl": FAMILY_SDL, "queries": queries, "config": {},
            "calls": [{"op": ORDER_STRESS_OP_NAMES[k], "vars": {}, "seed": idx} for k in range(len(ops))], "n_ops": len(ops), "n_frags": len(frags)}


def gen_family_cases(rng: random.Random, n: int) -> List[Dict[str, Any]]:
    out: List[Dict[str, Any]] = []
    i = 0
    while len(out) < n and i < 30 * n + 30:
        c = gen_family_case(rng, i)
        i += 1
        if c:
            out.append(c)
    return out


GRAPH_SDL = """type Query {
  node: Node
  named: Named
  search: [SR!]
  me: User
  bot: Bot
  doc: Doc
  shelf: Shelf
  resource: Resource
  image: Image
  echoStr(s: String, ss: [String!]): String
}

interface Node {
  id: ID!
}

interface Named {
  name: String
}

interface Resource implements Node {
  id: ID!
  url: String
}

type User implements Node & Named {
  id: ID!
  name: String
  friend: Node
  pet: Named
  docs: [Doc!]
}

type Bot implements Node & Named {
  id: ID!
  name: String
  owner: User
}

type Doc implements Node {
  id: ID!
  title: String
  author: User
  refs: [Node!]
  cover: Resource
}

type Image implements Resource & Node {
  id: ID!
  url: String
  width: Int
}

type Shelf {
  id: ID!
  label: String
  items: [Node!]!
  top: Doc
  hits: [SR!]
  media: [Resource!]
}

union SR = User | Bot | Doc
"""
# `Resource implements Node`: an interface implementing an interface - a fragment on the PARENT interface spread at a position
# typed as the CHILD interface is unpacked there (is_sub_type(Node, Resource)), one on the child at a parent position is dropped
GRAPH_SCALARS = {"Node": ["id"], "Named": ["name"], "User": ["id", "name"], "Bot": ["id", "name"], "Doc": ["id", "title"], "Shelf": ["id", "label"], "SR": [],
                 "Resource": ["id", "url"], "Image": ["id", "url", "width"]}
GRAPH_MEMBERS = {"Node": ["User", "Bot", "Doc", "Image"], "Named": ["User", "Bot"], "SR": ["User", "Bot", "Doc"], "User": ["User"], "Bot": ["Bot"], "Doc": ["Doc"],
                 "Shelf": ["Shelf"], "Resource": ["Image"], "Image": ["Image"]}
GRAPH_IFACES = {"User": ["Node", "Named"], "Bot": ["Node", "Named"], "Doc": ["Node"], "Image": ["Resource", "Node"]}
GRAPH_COMPOSITE = {"User": [("friend", "Node"), ("pet", "Named"), ("docs", "Doc")], "Bot": [("owner", "User")],
                   "Doc": [("author", "User"), ("refs", "Node"), ("cover", "Resource")],
                   "Shelf": [("items", "Node"), ("top", "Doc"), ("hits", "SR"), ("media", "Resource")]}
GRAPH_ROOTS = [("node", "Node"), ("named", "Named"), ("search", "SR"), ("me", "User"), ("bot", "Bot"), ("doc", "Doc"), ("shelf", "Shelf"),
               ("resource", "Resource"), ("image", "Image")]


def gen_graph_case(rng: random.Random, idx: int, plant: float = 0.5) -> Optional[Dict[str, Any]]:
    """SHARED fragment graphs: a pool of fragments is written first (a DAG: a fragment spreads earlier ones), then every
    spread - in operations, in fragments, inside inline fragments, under nested fields - PICKS from the pool by type
    compatibility.  So one fragment is spread at several positions of different kinds (its own type: inherited; a
    concrete member of its interface/union: unpacked, inline fragments on sibling types skipped; an overlapping
    interface: dropped), within one operation and across operations, and is reached along several paths (diamonds).
    The other generators mint a fresh fragment per spread and never produce this.  With probability `plant` the first
    operation is given two paths to one fragment on purpose (see below); everything around it stays random."""
    pool: List[Tuple[str, str]] = []  # (name, on)
    texts: List[str] = []
    used: List[str] = []  # fragments already spread in the definition being written, and in the ones before it

    reserved: set = set()  # not picked by random spreads while the planted operation is written

    def compatible(t: str) -> List[str]:
        return [n for n, on in pool if n not in reserved and set(GRAPH_MEMBERS[on]) & set(GRAPH_MEMBERS[t])]

    def body(t: str, depth: int, p_spread: float) -> str:
        parts: List[str] = []
        sc = GRAPH_SCALARS[t]
        if sc:
            parts += rng.sample(sc, rng.randint(0 if depth < 2 else 1, len(sc)))
        if rng.random() < 0.1:
            parts.insert(rng.randint(0, len(parts)), "__typename")
        for _ in range(2):
            c = compatible(t)
            if c and rng.random() < p_spread:
                again = [n for n in c if n in used]
                pick = rng.choice(again) if again and rng.random() < 0.6 else rng.choice(c)
                used.append(pick)
                s = "..." + pick
                if s not in parts:
                    parts.append(s)
            p_spread *= 0.4
        if len(GRAPH_MEMBERS[t]) > 1:
            for m in rng.sample(GRAPH_MEMBERS[t], rng.randint(0, 2)):
                parts.append(f"... on {m} {{ {body(m, depth - 1, 0.6)} }}")
        elif t == "Resource" and rng.random() < 0.4:  # an abstract type with one member
            parts.append(f"... on Image {{ {body('Image', depth - 1, 0.6)} }}")
        elif t in GRAPH_IFACES and rng.random() < 0.2:
            # an inline fragment on an IMPLEMENTED INTERFACE inside an object selection, preferably holding spreads: it is
            # resolved with the interface as root type, so a fragment on that interface spread inside it is inherited
            # (and the closure walk below it supplies what that fragment spreads on other abstract types)
            i = rng.choice(GRAPH_IFACES[t])
            parts.append(f"... on {i} {{ {body(i, 0, 0.85)} }}")
        if depth > 0:
            for f, ft in GRAPH_COMPOSITE.get(t, []):
                if rng.random() < 0.3:
                    parts.append(f"{f} {{ {body(ft, depth - 1, 0.6)} }}")
        if not parts:
            parts.append(rng.choice(sc) if sc else "__typename")
        rng.shuffle(parts)
        return " ".join(parts)

    def add_fragment(on: str, text: str) -> str:
        name = f"{rng.choice(['G', 'Piece', 'shared'])}{len(pool)}"
        texts.append(f"fragment {name} on {on} {{ {text} }}")
        pool.append((name, on))
        return name

    def scalars(t: str) -> str:
        return " ".join(rng.sample(GRAPH_SCALARS[t], rng.randint(1, len(GRAPH_SCALARS[t])))) if GRAPH_SCALARS[t] else "__typename"

    types = ["Node", "Node", "Named", "User", "User", "Bot", "Doc", "Doc", "Shelf", "SR", "Resource", "Image"]
    root_of = {t: f for f, t in GRAPH_ROOTS}
    planted: Dict[str, List[str]] = {}  # root field -> spreads the first operation must carry there
    s_name = None
    if rng.random() < plant:
        # TWO PATHS to one fragment U: registered only in part where it is unpacked (a spread of S inside it is not
        # followed there), and walked in full below an inherited fragment W
        if rng.random() < 0.6:
            # U on an abstract type, `... on M1 { ...S }` inside; spread at a position of the sibling member M2
            a = rng.choice(["Node", "Named", "SR"])
            m1, m2 = rng.sample(GRAPH_MEMBERS[a], 2)
            s_name = add_fragment(m1, scalars(m1))
            u_name = add_fragment(a, " ".join(rng.sample([scalars(a), f"... on {m1} {{ {rng.choice(['', scalars(m1) + ' '])}...{s_name} }}"], 2)))
            planted.setdefault(root_of[m2], []).append(u_name)
        else:
            # U on Node with an inline fragment (unpacked at a Node position), `...S` with S on the overlapping interface
            s_name = add_fragment("Named", "name")
            m = "Doc" if rng.random() < 0.8 else rng.choice(GRAPH_MEMBERS["Node"])  # a member class of a type inside Named would register S
            u_name = add_fragment("Node", " ".join(rng.sample(["id", f"...{s_name}", f"... on {m} {{ {scalars(m)} }}"], 3)))
            a = "Node"
            planted.setdefault("node", []).append(u_name)
        holders = [(t, f) for t, fs in GRAPH_COMPOSITE.items() for f, ft in fs if set(GRAPH_MEMBERS[ft]) & set(GRAPH_MEMBERS[a])]
        t, f = rng.choice(holders)
        for _ in range(rng.randint(0, 2)):
            on = rng.choice(types)
            add_fragment(on, body(on, rng.choice([0, 1]), 0.55))
        w_name = add_fragment(t, " ".join(rng.sample([scalars(t), f"{f} {{ {rng.choice(['', 'id '] if f != 'pet' else ['', 'name '])}...{u_name} }}"], 2)))
        planted.setdefault(root_of[t], []).append(w_name)
    for k in range(rng.randint(1 if planted else 2, 4 if planted else 6)):
        on = rng.choice(types)
        add_fragment(on, body(on, rng.choice([0, 1, 1, 2]), 0.55))
    ops = []
    for k in range(rng.randint(1, 3)):
        mine = planted if k == 0 else {}
        reserved = {s_name} if mine and rng.random() < 0.8 else set()
        roots = [r for r in GRAPH_ROOTS if r[0] in mine] + rng.sample([r for r in GRAPH_ROOTS if r[0] not in mine], rng.randint(0 if mine else 1, 2))
        rng.shuffle(roots)
        sel = []
        for f, t in roots:
            parts = [f"...{n}" for n in mine.get(f, [])]
            if not parts or rng.random() < 0.5:
                parts.append(body(t, rng.choice([1, 2]), 0.9 if not parts else 0.3))
            rng.shuffle(parts)
            sel.append(f"{f} {{ {' '.join(parts)} }}")
        if rng.random() < 0.2:
            sel.append('e1: echoStr(s: "lit # 1")')
        ops.append(f"query {ORDER_STRESS_OP_NAMES[k]} {{ {' '.join(sel)} }}")
    try:
        from graphql import NoUnusedFragmentsRule, build_schema, parse, print_ast, specified_rules, validate

        doc = parse("\n".join(ops + texts))
        if validate(build_schema(GRAPH_SDL), doc, [r for r in specified_rules if r is not NoUnusedFragmentsRule]):
            return None
        queries = print_ast(doc) + "\n"
    except Exception:  # noqa: BLE001
        return None
    return {"label": f"graph-{idx}", "sdl": GRAPH_SDL, "queries": queries, "config": {},
            "calls": [{"op": ORDER_STRESS_OP_NAMES[k], "vars": {}, "seed": idx} for k in range(len(ops))], "n_ops": len(ops), "n_frags": len(texts)}


def gen_graph_cases(rng: random.Random, n: int) -> List[Dict[str, Any]]:
    out: List[Dict[str, Any]] = []
    i = 0
    while len(out) < n and i < 30 * n + 30:
        c = gen_graph_case(rng, i)
        i += 1
        if c:
            out.append(c)
    return out


# ---- operation TEXTS for the embedding correspondence

TEXT_ALPHABET_SAFE = list("abcnrtux QZ09_{}()[]:,$@!|&=#.\"/-") + ["\\", "\\\\", "\\\"", "\\t", "\\u00e9", "\\b", "  ", "\t", "\u00e9", "\u00a0", "\u3000",
                                                                 "\u200b", "\U0001f600", "\u4e2d", "\x7f", "\x01", "\x1f", "\ufeff", "\u0378", "\ue000",
                                                                 "\U000e0001", "\\x", "\\u", "\\N", "\\0", "\"\""]
TEXT_UNSAFE = {"textQuote": ['"\'"', '"it\'s"', '"\\\'"'], "textEscN": ["\\n", "\\\\n"], "textBlockString": ['"""', '""""'],
               "textLineSep": ["\u2028", "\u2029", "\r", "\x0b", "\x0c", "\x1c", "\x1d", "\x1e", "\x85", "\r\n"]}


def gen_text(rng: random.Random, region: Optional[str]) -> str:
    """a text shaped like a printed operation (several lines, blank lines between definitions) over an
    alphabet that stresses the embedding"""
    lines = []
    for _ in range(rng.randint(2, 6)):  # a printed operation has at least three lines; one line alone is not rewritten at all
        if rng.random() < 0.12:
            lines.append("" if rng.random() < 0.7 else "  ")
            continue
        line = "  " * rng.randint(0, 3)
        for _ in range(rng.randint(1, 8)):
            line += rng.choice(TEXT_ALPHABET_SAFE)
        lines.append(line)
    q = "\n".join(lines)
    if rng.random() < 0.2:
        q += "\n"
    # the safe alphabet can assemble a trigger by accident (`\` + `n`, `"` * 3): classification decides, not intent
    if region:
        pos = rng.randint(0, len(q))
        q = q[:pos] + rng.choice(TEXT_UNSAFE[region]) + q[pos:]
    if len(q.splitlines()) < 2:
        q += "\n}"
    return q


REAL_TEXTS = [
    'query Q {\n  echo(s: "abc")\n}',
    'query GetUser($id: ID!, $flag: Boolean! = false) {\n  user(id: $id) {\n    __typename\n    id\n    ...F\n  }\n}\n\nfragment F on User {\n  name @include(if: $flag)\n}',
    'mutation M {\n  a: echo(s: "x # y = z")\n  b: echo(s: "\\"q\\" \\\\ \\t \\u000B")\n}',
    'query Q {\n  echo(s: "\u00e9 \u00a0 \u3000 \u200b \U0001f600")\n}',
    "subscription S {\n  ticks\n}",
]


# --------------------------------------------------------------------------------------------
# the REAL embedding pipeline on one operation text
# --------------------------------------------------------------------------------------------


def _find_constant(tree: ast.AST, target: str) -> Any:
    for node in ast.walk(tree):
        if isinstance(node, ast.Assign) and len(node.targets) == 1 and isinstance(node.targets[0], ast.Name) and node.targets[0].id == target:
            v = node.value
            if isinstance(v, ast.Call) and len(v.args) == 1:
                v = v.args[0]
            return ast.literal_eval(v)
    raise LookupError(target)


def _literal_of(source: str) -> Optional[str]:
    i = source.find('"""')
    j = source.rfind('"""')
    return source[i : j + 3] if 0 <= i < j else None


def real_embed(text: str, variant: str) -> Dict[str, Any]:
    """variant "client": ClientGenerator._generate_operation_str_assign inside a method of a class, through
    ast_to_str(module, multiline_strings=True) exactly as PackageGenerator writes client.py;
    variant "extract": ExtractOperationsPlugin._get_operations_module + _module_to_str."""
    from ariadne_codegen.utils import ast_to_str, format_multiline_strings

    out: Dict[str, Any] = {}
    try:
        if variant == "client":
            from ariadne_codegen.client_generators.client import ClientGenerator

            stub = SimpleNamespace(_operation_str_variable="query", _gql_func_name="gql")
            assign = ClientGenerator._generate_operation_str_assign(stub, {"query": "query"}, text, 1)  # type: ignore[arg-type]
            fn = ast.FunctionDef(name="m", args=ast.arguments(posonlyargs=[], args=[ast.arg(arg="self")], kwonlyargs=[], kw_defaults=[], defaults=[]),
                                 body=[assign, ast.Return(value=ast.Name(id="query", ctx=ast.Load()))], decorator_list=[], lineno=1)
            cls = ast.ClassDef(name="Client", bases=[], keywords=[], body=[fn], decorator_list=[])
            module = ast.fix_missing_locations(ast.Module(body=[cls], type_ignores=[]))
            unparsed = ast.unparse(assign.value)
            out["unparsed"] = unparsed[len("gql(") : -1] if unparsed.startswith("gql(") and unparsed.endswith(")") else unparsed
            out["literal"] = _literal_of(format_multiline_strings(ast.unparse(module), offset=4))
            code = ast_to_str(module, multiline_strings=True)
            target = "query"
        else:
            from ariadne_codegen.contrib.extract_operations import ExtractOperationsPlugin
            from ariadne_codegen.settings import CommentsStrategy

            plugin = ExtractOperationsPlugin.__new__(ExtractOperationsPlugin)
            plugin._operations_gqls = {"Q": text}
            plugin._operations_variables = {"Q": "Q_GQL"}
            plugin.settings = SimpleNamespace(include_comments=CommentsStrategy.NONE, queries_path="")  # type: ignore[assignment]
            module = plugin._get_operations_module()
            value = module.body[1].value
            out["unparsed"] = "".join(ast.unparse(c) for c in value) if isinstance(value, list) else ast.unparse(value)
            out["literal"] = _literal_of(format_multiline_strings("\n\n".join(ast.unparse(module).splitlines()), offset=0))
            code = plugin._module_to_str(module)
            target = "Q_GQL"
    except (AttributeError, ImportError, TypeError) as e:
        return {"observer": f"{type(e).__name__}: {e}"}
    except Exception as e:  # noqa: BLE001 - black / the parser refusing the rewritten source
        out["error"] = type(e).__name__
        return out
    try:
        out["sent"] = _find_constant(ast.parse(code), target)
    except Exception as e:  # noqa: BLE001
        out["error"] = "emitted:" + type(e).__name__
    return out


def real_embed_batch(items: List[Tuple[str, str]]) -> List[Dict[str, Any]]:
    import warnings

    warnings.simplefilter("ignore")
    return [real_embed(t, v) for t, v in items]


def compare_embed(texts: List[Tuple[str, str, Optional[str]]], res: Result, st: Optional[LeanStatus]) -> None:
    """correspondence (b) + (c): (text, variant, intended region)"""
    chunks = [texts[i : i + 40] for i in range(0, len(texts), 40)]
    outs = engine.pmap_forked(real_embed_batch, [([(t, v) for t, v, _ in ch],) for ch in chunks], timeout=600)
    real: List[Dict[str, Any]] = []
    for ch, (status, val) in zip(chunks, outs):
        if status != "ok":
            raise common.Infra(f"embedding observer failed: {status} {val}")
        real += val
    model: Optional[List[Any]] = None
    if st is not None and st.driver_ok:
        lines = [{"op": "embed", "text": cps(t), "vi": 8 if v == "client" else 0, "off": 4 if v == "client" else 0, "nonprintable": nonprintable(t)}
                 for t, v, _ in texts]
        model = common.run_driver(PROP, lines)
    for i, (t, v, _) in enumerate(texts):
        k = 12 if v == "client" else 0
        trig = text_trigger(t)
        r = real[i]
        inp = {"text": t, "variant": v}
        res.seen(["embed", t, v], nontrivial=len(t.splitlines()) >= 1)
        res.count(f"embed:{v}:" + (trig or "safe"))
        if "observer" in r:
            res.mismatches.append(Mismatch("embed.observer", inp, "observer: " + r["observer"], None))
            continue
        preserved = r.get("sent") == expected_sent(k, t)
        if trig is None:
            if any(ord(c) >= 128 and not c.isprintable() for c in t):
                res.count("embed:safe text with non-printable non-ASCII characters")
            if "\\" in t:
                res.count("embed:safe text with backslashes")
            if not preserved:
                # the property's embedding clause fails on a text outside every trigger
                res.failures.append(Failure("embedding-alters-text", None, inp, f"real pipeline gives {r.get('sent', r.get('error'))!r}"))
        else:
            res.count(f"embed:{trig}:" + ("real pipeline preserves the text" if preserved else "real pipeline damages the text (" + (r.get("error") or "altered") + ")"))
        if model is None:
            continue
        m = model[i]
        if trig in TEXT_DECLINED or "unmodelled" in m:
            if m.get("unmodelled") != trig:
                res.mismatches.append(Mismatch("embed.trigger", inp, trig, m.get("unmodelled", "modelled")))
            elif preserved:
                res.mismatches.append(Mismatch("embed.preserved-inside-trigger", inp, "preserved", "unmodelled", trigger=trig))
            continue
        # the model answers: safe texts and the regions textEscN / textLineSep (exact there: `embed_described`)
        if m.get("region") != trig:
            res.mismatches.append(Mismatch("embed.trigger", inp, trig, m.get("region")))
            continue
        got = {"unparsed": r.get("unparsed"), "literal": r.get("literal"), "sent": r.get("sent", r.get("error"))}
        want = {"unparsed": uncps(m["unparsed"]), "literal": uncps(m["literal"]), "sent": uncps(m["sent"])}
        if got != want:
            # inside a finding region a disagreement is not by itself a violation (the rewriter may have been repaired:
            # `preserved`); it is counted, and on the unchanged tree the count is 0 (the model is exact there)
            res.mismatches.append(Mismatch("embed.pipeline", inp, got, want, trigger=trig))
            if trig is not None:
                res.count(f"embed:{trig}:model and real pipeline DIFFER inside the region (" + ("real preserves the text" if preserved else "real damages it differently") + ")")
        elif trig is not None:
            res.count(f"embed:{trig}:model = real pipeline (unparsed, literal, sent text)")
        if m["sent"] != m["described"]:  # the closed form of the theorem, evaluated by the driver
            res.mismatches.append(Mismatch("embed.described", inp, r.get("sent", r.get("error")), {"sent": uncps(m["sent"]), "described": uncps(m["described"])},
                                           trigger=trig))
        if uncps(m["expected"]) != expected_sent(k, t):
            res.mismatches.append(Mismatch("embed.expected", inp, expected_sent(k, t), {"expected": uncps(m["expected"])}, trigger=trig))
        if trig is None:
            if m["sent"] != m["expected"]:
                res.mismatches.append(Mismatch("embed.expected", inp, expected_sent(k, t), {"sent": uncps(m["sent"]), "expected": uncps(m["expected"])}))
        else:
            res.count(f"embed:{trig}:model answers, " + ("predicts damage" if m["sent"] != m["expected"] else "predicts the text preserved"))
            if m["sent"] == m["expected"]:
                # `text_damaged_iff`: inside the two modelled regions the text never arrives unchanged
                res.mismatches.append(Mismatch("embed.preserved-inside-trigger", inp, "preserved" if preserved else "damaged", "preserved", trigger=trig))


def compare_pystr(rng: random.Random, n: int, res: Result, st: Optional[LeanStatus]) -> None:
    """Spec/PyStr.lean vs the running CPython"""
    import textwrap
    import warnings

    if st is None or not st.driver_ok:
        return
    alphabet = TEXT_ALPHABET_SAFE + sum(TEXT_UNSAFE.values(), []) + ["\n", "\n", " "]
    cases: List[Tuple[str, str, Any]] = []
    for i in range(n):
        t = "".join(rng.choice(alphabet) for _ in range(rng.randint(0, 12)))
        fn = ("splitlines", "repr", "indent", "eval", "trigger")[i % 5]
        if fn == "indent":
            t = "".join(c for c in t if c not in LINE_SEPS[1:])  # pyIndent is stated for texts whose only raw break is \n
        if fn == "eval":
            body = t
            if "\\N" in body or any(body[j] == "\\" and j + 1 < len(body) and body[j + 1] in "01234567" for j in range(len(body))):
                body = body.replace("\\", "")  # octal and \N{...} escapes are outside the reference semantics
            while '"""' in body:
                body = body.replace('"""', '"')
            if body.endswith('"'):
                body += " "
            t = '"""' + body + '"""'
        cases.append((fn, t, None))
    lines = [{"op": "pystr", "fn": fn, "text": cps(t), "k": 4, "nonprintable": nonprintable(t)} for fn, t, _ in cases]
    outs = common.run_driver(PROP, lines)
    for (fn, t, _), o in zip(cases, outs):
        res.count("pystr:" + fn)
        res.seen(["pystr", fn, t], nontrivial=bool(t))
        if fn == "splitlines":
            want: Any = t.splitlines()
            got: Any = [uncps(x) for x in o]
        elif fn == "repr":
            want, got = repr(t), uncps(o)
        elif fn == "indent":
            want, got = textwrap.indent(t, "    "), uncps(o)
        elif fn == "trigger":
            want, got = text_trigger(t), o
        else:
            with warnings.catch_warnings():
                warnings.simplefilter("ignore")
                try:
                    want = ast.literal_eval(t)
                except (SyntaxError, ValueError):
                    want = None
            got = uncps(o)
        if want != got:
            res.mismatches.append(Mismatch("pystr." + fn, {"text": t}, want, got))


def gql_tokens(text: str) -> Optional[List[List[str]]]:
    """graphql-core's own lexer: [kind, lexeme] per token (string tokens by their RAW source slice); None when
    the text does not lex or contains a block string"""
    from graphql import GraphQLError
    from graphql.language import Lexer, Source, TokenKind

    out: List[List[str]] = []
    try:
        lexer = Lexer(Source(text))
        while True:
            tok = lexer.advance()
            if tok.kind == TokenKind.EOF:
                return out
            if tok.kind == TokenKind.BLOCK_STRING:
                return None
            if tok.kind == TokenKind.STRING:
                out.append(["str", text[tok.start + 1 : tok.end - 1]])
            elif tok.kind == TokenKind.NAME:
                out.append(["name", tok.value])
            elif tok.kind in (TokenKind.INT, TokenKind.FLOAT):
                out.append(["num", tok.value])
            else:
                out.append(["punct", tok.kind.value])
    except (GraphQLError, IndexError, ValueError):  # graphql-core's lexer indexes past the end on a truncated \u escape
        return None


LEX_PIECES = ["query", "Q", "{", "}", "(", ")", ":", "$v", "@dir", "...", "...F", "[", "]", "!", "=", "|", "&", "123", "-4", "1.5", "2e10",
              "-0.5E-3", "0", '"str"', '"a\\"b"', '"\\\\"', '"\u00e9 #x"', '""', "# comment , x \"q", ",", "name_1", "__typename", "\ufeff", "on",
              '"\\u00e9\\t"', '"a b"', "e", "E1", "_", '"{ } ..."', '"\U0001f600"']


def gen_token_text(rng: random.Random) -> str:
    lines = []
    for _ in range(rng.randint(2, 5)):
        line = "  " * rng.randint(0, 3)
        for _ in range(rng.randint(0, 7)):
            piece = rng.choice(LEX_PIECES)
            line += piece + ("\n" if piece.startswith("#") else rng.choice([" ", " ", "  ", ", ", "\t", ""]))
        lines.append(line)
    return "\n".join(lines)


def compare_lexer(texts: List[str], res: Result, st: Optional[LeanStatus]) -> None:
    """Spec/GqlLex.lean vs graphql-core's lexer, on the text and on its re-indentation (indent_invariant on the real lexer)"""
    if st is None or not st.driver_ok:
        return
    todo = []
    for q in texts:
        want = gql_tokens(q)
        if want is None:
            res.count("lex:text does not lex in graphql-core / block string (skipped)")
            continue
        todo.append((q, want))
    outs = common.run_driver(PROP, [{"op": "lex", "text": cps(q)} for q, _ in todo]) if todo else []
    for (q, want), o in zip(todo, outs):
        res.count("lex:texts")
        res.seen(["lex", q], nontrivial=len(want) > 3)
        got = [[k, uncps(v)] for k, v in o]
        if got != want:
            res.mismatches.append(Mismatch("lex.tokens", {"text": q}, want, got))
            continue
        if text_trigger(q) is None:
            for k in (12, 0):
                if gql_tokens(expected_sent(k, q)) != want:
                    res.failures.append(Failure("reindentation-changes-tokens", None, {"text": q, "variant": "client" if k else "extract"},
                                                f"graphql-core lexes the re-indented text (k={k}) differently"))


# --------------------------------------------------------------------------------------------
# running cases
# --------------------------------------------------------------------------------------------


def e2e_child(case: Dict[str, Any]) -> Dict[str, Any]:
    import warnings

    warnings.simplefilter("ignore")
    try:
        obs: Any = observe_case(case)
    except (AttributeError, ImportError, TypeError) as e:
        obs = {"observer": f"{type(e).__name__}: {e}"}
    except Exception as e:  # noqa: BLE001 - e.g. the queries do not parse
        obs = {"observer_other": f"{type(e).__name__}: {e}"}
    return {"obs": obs, "out": e2e.run_case(case)}


def with_variant(case: Dict[str, Any], extract: bool, is_async: bool = True) -> Dict[str, Any]:
    c = dict(case)
    cfg = dict(case.get("config") or {})
    if extract:
        cfg["plugins"] = [EXTRACT_PLUGIN]
        c["want"] = ["sources"]
    if not is_async:
        cfg["async_client"] = False
    c["config"] = cfg
    c["label"] = f"{case.get('label')}{'+extract' if extract else ''}{'' if is_async else '+sync'}"
    return c


def model_flags_of(obs: Any, st: Optional[LeanStatus]) -> Tuple[Optional[Dict[str, Dict[str, Any]]], List[Dict[str, Any]], List[Dict[str, Any]]]:
    if not isinstance(obs, dict) or "defs" not in obs or st is None or not st.driver_ok:
        return None, [], []
    lines, defs = model_lines(obs)
    outs = common.run_driver(PROP, lines) if lines else []
    return {d["name"]: o for d, o in zip(defs, outs)}, lines, defs


def run_e2e_cases(ctx: Ctx, cases: List[Dict[str, Any]], res: Result, st: Optional[LeanStatus], what: str) -> List[List[Failure]]:
    """generate + drive every case through the real client, judge it, and compare what was SENT with the model's document"""
    from graphql import GraphQLError, parse

    findings = common.load_findings(PROP)
    outs = engine.pmap_forked(e2e_child, [(c,) for c in cases], timeout=300)
    per_case: List[List[Failure]] = []
    for case, (status, val) in zip(cases, outs):
        if status != "ok":
            res.count(f"{what}:child-{status} (not judged)")
            per_case.append([])
            continue
        out, obs = val["out"], val["obs"]
        if isinstance(obs, dict) and "observer" in obs:
            res.mismatches.append(Mismatch("sentDoc.observer", {"case": case.get("label")}, "observer: " + obs["observer"], None))
        flags, lines, defs = model_flags_of(obs, st)
        if isinstance(obs, dict) and "defs" in obs and what != "corpus":
            frs = {f["name"]: strip_sids(f) for f in obs["env"]["fragments"]}
            for d in obs["defs"]:
                if d["kind"] == "op" and "related" in d["impl"] and "error" not in d["impl"]:
                    res.count(f"{what}:operations observed")
                    graph_shape(strip_sids(d["wire"])["sel"], frs, d["impl"], bool(flags and flags.get(d["name"], {}).get("dropped")), res, what)
        fails = judge_e2e(case, out, flags, res, findings)
        per_case.append(fails)
        res.failures += fails
        res.seen([what, case["sdl"], case["queries"], case.get("config")], nontrivial=True)
        res.count(f"{what}:packages")
        if EXTRACT_PLUGIN in ((case.get("config") or {}).get("plugins") or []):
            res.count(f"{what}:packages with ExtractOperationsPlugin")
        # end-to-end tie: the document the generated client sent vs the model's document for that operation
        if flags and out.get("gen") == "ok" and out.get("import") == "ok":
            auth = Authored(case["sdl"], case["queries"])
            for call in out.get("calls", []):
                m = flags.get(call["op"])
                sent = call.get("sent")
                if not m or "doc" not in m or sent is None or text_trigger(auth.printed(call["op"])):
                    continue
                try:
                    ir = doc_ir(parse(sent["query"], no_location=True))
                except GraphQLError:
                    continue  # judged by the oracle above
                got = {"op": ir["ops"][0] if len(ir["ops"]) == 1 else ir["ops"], "frags": ir["frags"]}
                res.count(f"{what}:sent document compared with the model")
                if not common.same_json(got, m["doc"]):
                    res.mismatches.append(Mismatch("e2e.sent-vs-model", {"case": case.get("label"), "operation": call["op"], "sdl": case["sdl"],
                                                                       "queries": case["queries"]}, got, m["doc"]))
                if sent.get("operationName") != m.get("operationName"):
                    res.mismatches.append(Mismatch("e2e.operationName-vs-model", {"case": case.get("label"), "operation": call["op"]},
                                                   sent.get("operationName"), m.get("operationName")))
    return per_case


def run_sentdoc_correspondence(ctx: Ctx, cases: List[Dict[str, Any]], res: Result, st: Optional[LeanStatus]) -> None:
    if st is None or not st.driver_ok:
        return
    outs = engine.pmap_forked(observe_case, [(c,) for c in cases], timeout=300)
    lines: List[Dict[str, Any]] = []
    meta: List[Tuple[Any, Dict[str, Any], List[int], Dict[str, Any]]] = []
    for case, (status, obs) in zip(cases, outs):
        if status == "exc" and obs[0] in ("AttributeError", "ImportError", "TypeError"):
            res.mismatches.append(Mismatch("sentDoc.observer", {"case": case.get("label")}, f"observer: {obs[0]}: {obs[1][:200]}", None))
            continue
        if status != "ok":
            res.count(f"sentdoc:child-{status}")
            continue
        ls, defs = model_lines(obs)
        frag_wires = {f["name"]: f for f in obs["env"]["fragments"]}
        for l, d in zip(ls, defs):
            lines.append(l)
            meta.append(({"label": case.get("label"), "sdl": case["sdl"], "queries": case["queries"]}, d, l["marksIn"], frag_wires))
        res.seen(["sentdoc", case["sdl"], case["queries"]], nontrivial=bool(frag_wires))
        res.count("sentdoc:documents")
        res.count("sentdoc:operations per document=%d" % min(len(ls), 4))
    model = common.run_driver(PROP, lines, chunk=400) if lines else []
    for (label, d, marks_in, frag_wires), m in zip(meta, model):
        res.count("sentdoc:operations")
        compare_sent_doc(label, d, marks_in, m, frag_wires, res)


# --------------------------------------------------------------------------------------------
# finding witnesses (corpus/C02/*.json)
# --------------------------------------------------------------------------------------------


def load_corpus() -> List[Dict[str, Any]]:
    out = []
    d = common.CORPUS / PROP
    if d.is_dir():
        for p in sorted(d.glob("*.json")):
            w = json.loads(p.read_text())
            w["_file"] = p.name
            out.append(w)
    return out


def replay_corpus(ctx: Ctx, res: Result, st: Optional[LeanStatus]) -> None:
    corpus = load_corpus()
    findings = {f["id"]: f for f in common.load_findings(PROP)}
    cases, owners = [], []
    for w in corpus:
        for extract in ((False, True) if w.get("both_variants", True) else (False,)):
            cases.append(with_variant(w["case"], extract))
            owners.append((w, extract))
    sub = Result()
    per_case = run_e2e_cases(ctx, cases, sub, st, "corpus")
    # witnesses of OPEN findings are expected to fail with their own trigger/signature (classified by conclude);
    # a witness of a FIXED finding, or a minimised past failure, must pass: its failures lose their trigger
    status: Dict[str, str] = {}
    for (w, extract), fails in zip(owners, per_case):
        fid = w.get("finding")
        if fid:
            f = findings.get(fid)
            hit = [x for x in fails if f and x.trigger == f.get("trigger") and x.signature in (f.get("signature") if isinstance(f.get("signature"), list) else [f.get("signature")])]
            if hit:
                status[fid] = "reproduces"
            else:
                status.setdefault(fid, "gone")
            if f and f.get("status") != "open":
                for x in fails:
                    x.trigger = None
        else:
            for x in fails:
                x.trigger = None
    res.merge(sub)
    res.witness_status.update(status)


# --------------------------------------------------------------------------------------------
# entry points
# --------------------------------------------------------------------------------------------


def preload() -> None:
    import warnings

    warnings.filterwarnings("ignore")
    for m in ("ariadne_codegen.main", "ariadne_codegen.contrib.extract_operations", "black", "isort", "autoflake", "httpx", "pydantic", "graphql"):
        try:
            __import__(m)
        except Exception:  # noqa: BLE001 - shows up in the children
            pass


def gen_cases(rng: random.Random, n: int, **kw: Any) -> List[Dict[str, Any]]:
    out: List[Dict[str, Any]] = []
    i = 0
    while len(out) < n and i < 20 * n + 50:
        c = gen_case(rng, i, **kw)
        i += 1
        if c:
            out.append(c)
    return out


def gen_texts(rng: random.Random, n: int) -> List[Tuple[str, str, Optional[str]]]:
    out: List[Tuple[str, str, Optional[str]]] = []
    for t in REAL_TEXTS:
        out += [(t, "client", None), (t, "extract", None)]
    # the two regions in which the model answers (textEscN, textLineSep) get the larger share: there the whole pipeline is compared
    regions = ["textEscN"] * 4 + ["textLineSep"] * 4 + ["textQuote"] * 2 + ["textBlockString"] * 2
    for i in range(n):
        region = rng.choice(regions) if rng.random() < 0.27 else None
        t = gen_text(rng, region)
        if region in ("textEscN", "textLineSep") and rng.random() < 0.3:  # several damages in one text, both kinds
            for _ in range(rng.randint(1, 3)):
                pos = rng.randint(0, len(t))
                t = t[:pos] + rng.choice(TEXT_UNSAFE[rng.choice(("textEscN", "textLineSep"))]) + t[pos:]
        out.append((t, "client" if rng.random() < 0.7 else "extract", region))
    return out


def run(ctx: Ctx, st: Optional[LeanStatus]) -> Result:
    res = Result()
    res.rule = ("a case is (schema, operations+fragments document[, plugin configuration]) or an operation text; non-trivial = the document has "
                "fragments / the text has at least one line; distinct = distinct inputs (hash of the texts)")
    preload()
    engine.cleanup_scratch()
    res.extra["fingerprints"] = common.fingerprints(ctx, fingerprint_items())
    ctx.log("replaying finding witnesses and corpus")
    replay_corpus(ctx, res, st)
    # (a) sent-document correspondence
    rng = ctx.sub_rng("sentdoc")
    n = ctx.budget(240, 1400)
    cases = (gen_cases(rng, n // 2, regions=False, mixin_frag=0.03) + gen_cases(rng, n // 3, regions=True, mixin_frag=0.06)
             + gen_family_cases(rng, n - n // 2 - n // 3) + gen_graph_cases(rng, n // 3))
    ctx.log(f"sent-document correspondence on {len(cases)} documents")
    run_sentdoc_correspondence(ctx, cases, res, st)
    # (b)+(c) embedding correspondence, reference semantics of CPython strings
    texts = gen_texts(ctx.sub_rng("texts"), ctx.budget(1600, 9000))
    ctx.log(f"embedding correspondence on {len(texts)} operation texts")
    compare_embed(texts, res, st)
    compare_pystr(ctx.sub_rng("pystr"), ctx.budget(5000, 40000), res, st)
    printed: List[str] = list(REAL_TEXTS)
    for c in cases[: ctx.budget(120, 700)]:
        try:
            auth = Authored(c["sdl"], c["queries"])
            printed += [auth.printed(op) for op in auth.ops]
        except Exception:  # noqa: BLE001 - not an input
            continue
    lrng = ctx.sub_rng("lex")
    compare_lexer(printed + [t for t, _, _ in texts[: ctx.budget(300, 1500)]] + [gen_token_text(lrng) for _ in range(ctx.budget(600, 4000))], res, st)
    # oracle through the real generated client
    orng = ctx.sub_rng("oracle")
    n = ctx.budget(40, 220)
    ocases = []
    for i, c in enumerate(gen_cases(orng, n, regions=False)):
        ocases.append(with_variant(c, extract=i % 2 == 1, is_async=i % 5 != 0))
    for i, c in enumerate(gen_cases(orng, max(4, n // 8), regions=True, mixin_frag=0.2)):
        ocases.append(with_variant(c, extract=i % 2 == 0))
    for i, c in enumerate(gen_family_cases(orng, max(4, n // 5))):
        ocases.append(with_variant(c, extract=i % 3 == 0))
    for region in TEXT_TRIGGERS:
        for i, c in enumerate(gen_cases(orng, max(1, n // 40), regions=False, literal_region=region, literals=1.0)):
            ocases.append(with_variant(c, extract=i % 2 == 1))
    for i, c in enumerate(gen_graph_cases(ctx.sub_rng("oracle-graph"), max(16, n // 3))):
        ocases.append(with_variant(c, extract=i % 3 == 0, is_async=i % 4 != 0))
    ctx.log(f"oracle: {len(ocases)} generated packages driven through the real client")
    run_e2e_cases(ctx, ocases, res, st, "oracle")
    global _UNKNOWN_ALREADY_FOUND, _TIE_CASES, _LAST_ST
    _LAST_ST = st
    _TIE_CASES = tie_cases(res.mismatches)
    known = common.load_findings(PROP)
    _UNKNOWN_ALREADY_FOUND = any(common.match_finding(f, known) is None for f in res.failures)
    res.oracle_only += [
        "graphql-core print_ast / parse (the model's output is the document that is printed; the real string is parsed back)",
        "black, isort, autoflake on the emitted module (observed through the real ast_to_str; the model covers unparse + the rewriter on every text "
        "without ' and triple quotes: the safe texts and the regions textEscN / textLineSep)",
        "the regex `.*?=.*?('.*?'\\s*){2,}` locating the statement (on texts without ' it matches the whole assignment; validated by the embedding correspondence); "
        "inside textQuote / textBlockString the rewriter is not modelled at all: findings F1, F4, F5 are replayed on the real code only",
        "re-indentation does not change the GraphQL parse: proved at token level over the reference lexer Spec/GqlLex.lean (validated against graphql-core's Lexer, "
        "also on the re-indented texts); at AST level observed by parse(sent) == authored in the oracle",
    ]
    res.assumptions += [
        "str.isprintable of the non-ASCII characters of a text is an environment parameter of the model (supplied per text by the harness); "
        "embed_safe holds for every such predicate",
        "fragments arguments / variable definitions are not part of the model's document IR: their preservation is judged by the oracle only",
    ]
    res.extra["unproved_region"] = ("none: the former side condition Proved_02 (generator state within reachable) is the theorem generator_state_sound "
                                    "(Properties/C02.lean); still measured per case in input_distribution (`generator state NOT within reachable`, expected 0)")
    return res


_UNKNOWN_ALREADY_FOUND = False
_TIE_CASES: List[Dict[str, Any]] = []  # documents on which the sent-document correspondence differed in this run
_LAST_ST: Optional[LeanStatus] = None


def tie_cases(mismatches: List[Mismatch], limit: int = 16) -> List[Dict[str, Any]]:
    """the inputs on which model and implementation disagreed about the document, as oracle cases (every named operation
    of the document is called): where the tie broke is where a failing input is most likely to be"""
    from graphql import OperationDefinitionNode, parse

    out: List[Dict[str, Any]] = []
    seen = set()
    for m in mismatches:
        if m.trigger is not None or not isinstance(m.input, dict) or not (m.observation.startswith("sentDoc.") or m.observation.startswith("e2e.")):
            continue
        src = m.input.get("case") if isinstance(m.input.get("case"), dict) else m.input
        if not isinstance(src, dict) or "sdl" not in src or "queries" not in src or src["queries"] in seen:
            continue
        seen.add(src["queries"])
        try:
            ops = [d.name.value for d in parse(src["queries"]).definitions if isinstance(d, OperationDefinitionNode) and d.name]
        except Exception:  # noqa: BLE001
            continue
        label = src.get("label") or (m.input.get("case") if isinstance(m.input.get("case"), str) else "case")
        out.append({"label": f"tie-broken:{label}", "sdl": src["sdl"], "queries": src["queries"], "config": {},
                    "calls": [{"op": o, "vars": {}, "seed": 0} for o in ops]})
        if len(out) >= limit:
            break
    return out


def search(ctx: Ctx) -> Result:
    """after a broken proof / correspondence: judge the real code with the thorough budget"""
    res = Result()
    if _UNKNOWN_ALREADY_FOUND:
        ctx.log("the oracle of this run already holds a concrete failing input outside every finding: no further search")
        return res
    preload()
    # the finding triggers describe the UNCHANGED code: they come from the model (the compiled driver) whenever it is
    # available, so that a failure inside a known finding's region is not reported as the failing input
    st = _LAST_ST if (_LAST_ST is not None and _LAST_ST.driver_ok) else None
    known = common.load_findings(PROP)
    if _TIE_CASES:
        ctx.log(f"search: driving the {len(_TIE_CASES)} document(s) on which the correspondence differed through the real client")
        sub = Result()
        run_e2e_cases(ctx, [with_variant(c, extract=i % 2 == 1) for i, c in enumerate(_TIE_CASES)], sub, st, "search-tie")
        res.merge(sub)
        if any(common.match_finding(f, known) is None for f in sub.failures):
            return res
    rng = ctx.sub_rng("search")
    cases = []
    for i, c in enumerate(gen_cases(rng, 120, regions=False)):
        cases.append(with_variant(c, extract=i % 2 == 1))
    for i, c in enumerate(gen_cases(rng, 30, regions=True, mixin_frag=0.2) + gen_family_cases(rng, 30) + gen_graph_cases(rng, 60)):
        cases.append(with_variant(c, extract=i % 2 == 0))
    run_e2e_cases(ctx, cases, res, st, "search")
    texts = gen_texts(ctx.sub_rng("search-texts"), 4000)
    compare_embed([t for t in texts if text_trigger(t[0]) is None], res, None)
    return res


def replay(ctx: Ctx, payload: Dict[str, Any]) -> int:
    inp = payload.get("input")
    if not inp:
        print(json.dumps(payload, indent=1)[:3000])
        return 1
    preload()
    res = Result()
    if "text" in inp:
        r = real_embed(inp["text"], inp.get("variant", "client"))
        k = 12 if inp.get("variant", "client") == "client" else 0
        ok = r.get("sent") == expected_sent(k, inp["text"])
        print(json.dumps({"trigger": text_trigger(inp["text"]), "real": r, "expected": expected_sent(k, inp["text"]), "preserved": ok}, indent=1))
        return 0 if ok else 1
    case = {k: inp[k] for k in ("sdl", "queries", "config", "calls", "label") if k in inp}
    if EXTRACT_PLUGIN in ((case.get("config") or {}).get("plugins") or []):
        case["want"] = ["sources"]
    st = LeanStatus(True, (common.LEAN / ".lake/build/bin" / common.driver_name(PROP)).exists(), "", [])  # droppedSpread needs the model
    per = run_e2e_cases(ctx, [case], res, st, "replay")
    for f in per[0]:
        print(f"FAIL {f.signature} trigger={f.trigger}: {f.detail}")
    if not per[0]:
        print("ok: every operation of the case satisfies the property")
    return 1 if per[0] else 0
