"""C03 — method arguments arrive at the server as the declared variables.

Tie (DESIGN.md §3 C03):
  correspondence
    * signature IR + variables-dict IR of the REAL `ArgumentsGenerator.generate` /
      `ClientGenerator.add_method` (called directly on parsed operations in a forked child, ASTs
      canonicalised) vs `Model.ClientMethod.addMethod`, for random variable definitions x snake
      on/off x sync/async/subscription; the finding-trigger predicates (Lean) vs their Python twins
      computed from the real emitted signature;
    * attributes of the REAL generated input classes vs `Model.InputFields.fieldDecl`, and their class-level
      defaults vs `Model.ArgConstruct.classDefault` for BOTH schema sources (the SDL-built schema and the
      schema rebuilt from its introspection result: no `ast_node`);
    * construction of input-model instances: REAL pydantic `Cls(**kw)` on the really generated classes
      (keywords by attribute name / by alias, unknown keywords, required fields left out) vs
      `Spec.PydInit.initModel` over `Model.ArgConstruct.classFields`;
    * CPython def/call binding vs `Spec.PyCall`;
    * graphql-core `get_variable_values` vs `Spec.Coerce.coerceVars` on sent payloads and on
      corrupted variants;
    * the whole pipeline: `variables` JSON captured at the transport of a REAL generated package
      called with REAL Python arguments vs `Model.ArgSend.send`; packages are generated from `schema_path`
      or from `remote_schema_url` (introspection of an in-process endpoint);
    * programs: calls of a real generated method interleaved with the caller's own statements (attribute assignment on an
      input-model instance, item assignment / append on a list) over objects the caller KEEPS and passes again, with
      instances shared between lists: what every call sent, and a snapshot (by identity) of the caller's objects afterwards,
      vs `Model.ArgHeap.runC` / `storeWith` (the base client's `_convert_value` statement by statement on a store of objects);
  oracle (the property itself, independent of the Lean model): generate real packages, call the
    methods with schema-valid arguments (generated input-model instances, enum members, instrumented
    scalar objects, None, omitted), capture `variables`, let graphql-core coerce them and run a
    recording resolver; check: accepted; the resolver receives exactly the caller's values under the
    original names; omitted / unset absent; None -> null; a required variable cannot be omitted; in a program, EVERY
    call delivers what the caller's objects hold at the time of that call.
"""
from __future__ import annotations

import ast
import json
import random
from pathlib import Path
from typing import Any, Dict, List, Optional, Tuple

from . import argwire, common, engine, wire
from .common import Ctx, Failure, LeanStatus, Mismatch, Result

PROP = "C03"

TRIGGERS = ["trigSelf", "trigKwargs", "trigMerge", "trigQueryClobber", "trigShadow", "trigMangled", "trigSerializeNullable", "trigSerializeList"]
VALUE_TRIGGER = "trigDefaultLostIntro"  # C03-F9: decided on the caller's values (Model/ArgConstruct.lean), not on the signature

FINGERPRINTS = [
    ("ariadne_codegen/client_generators/arguments.py", "ArgumentsGenerator.generate"),
    ("ariadne_codegen/client_generators/arguments.py", "ArgumentsGenerator._parse_type_node"),
    ("ariadne_codegen/client_generators/arguments.py", "ArgumentsGenerator._parse_named_type_node"),
    ("ariadne_codegen/client_generators/arguments.py", "ArgumentsGenerator._is_nullable"),
    ("ariadne_codegen/client_generators/arguments.py", "ArgumentsGenerator._process_optional_arg_annotation"),
    ("ariadne_codegen/client_generators/arguments.py", "ArgumentsGenerator._get_dict_value"),
    ("ariadne_codegen/client_generators/client.py", "ClientGenerator.add_method"),
    ("ariadne_codegen/client_generators/client.py", "ClientGenerator.get_variable_names"),
    ("ariadne_codegen/client_generators/client.py", "ClientGenerator._generate_async_method"),
    ("ariadne_codegen/client_generators/client.py", "ClientGenerator._generate_method"),
    ("ariadne_codegen/client_generators/client.py", "ClientGenerator._generate_subscription_method_def"),
    ("ariadne_codegen/client_generators/client.py", "ClientGenerator._generate_operation_str_assign"),
    ("ariadne_codegen/client_generators/client.py", "ClientGenerator._generate_variables_assign"),
    ("ariadne_codegen/client_generators/client.py", "ClientGenerator._generate_execute_call"),
    ("ariadne_codegen/client_generators/input_types.py", "InputTypesGenerator._parse_input_definition"),
    ("ariadne_codegen/client_generators/input_types.py", "InputTypesGenerator._process_field_value"),
    ("ariadne_codegen/client_generators/input_fields.py", "parse_input_field_type"),
    ("ariadne_codegen/client_generators/input_fields.py", "parse_input_field_default_value"),
    ("ariadne_codegen/client_generators/input_fields.py", "parse_input_const_value_node"),
    ("ariadne_codegen/schema.py", "get_graphql_schema_from_url"),
    ("ariadne_codegen/client_generators/scalars.py", "ScalarData"),
    ("ariadne_codegen/client_generators/scalars.py", "generate_input_scalar_annotation"),
    ("ariadne_codegen/client_generators/dependencies/base_model.py", None),
    ("ariadne_codegen/client_generators/dependencies/async_base_client.py", "AsyncBaseClient._convert_dict_to_json_serializable"),
    ("ariadne_codegen/client_generators/dependencies/async_base_client.py", "AsyncBaseClient._convert_value"),
    ("ariadne_codegen/client_generators/dependencies/async_base_client.py", "AsyncBaseClient._process_variables"),
    ("ariadne_codegen/client_generators/dependencies/base_client.py", "BaseClient._convert_dict_to_json_serializable"),
    ("ariadne_codegen/client_generators/dependencies/base_client.py", "BaseClient._convert_value"),
    ("ariadne_codegen/client_generators/dependencies/base_client.py", "BaseClient._process_variables"),
    ("ariadne_codegen/utils.py", "process_name"),
    ("ariadne_codegen/utils.py", "str_to_snake_case"),
    ("ariadne_codegen/codegen.py", "generate_annotation_name"),
    ("ariadne_codegen/codegen.py", "generate_list_annotation"),
    ("ariadne_codegen/codegen.py", "generate_union_annotation"),
    ("ariadne_codegen/codegen.py", "generate_arguments"),
]

# --------------------------------------------------------------------------------------------
# child side: direct generator calls
# --------------------------------------------------------------------------------------------


def _scalar_data(case: Dict[str, Any]) -> Dict[str, Any]:
    from ariadne_codegen.client_generators.scalars import ScalarData

    out = {}
    for s in case["scalars"]:
        c = argwire.family_of(case, s)["cfg"]
        if c is not None:
            out[s] = ScalarData(type_=c["type"], serialize=c.get("serialize"), parse=c.get("parse"), import_=c.get("import"), graphql_name=s)
    return out


def _classify(e: BaseException) -> str:
    return engine.classify_exception(type(e).__name__)


def child_direct(cases: List[Dict[str, Any]]) -> List[Dict[str, Any]]:
    """call the REAL ArgumentsGenerator / ClientGenerator.add_method / InputTypesGenerator directly"""
    import warnings

    from graphql import OperationType, build_schema, parse

    out = []
    for case in cases:
        rec: Dict[str, Any] = {"ops": [], "inputs": None}
        out.append(rec)
        try:
            schema = build_schema(case["sdl"])
            doc = parse(case["queries"])
        except BaseException as e:  # noqa: BLE001 - generator bug of the harness, reported as such
            rec["harness_error"] = f"{type(e).__name__}: {e}"
            continue
        rec["kinds"] = argwire.kinds_json(schema)
        rec["ischema"] = argwire.ischema_json(schema)
        try:
            from ariadne_codegen.client_generators.arguments import ArgumentsGenerator
            from ariadne_codegen.client_generators.client import ClientGenerator
            from ariadne_codegen.client_generators.input_types import InputTypesGenerator
            from ariadne_codegen.codegen import generate_import_from

            scalars = _scalar_data(case)
        except (ImportError, AttributeError, TypeError) as e:
            rec["observer_error"] = f"{type(e).__name__}: {e}"
            continue
        for op in [d for d in doc.definitions if hasattr(d, "operation")]:
            for variant in case.get("variants", ["as-is"]):
                o: Dict[str, Any] = {"name": op.name.value, "variant": variant, "defs": argwire.var_defs_json(schema, op)}
                rec["ops"].append(o)
                try:
                    ag = ArgumentsGenerator(schema=schema, convert_to_snake_case=case["snake"], custom_scalars=scalars)
                    cg = ClientGenerator(base_client_import=generate_import_from(["AsyncBaseClient"], "async_base_client", 1),
                                         arguments_generator=ag, custom_scalars=scalars)
                except (ImportError, AttributeError, TypeError) as e:
                    o["observer_error"] = f"{type(e).__name__}: {e}"
                    continue
                definition = op
                is_async = case["async"]
                o["opType"] = op.operation.value
                if variant in ("subscription-async", "subscription-sync"):
                    import copy

                    definition = copy.copy(op)
                    definition.operation = OperationType.SUBSCRIPTION
                    is_async = variant == "subscription-async"
                    o["opType"] = "subscription"
                elif variant == "flip-async":
                    is_async = not is_async
                o["async"] = is_async
                try:
                    with warnings.catch_warnings():
                        warnings.simplefilter("ignore")
                        cg.add_method(definition=definition, name="m", return_type="R", return_type_module="r", operation_str="query X { x }",
                                      async_=is_async)
                    fn = cg._class_def.body[-1]
                    o["ir"] = argwire.method_ir(fn)
                    o["used"] = {"usedInputs": list(ag.get_used_inputs()), "usedEnums": list(ag.get_used_enums()),
                                 "usedScalars": list(ag.get_used_custom_scalars())}
                except argwire.CanonError as e:
                    o["canon_error"] = str(e)
                except (AttributeError, TypeError) as e:
                    import traceback

                    tb = traceback.extract_tb(e.__traceback__)
                    # an AttributeError/TypeError raised *inside* ariadne_codegen is an observation; one raised by the call
                    # itself (renamed internal) is an observer problem
                    if any("ariadne_codegen" in f.filename for f in tb[1:]):
                        o["error"] = "internal:" + type(e).__name__
                    else:
                        o["observer_error"] = f"{type(e).__name__}: {e}"
                except BaseException as e:  # noqa: BLE001
                    o["error"] = _classify(e)
        try:
            with warnings.catch_warnings():
                warnings.simplefilter("ignore")
                ig = InputTypesGenerator(schema=schema, convert_to_snake_case=case["snake"], custom_scalars=scalars)
            rec["inputs"] = {c.name: argwire.class_ir(c) for c in ig._class_defs}
        except argwire.CanonError as e:
            rec["inputs_canon_error"] = str(e)
        except (AttributeError, TypeError, ImportError) as e:
            rec["inputs_observer_error"] = f"{type(e).__name__}: {e}"
        except BaseException as e:  # noqa: BLE001
            rec["inputs_error"] = _classify(e)
        # the same schema as `get_graphql_schema_from_url` builds it: from the introspection result, no ast_node anywhere
        try:
            from graphql import build_client_schema, introspection_from_schema

            cschema = build_client_schema(introspection_from_schema(schema), assume_valid=True)
        except BaseException as e:  # noqa: BLE001 - graphql-core cannot serve this schema to an introspection query
            rec["inputs_intro_skipped"] = f"{type(e).__name__}: {str(e)[:120]}"
            continue
        try:
            with warnings.catch_warnings():
                warnings.simplefilter("ignore")
                ig2 = InputTypesGenerator(schema=cschema, convert_to_snake_case=case["snake"], custom_scalars=scalars)
            rec["inputs_intro"] = {c.name: argwire.class_ir(c) for c in ig2._class_defs}
        except argwire.CanonError as e:
            rec["inputs_intro_problem"] = "canon: " + str(e)
        except (AttributeError, TypeError, ImportError) as e:
            rec["inputs_intro_problem"] = "observer: " + f"{type(e).__name__}: {e}"
        except BaseException as e:  # noqa: BLE001
            rec["inputs_intro_problem"] = _classify(e)
    return out


# --------------------------------------------------------------------------------------------
# child side: real packages
# --------------------------------------------------------------------------------------------


def gen_result(rng: random.Random, case: Dict[str, Any], depth: int = 0) -> Dict[str, Any]:
    """a response object for the result type R of argwire.finish_case"""

    def raw(s: str) -> Any:
        fam = argwire.family_of(case, s)
        if fam["py"] == "datetime":
            return rng.choice(["2020-01-02T03:04:05", "2001-09-09T01:46:40"])
        if fam["py"] == "str":
            return rng.choice(["p", "q r", ""])
        if fam["py"] == "any":
            return rng.choice(["x", 1, [1, None], {"a": {"b": None}}, False])
        return rng.choice(["c1", "c2", 5, ["n", 2], {"k": "v"}, "", 0, False])

    out: Dict[str, Any] = {"ok": rng.choice([True, False, None])}
    for s in case["scalars"]:
        p = s.lower()
        out[p + "Plain"] = None if rng.random() < 0.3 else raw(s)
        out[p + "Req"] = raw(s)
        out[p + "List"] = None if rng.random() < 0.2 else [None if rng.random() < 0.3 else raw(s) for _ in range(rng.randint(0, 3))]
        out[p + "Deep"] = [None if rng.random() < 0.25 else [raw(s) for _ in range(rng.randint(0, 2))] for _ in range(rng.randint(0, 3))]
    out["child"] = gen_result(rng, case, depth + 1) if depth < 1 and rng.random() < 0.6 else None
    out["kids"] = [gen_result(rng, case, 2) for _ in range(rng.randint(0, 2))] if depth < 1 and rng.random() < 0.6 else None
    if case.get("abstract") and depth == 0:
        # opt-in (C07): values of the abstract fields (objects of a concrete member type carrying `__typename`)
        def concrete(tname: str, d: int) -> Dict[str, Any]:
            t = rng.choice(argwire.ABSTRACT_POSSIBLE[tname])
            o: Dict[str, Any] = {"__typename": t, "id": "i" + str(rng.randint(0, 9))}
            for s in argwire.result_scalars(case):
                p = s.lower()
                o[p + "Stamp"] = raw(s)
                o[p + "Opt"] = None if rng.random() < 0.3 else raw(s)
                o[p + "Items"] = None if rng.random() < 0.2 else [None if rng.random() < 0.3 else raw(s) for _ in range(rng.randint(0, 2))]
                if t == "Cat":
                    o[p + "Cat"] = None if rng.random() < 0.3 else raw(s)
                if t == "Dog":
                    o[p + "Dog"] = None if rng.random() < 0.2 else [raw(s) for _ in range(rng.randint(0, 2))]
            if t == "Cat":
                o["lives"] = rng.choice([9, None])
                o["friend"] = concrete("Animal", d + 1) if d < 1 and rng.random() < 0.6 else None
            if t == "Dog":
                o["barks"] = rng.choice([True, False, None])
            return o

        def wrapped(t: List[Any], nn: bool = False) -> Any:
            if t[0] == "nonnull":
                return wrapped(t[1], True)
            if not nn and rng.random() < 0.25:
                return None
            if t[0] == "list":
                return [wrapped(t[1]) for _ in range(rng.randint(0, 3))]
            return concrete(t[1], 0)

        for f in case["abstract"]["fields"]:
            out[f["name"]] = wrapped(f["type"])
    return out


def corruptions(rng: random.Random, value: Any, n: int) -> List[Any]:
    """variants of a variables object: dropped keys, nulls, other JSON kinds, list/single swaps, unknown keys"""
    import copy

    def paths(v: Any, p: Tuple[Any, ...] = ()) -> List[Tuple[Any, ...]]:
        out = [p] if p else []
        if isinstance(v, dict):
            for k, x in v.items():
                out += paths(x, p + (k,))
        elif isinstance(v, list):
            for i, x in enumerate(v):
                out += paths(x, p + (i,))
        return out

    res = []
    ps = paths(value)
    for _ in range(n):
        v = copy.deepcopy(value)
        if not ps:
            v["zz_unknown"] = 1
            res.append(v)
            continue
        p = rng.choice(ps)
        parent = v
        for k in p[:-1]:
            parent = parent[k]
        last = p[-1]
        cur = parent[last]
        r = rng.random()
        if r < 0.2:
            if isinstance(parent, dict):
                del parent[last]
            else:
                parent.pop(last)
        elif r < 0.35:
            parent[last] = None
        elif r < 0.6:
            parent[last] = rng.choice(["x", 5, True, 1.5, 3.0, 2147483648, -2147483649, [], [1], {}, {"zz": 1}, "ADMIN", "nope", 0, ""])
        elif r < 0.7:
            parent[last] = [cur]
        elif r < 0.8 and isinstance(cur, list) and cur:
            parent[last] = cur[0]
        elif r < 0.9 and isinstance(cur, dict):
            cur["zz_unknown"] = rng.choice([1, None])
        else:
            parent[last] = [cur, cur]
        res.append(v)
    return res


def _plain(v: Any) -> Any:
    """what a resolver received, as JSON (graphql-core hands SDL enum values as their names)"""
    import enum

    if isinstance(v, enum.Enum):
        return v.value
    if isinstance(v, dict):
        return {str(k): _plain(x) for k, x in v.items()}
    if isinstance(v, (list, tuple)):
        return [_plain(x) for x in v]
    if isinstance(v, (str, int, float, bool)) or v is None:
        return v
    return {"$py": repr(v)}


def plain_result(v: Any) -> Any:
    """a returned result model as comparable data: fields by response key, scalar objects by class and raw"""
    import datetime
    import enum

    from pydantic import BaseModel

    if isinstance(v, BaseModel):
        out = {}
        for name, f in type(v).model_fields.items():
            out[f.alias or name] = plain_result(getattr(v, name))
        return out
    if hasattr(v, "raw") and type(v).__module__.endswith(argwire.SCALAR_MODULE):
        return {"$scalar": type(v).__name__, "raw": v.raw}
    if isinstance(v, datetime.datetime):
        return {"$datetime": v.isoformat()}
    if isinstance(v, enum.Enum):
        return v.value
    if isinstance(v, (list, tuple)):
        return [plain_result(x) for x in v]
    if isinstance(v, dict):
        return {str(k): plain_result(x) for k, x in v.items()}
    if isinstance(v, (str, int, float, bool)) or v is None:
        return v
    return {"$py": repr(v)}


def coerce_real(schema: Any, op_node: Any, inputs: Any) -> Dict[str, Any]:
    from graphql.execution.values import get_variable_values

    r = get_variable_values(schema, op_node.variable_definitions or (), inputs)
    if isinstance(r, list):
        return {"error": True, "messages": [e.message[:160] for e in r[:3]]}
    return {"ok": _plain(r)}


def _introspection_endpoint(sdl: str) -> Any:
    """context manager: every `httpx.Client` created inside talks to a spec-conformant endpoint that executes the
    request (ariadne-codegen's introspection query) with graphql-core on `sdl`"""
    import contextlib
    import os

    import httpx
    from graphql import build_schema, graphql_sync
    from httpx import _client

    server_schema = build_schema(sdl)

    class FakeTransport(httpx.BaseTransport):
        def __init__(self, *args: Any, **kwargs: Any) -> None:
            pass

        def handle_request(self, request: Any) -> Any:
            request.read()
            body = json.loads(request.content)
            res = graphql_sync(server_schema, body["query"], variable_values=body.get("variables"))
            payload: Dict[str, Any] = {"data": res.data}
            if res.errors:
                payload["errors"] = [e.formatted for e in res.errors]
            return httpx.Response(200, json=payload)

    @contextlib.contextmanager
    def cm() -> Any:
        old = _client.HTTPTransport
        saved = {k: os.environ.pop(k) for k in list(os.environ) if k.lower() in ("http_proxy", "https_proxy", "all_proxy")}
        _client.HTTPTransport = FakeTransport  # type: ignore
        try:
            yield
        finally:
            _client.HTTPTransport = old  # type: ignore
            os.environ.update(saved)

    return cm()


def _construct_outcome(rec: Dict[str, Any]) -> Dict[str, Any]:
    return {k: rec[k] for k in ("cls", "spec", "keys", "set", "missing", "other_errors", "error") if k in rec}


@engine.with_scratch
def child_e2e(root: Path, case: Dict[str, Any]) -> Dict[str, Any]:
    """generate the REAL package, import it, call the methods with REAL Python arguments"""
    import importlib
    import warnings

    import httpx
    from graphql import build_schema, graphql_sync, parse

    out: Dict[str, Any] = {}
    (root / (argwire.SCALAR_MODULE + ".py")).write_text(argwire.SCALARS_SRC)
    cfg = dict(case["config"])
    if "files_to_include" in cfg:
        cfg["files_to_include"] = [str(root / f) for f in cfg["files_to_include"]]
    try:
        with warnings.catch_warnings():
            warnings.simplefilter("ignore")
            if case.get("source", "sdl") == "intro":
                # `remote_schema_url`: the schema is obtained by introspection of an in-process endpoint serving the SDL
                cfg["remote_schema_url"] = "http://verif.test/graphql"
                with _introspection_endpoint(case["sdl"]):
                    gen = engine.generate_client(root, None, case["queries"], cfg)
            else:
                gen = engine.generate_client(root, case["sdl"], case["queries"], cfg)
    except BaseException as e:  # noqa: BLE001
        out["gen"] = _classify(e)
        out["message"] = str(e)[:400]
        return out
    out["gen"] = "ok"
    schema = build_schema(case["sdl"])
    doc = parse(case["queries"])
    op_nodes = {d.name.value: d for d in doc.definitions if hasattr(d, "operation")}
    out["kinds"] = argwire.kinds_json(schema)
    out["ischema"] = argwire.ischema_json(schema)
    out["defs"] = {n: argwire.var_defs_json(schema, d) for n, d in op_nodes.items()}
    client_src = gen.read("client.py")
    out["client_imports"] = argwire.module_imports(client_src)
    methods: Dict[str, Any] = {}
    try:
        tree = ast.parse(client_src)
        for cls in [n for n in tree.body if isinstance(n, ast.ClassDef)]:
            for fn in cls.body:
                if isinstance(fn, (ast.FunctionDef, ast.AsyncFunctionDef)):
                    try:
                        ir = argwire.method_ir(fn)
                        methods[ir["opName"]] = ir
                    except argwire.CanonError as e:
                        methods.setdefault("$canon_errors", []).append(f"{fn.name}: {e}")
                        if case.get("loose_methods"):  # opt-in (C07): keep the method callable for the oracle
                            loose = argwire.loose_method_ir(fn)
                            if loose is not None:
                                methods[loose["opName"]] = loose
    except SyntaxError as e:
        out["client_syntax_error"] = str(e)
    out["methods"] = methods
    out["result_modules"] = {}
    for f in sorted(gen.dir.glob("*.py")):
        if f.stem in ("__init__", "client", "input_types", "enums", "base_model", "exceptions", "fragments", argwire.SCALAR_MODULE) \
                or f.stem.endswith("base_client"):
            continue
        try:
            src = f.read_text()
            if case.get("abstract"):  # opt-in (C07): unions / literals are canonicalised by the caller from the source
                out.setdefault("result_sources", {})[f.stem] = src
            out["result_modules"][f.stem] = {"classes": argwire.module_classes(src), "imports": argwire.module_imports(src),
                                             "bases": argwire.module_bases(src)}
        except (argwire.CanonError, SyntaxError) as e:
            out["result_modules"][f.stem] = {"canon_error": str(e)}
    if (gen.dir / "fragments.py").exists():
        try:
            src = gen.read("fragments.py")
            out["fragments_module"] = {"classes": argwire.module_classes(src), "imports": argwire.module_imports(src),
                                       "bases": argwire.module_bases(src)}
        except (argwire.CanonError, SyntaxError) as e:
            out["fragments_module"] = {"canon_error": str(e)}
    try:
        inputs_src = gen.read("input_types.py")
        out["inputs"] = argwire.module_classes(inputs_src)
        out["inputs_imports"] = argwire.module_imports(inputs_src)
    except (argwire.CanonError, SyntaxError, OSError) as e:
        out["inputs_canon_error"] = str(e)
    try:
        pkg = engine.import_package(gen)
    except BaseException as e:  # noqa: BLE001
        out["import"] = f"{type(e).__name__}: {str(e)[:300]}"
        return out
    out["import"] = "ok"
    smod = None
    if (gen.dir / (argwire.SCALAR_MODULE + ".py")).exists():
        smod = importlib.import_module(f"{gen.package}.{argwire.SCALAR_MODULE}")
    # directed constructions of input-model instances (any subset of fields, required ones included, unknown keywords)
    out["constructs"] = []
    for spec in case.get("constructs", []):
        trace2: List[Dict[str, Any]] = []
        try:
            argwire.build_py(spec, pkg, case, trace2)
        except BaseException:  # noqa: BLE001 - the refusal is recorded in the trace
            pass
        # only the outermost constructor call of a directed construction is compared (the inner ones are valid by generation)
        outer = [t for t in trace2 if t["spec"] is spec]
        out["constructs"].append(_construct_outcome(outer[0]) if outer else {"cls": spec["cls"], "spec": spec, "not_reached": True,
                                                                             "inner": [_construct_outcome(t) for t in trace2][-1:]})
    results = []
    out["calls"] = results

    def run_call(call: Dict[str, Any], prebuilt: Optional[List[Any]] = None) -> Dict[str, Any]:
        """one call of a generated method; `prebuilt`: the REAL argument objects, aligned with the variable definitions
        (`_OMIT` = argument omitted), instead of building them from the value specs"""
        rec: Dict[str, Any] = {"op": call["op"]}
        m = methods.get(call["op"])
        node = op_nodes.get(call["op"])
        if m is None or node is None:
            rec["outcome"] = "no-method"
            return rec
        defs = out["defs"][call["op"]]
        rng = random.Random(call.get("seed", 0))
        response_obj = gen_result(rng, case)
        sent_log: List[Any] = []
        received: List[Any] = []

        def resolver(source: Any, info: Any, **args: Any) -> Any:
            if source is None:
                if info.field_name == "noop":
                    return None
                received.append(_plain(args))
                return response_obj
            return source.get(info.field_name) if isinstance(source, dict) else None

        def handler(request: Any) -> Any:
            body = json.loads(request.content)
            sent_log.append(body)
            res = graphql_sync(schema, body["query"], variable_values=body.get("variables"), operation_name=body.get("operationName"),
                               field_resolver=resolver)
            payload: Dict[str, Any] = {"data": res.data}
            if res.errors:
                payload["errors"] = [e.formatted for e in res.errors]
            return httpx.Response(200, json=payload)

        # python keyword arguments: by the parameter name the emitted dict literal maps the variable to
        varmap = {k: v["py"] for k, v in m["dict"]}
        kwargs: Dict[str, Any] = {}
        build_error = None
        trace: List[Dict[str, Any]] = []
        if prebuilt is not None:
            for d, obj in zip(defs, prebuilt):
                if obj is not _OMIT:
                    kwargs[varmap.get(d["name"], d["name"])] = obj
        else:
            for d, spec in zip(defs, call["values"]):
                if isinstance(spec, dict) and spec.get("k") == "unset":
                    continue
                try:
                    kwargs[varmap.get(d["name"], d["name"])] = argwire.build_py(spec, pkg, case, trace)
                except BaseException as e:  # noqa: BLE001
                    build_error = f"{d['name']}: {type(e).__name__}: {str(e)[:200]}"
        rec["constructs"] = [_construct_outcome(t) for t in trace]
        if build_error:
            rec["outcome"] = "build-error"
            rec["message"] = build_error
            return rec
        if smod is not None:
            smod.LOG.clear()
        try:
            client = engine.make_generated_client(pkg, handler, is_async=case["async"])
            bound = getattr(client, m["name"])
            if m["kind"] == "async":
                import asyncio

                returned = asyncio.run(bound(**kwargs))
            else:
                returned = bound(**kwargs)
            rec["outcome"] = "ok"
            rec["returned"] = plain_result(returned)
        except BaseException as e:  # noqa: BLE001
            rec["outcome"] = "exception-after-send" if sent_log else "exception"
            rec["exception"] = type(e).__name__
            rec["message"] = str(e)[:300]
        # plain data only: a member of a generated `class E(str, Enum)` that reached a serialize function is a str for `canon`
        # and would otherwise travel as an object of the generated package (unpicklable in the parent)
        rec["log"] = json.loads(json.dumps(list(smod.LOG), default=repr)) if smod is not None else []
        if sent_log:
            sent = sent_log[0].get("variables")
            rec["sent"] = sent
            rec["sent_query"] = sent_log[0].get("query")
            rec["sent_query_ok"] = isinstance(sent_log[0].get("query"), str) and sent_log[0].get("operationName") == call["op"]
            rec["received"] = received[0] if received else None
            rec["response"] = response_obj
            rec["coerced"] = coerce_real(schema, node, sent if isinstance(sent, dict) else {})
            crng = random.Random(call.get("seed", 0) + 1)
            rec["coercions"] = []
            if isinstance(sent, dict):
                for variant in corruptions(crng, sent, call.get("n_corrupt", 3)):
                    try:
                        rec["coercions"].append({"inputs": variant, "result": coerce_real(schema, node, variant)})
                    except BaseException as e:  # noqa: BLE001 - graphql-core itself crashed on a corrupted input
                        rec["coercions"].append({"inputs": variant, "result": {"crash": type(e).__name__}})
        return rec

    for call in case.get("calls", []):
        results.append(run_call(call))

    # programs: calls interleaved with the caller's own statements, over objects the caller keeps (Model/ArgHeap.lean)
    out["programs"] = []
    for prog in case.get("programs", []):
        out["programs"].append(_run_program(prog, pkg, case, run_call))
    return out


_OMIT = object()


def _run_program(prog: Dict[str, Any], pkg: Any, case: Dict[str, Any], run_call: Any) -> Dict[str, Any]:
    """build the REAL objects of `prog["store"]` (address = position, children have lower addresses), run the steps,
    report what every call sent / the resolver received, and a snapshot of the caller's objects afterwards"""
    from pydantic import BaseModel

    objs: List[Any] = []
    prec: Dict[str, Any] = {"calls": []}

    def val(cv: Dict[str, Any]) -> Any:
        if "ref" in cv:
            return objs[cv["ref"]]
        spec = cv["imm"]
        if isinstance(spec, dict) and spec.get("k") == "unset":
            return _OMIT
        return argwire.build_py(spec, pkg, case)

    def attr_names(cls: Any) -> List[Tuple[str, Optional[str]]]:
        return [(py, f.alias) for py, f in cls.model_fields.items()]

    def rebind(b: int, actual: Any) -> None:
        if not isinstance(actual, list):
            return
        objs[b] = actual
        for x, item in zip(prog["store"][b]["xs"], actual):
            if "ref" in x and prog["store"][x["ref"]]["k"] == "list":
                rebind(x["ref"], item)

    try:
        for o in prog["store"]:
            if o["k"] == "list":
                objs.append([val(x) for x in o["xs"]])
            else:
                cls = getattr(pkg, o["cls"])
                names = attr_names(cls)
                kw = {}
                for i, f in enumerate(o["fields"]):
                    v = val(f["v"])
                    if v is _OMIT:
                        continue
                    py, alias = names[i]
                    kw[py if f.get("by") == "name" or alias is None else alias] = v
                inst = cls(**kw)
                objs.append(inst)
                # pydantic validation COPIES a list handed to the constructor (the instances inside are kept by reference):
                # the list object at that address is, from now on, the one the instance really holds
                for i, f in enumerate(o["fields"]):
                    if "ref" in f["v"] and prog["store"][f["v"]["ref"]]["k"] == "list":
                        rebind(f["v"]["ref"], getattr(inst, names[i][0]))
    except BaseException as e:  # noqa: BLE001
        prec["build_error"] = f"{type(e).__name__}: {str(e)[:200]}"
        return prec
    for st in prog["steps"]:
        try:
            if st["k"] == "call":
                prec["calls"].append(run_call({"op": st["op"], "values": [], "seed": st.get("seed", 0), "n_corrupt": 0},
                                              [val(a) for a in st["args"]]))
            elif st["k"] == "setField":
                obj = objs[st["a"]]
                setattr(obj, attr_names(type(obj))[st["i"]][0], val(st["v"]))
            elif st["k"] == "setItem":
                objs[st["a"]][st["i"]] = val(st["v"])
            elif st["k"] == "append":
                objs[st["a"]].append(val(st["v"]))
        except BaseException as e:  # noqa: BLE001
            prec["step_error"] = f"{st['k']}: {type(e).__name__}: {str(e)[:200]}"
            return prec

    def snap(x: Any) -> Dict[str, Any]:
        for b, o in enumerate(objs):
            if o is x:
                return {"ref": b}
        if isinstance(x, BaseModel):
            return {"tree": "model"}
        # a list / dict that is not one of the caller's objects is a LEAF here (the raw value of an untyped custom scalar);
        # where the model expects a reference (a list item that was an instance and is now its dump) it differs from it
        return {"imm": _plain(argwire.leaf_json(x))}

    store_after = []
    for o in objs:
        if isinstance(o, list):
            store_after.append({"k": "list", "xs": [snap(x) for x in o]})
        elif isinstance(o, BaseModel):
            cls = type(o)
            store_after.append({"k": "inst", "cls": cls.__name__,
                                "fields": [{"key": f.alias or py, "v": snap(getattr(o, py)) if py in o.model_fields_set else {"unset": True}}
                                           for py, f in cls.model_fields.items()]})
        else:
            store_after.append({"k": "other", "type": type(o).__name__})
    prec["store"] = store_after
    return prec


def child_pycall(items: List[Dict[str, Any]]) -> List[Dict[str, Any]]:
    """CPython's own def / call binding for the signatures of Spec.PyCall"""
    out = []
    for it in items:
        params = ", ".join([it["self"]] + [p + (" = '<default>'" if d else "") for p, d in it["params"]] + ["**" + it["kwarg"]])
        src = f"def f({params}):\n    return dict(locals())\n"
        try:
            ns: Dict[str, Any] = {}
            exec(compile(src, "<pycall>", "exec"), ns)
        except SyntaxError as e:
            out.append({"error": "SyntaxError", "msg": str(e.msg)})
            continue
        try:
            env = ns["f"]("<self>", **{g: g for g in it["given"]})
        except TypeError as e:
            out.append({"error": "TypeError", "msg": str(e)})
            continue
        extra = env.pop(it["kwarg"])
        env.pop(it["self"])
        out.append({"env": [[p, env[p]] for p, _ in it["params"]], "extra": list(extra.keys())})
    return out


# --------------------------------------------------------------------------------------------
# parent side: model lines, comparison, oracle
# --------------------------------------------------------------------------------------------


def is_mangled(name: str) -> bool:
    """CPython private-name mangling applies to this identifier inside a class body"""
    return name.startswith("__") and not name.endswith("__")


def py_triggers(ir: Dict[str, Any], defs: List[Dict[str, Any]], case: Dict[str, Any]) -> Dict[str, bool]:
    """the finding-trigger predicates: the name triggers from the REAL emitted signature and dict, the
    serialize triggers from the variable definitions and the scalar configuration"""
    pys = [a["py"] for a in ir["args"]]
    calls = [(k, v) for k, v in ir["dict"] if v["k"] == "call"]
    fns = {v["fn"] for _, v in calls}

    def serialized(d: Dict[str, Any]) -> bool:
        b = argwire.base_of(d["type"])
        return b in case["scalars"] and argwire.family_of(case, b)["serialize"] is not None

    return {
        "trigSelf": "self" in pys,
        "trigKwargs": "kwargs" in pys,
        "trigMerge": len(set(pys)) != len(pys),
        "trigQueryClobber": "query" in pys and "_query" in pys,
        "trigShadow": any(p == "gql" or p in fns for p in pys) or ir["locals"]["query"] in fns,
        "trigMangled": any(is_mangled(p) for p in pys),
        "trigSerializeNullable": any(serialized(d) and d["type"][0] != "nonnull" for d in defs),
        "trigSerializeList": any(serialized(d) and argwire.is_list_type(d["type"]) for d in defs),
    }


def signature_line(kinds: Any, case: Dict[str, Any], o: Dict[str, Any]) -> Dict[str, Any]:
    return {"op": "signature", "kinds": kinds, "scalars": argwire.scalars_cfg_json(case), "snake": case["snake"],
            "defs": [{"name": d["name"], "type": d["type"]} for d in o["defs"]], "opType": o["opType"], "opName": o["name"],
            "async": o["async"]}


def model_sig_view(m: Dict[str, Any]) -> Dict[str, Any]:
    if "error" in m:
        return {"error": m["error"]}
    loc = dict(m["locals"])
    if m["kind"] == "subscription":
        loc["response"] = None
    return {"args": m["args"], "dict": m["dict"], "locals": loc, "kind": m["kind"], "opName": m["opName"]}


def impl_sig_view(o: Dict[str, Any]) -> Dict[str, Any]:
    if "error" in o:
        return {"error": o["error"]}
    ir = o["ir"]
    return {"args": ir["args"], "dict": ir["dict"], "locals": ir["locals"], "kind": ir["kind"], "opName": ir["opName"]}


def inputclass_line(rec: Dict[str, Any], case: Dict[str, Any], tname: str, source: str = "sdl") -> Dict[str, Any]:
    t = [x for x in rec["ischema"]["types"] if x["name"] == tname][0]
    fields = [{"name": f["name"], "type": f["type"], "hasDefault": "default" in f, **({"default": f["default"]} if "default" in f else {})}
              for f in t["fields"]]
    return {"op": "inputClass", "schema": rec["ischema"], "scalars": argwire.scalars_cfg_json(case), "snake": case["snake"], "fields": fields,
            "source": source}


def direct_cases(ctx: Ctx, n: int, label: str = "direct") -> List[Dict[str, Any]]:
    rng = ctx.sub_rng(label)
    cases = []
    for i in range(n):
        c = argwire.gen_case(rng, trigger_names=0.2, harmless_names=0.3, want_results=False)
        r = rng.random()
        c["variants"] = ["as-is"] + (["subscription-async"] if r < 0.25 else ["subscription-sync"] if r < 0.35 else ["flip-async"] if r < 0.6 else [])
        cases.append(c)
    return cases


def run_direct(ctx: Ctx, st: Optional[LeanStatus], res: Result, cases: List[Dict[str, Any]]) -> None:
    chunks = [cases[i:i + 25] for i in range(0, len(cases), 25)]
    outs = engine.pmap_forked(child_direct, [(ch,) for ch in chunks], timeout=300)
    lines: List[Dict[str, Any]] = []
    meta: List[Tuple[str, Dict[str, Any], Any]] = []
    case_of: Dict[int, Dict[str, Any]] = {}
    for ch, (status, val) in zip(chunks, outs):
        if status != "ok":
            raise common.Infra(f"direct generator child failed: {status} {str(val)[:300]}")
        for case, rec in zip(ch, val):
            for o in rec.get("ops", []):
                case_of[id(o)] = case
            if "harness_error" in rec:
                raise common.Infra(f"generated case is not valid GraphQL: {rec['harness_error']}\n{case['sdl']}\n{case['queries']}")
            if "observer_error" in rec:
                res.mismatches.append(Mismatch("signature", {"sdl": case["sdl"]}, "observer: " + rec["observer_error"], None))
                continue
            for o in rec["ops"]:
                inp = {"sdl": case["sdl"], "queries": case["queries"], "op": o["name"], "variant": o["variant"], "snake": case["snake"],
                       "async": o.get("async"), "scalars": case["scalars"]}
                if "observer_error" in o:
                    res.mismatches.append(Mismatch("signature", inp, "observer: " + o["observer_error"], None))
                    continue
                if "canon_error" in o:
                    res.mismatches.append(Mismatch("signature", inp, "canon: " + o["canon_error"], None))
                    continue
                lines.append(signature_line(rec["kinds"], case, o))
                meta.append(("signature", inp, o))
            if rec.get("inputs") is not None:
                for tname, decls in rec["inputs"].items():
                    lines.append(inputclass_line(rec, case, tname))
                    meta.append(("inputClass", {"sdl": case["sdl"], "type": tname, "snake": case["snake"], "scalars": case["scalars"]}, decls))
            else:
                why = rec.get("inputs_canon_error") or rec.get("inputs_observer_error") or rec.get("inputs_error")
                res.mismatches.append(Mismatch("inputClass", {"sdl": case["sdl"]}, "observer: " + str(why), None))
            if rec.get("inputs_intro") is not None:
                for tname, decls in rec["inputs_intro"].items():
                    lines.append(inputclass_line(rec, case, tname, "intro"))
                    meta.append(("inputClass", {"sdl": case["sdl"], "type": tname, "snake": case["snake"], "scalars": case["scalars"],
                                                "source": "intro"}, decls))
            elif "inputs_intro_skipped" in rec:
                res.count("inputClass:schema-not-introspectable (graphql-core)")
            else:
                res.mismatches.append(Mismatch("inputClass-introspection", {"sdl": case["sdl"]}, str(rec.get("inputs_intro_problem")), None))
    if st is None or not st.driver_ok:
        return
    model = common.run_driver(PROP, lines)
    for (kind, inp, o), m in zip(meta, model):
        if kind == "signature":
            impl = impl_sig_view(o)
            mod = model_sig_view(m)
            nvars = len(o["defs"])
            res.seen([inp["sdl"], inp["queries"], inp["op"], inp["variant"], inp["snake"], inp["async"]], nontrivial=nvars > 0)
            res.count("sig:vars=%d" % min(nvars, 6))
            res.count("sig:variant:" + inp["variant"])
            res.count("sig:snake=" + str(inp["snake"]))
            for d in o["defs"]:
                res.count("sig:wrapper:" + _shape(d["type"]))
            if "error" in impl or "error" in mod:
                res.count("sig:error:" + str(impl.get("error")))
            trig = None
            if not common.same_json(impl, mod):
                res.mismatches.append(Mismatch("signature", inp, impl, mod, trig))
                continue
            if "ir" in o:
                pt = py_triggers(o["ir"], o["defs"], case_of[id(o)])
                for t in TRIGGERS:
                    if pt[t]:
                        res.count("sig:inside:" + t)
                if not any(pt.values()):
                    res.count("sig:outside-all-triggers")
                if pt != m["triggers"]:
                    res.mismatches.append(Mismatch("triggers", inp, pt, m["triggers"]))
                if not common.same_json(o["used"], {k: m[k] for k in ("usedInputs", "usedEnums", "usedScalars")}):
                    res.mismatches.append(Mismatch("used-lists", inp, o["used"], {k: m[k] for k in ("usedInputs", "usedEnums", "usedScalars")}))
                if len(res.samples) < 2 and nvars >= 2:
                    res.sample({"observation": "signature", "input": {"queries": inp["queries"], "snake": inp["snake"]}, "impl": impl, "model": mod})
        else:
            res.seen(["inputClass", inp["sdl"], inp["type"], inp["snake"], inp.get("source", "sdl")], nontrivial=True)
            res.count("inputClass:fields", len(o))
            res.count("inputClass:source=" + inp.get("source", "sdl"))
            for fd in o:
                res.count("inputClass:default:" + inp.get("source", "sdl") + ":" + str(fd.get("default")))
            if not common.same_json(o, m):
                res.mismatches.append(Mismatch("inputClass" if inp.get("source", "sdl") == "sdl" else "inputClass-introspection", inp, o, m))


def _shape(t: List[Any]) -> str:
    if t[0] == "named":
        return "T"
    if t[0] == "list":
        return "[" + _shape(t[1]) + "]"
    return _shape(t[1]) + "!"


def run_pycall(ctx: Ctx, st: Optional[LeanStatus], res: Result) -> None:
    rng = ctx.sub_rng("pycall")
    pool = ["a", "b", "c", "self", "kwargs", "query", "x"]
    items = []
    for _ in range(ctx.budget(300, 3000)):
        n = rng.randint(0, 4)
        names = [rng.choice(pool) for _ in range(n)]
        req = rng.randint(0, n)
        params = [[nm, i >= req] for i, nm in enumerate(names)]
        given = rng.sample(pool, rng.randint(0, 4))
        items.append({"op": "pycall", "self": "self", "kwarg": "kwargs", "params": params, "given": given})
    status, real = engine.forked(child_pycall, items)
    if status != "ok":
        raise common.Infra(f"pycall child failed: {real}")
    if st is None or not st.driver_ok:
        return
    model = common.run_driver(PROP, items)
    for it, r, m in zip(items, real, model):
        res.seen(["pycall", it["params"], it["given"]], nontrivial=bool(it["params"]))
        res.count("pycall:" + (r.get("error") or "ok"))
        rv = {"error": r["error"]} if "error" in r else r
        mv = {"error": m["error"]} if "error" in m else m
        if not common.same_json(rv, mv):
            res.mismatches.append(Mismatch("pycall", it, r, m))


# ---- end to end ----------------------------------------------------------------------------


def make_calls(rng: random.Random, case: Dict[str, Any], n_per_op: int) -> List[Dict[str, Any]]:
    calls = []
    for op in case["ops"]:
        gts = [argwire.to_gt(d["type"]) for d in op["defs"]]
        for j in range(n_per_op):
            values = []
            for d, gt in zip(op["defs"], gts):
                if not gt[2] and rng.random() < 0.3:
                    values.append({"k": "unset"})
                else:
                    values.append(argwire.gen_value(rng, case, gt, top=True))
            calls.append({"op": op["name"], "values": values, "seed": rng.randrange(1 << 30), "n_corrupt": 3})
        # one call that omits a required argument
        req = [i for i, gt in enumerate(gts) if gt[2]]
        if req:
            i = rng.choice(req)
            values = [argwire.gen_value(rng, case, gt, top=True) for gt in gts]
            values[i] = {"k": "unset"}
            calls.append({"op": op["name"], "values": values, "seed": 1, "n_corrupt": 0, "omits_required": op["defs"][i]["name"]})
    return calls


def is_unset(v: Any) -> bool:
    return isinstance(v, dict) and v.get("k") == "unset"


def lost_fields(case: Dict[str, Any], cls: str) -> List[str]:
    """twin of Lean ArgConstruct.lostField: the fields of input type `cls` whose default the class generated from an
    introspected schema has lost and therefore demands (non-null type with a schema default)"""
    if case.get("source", "sdl") != "intro":
        return []
    return [f["name"] for f in case["inputs"].get(cls, []) if argwire.to_gt(f["type"])[2] and f.get("default") is not None]


def py_lost(case: Dict[str, Any], spec: Any) -> bool:
    """twin of Lean ArgConstruct.lostDefault: some instance in the value leaves such a field unset"""
    if not isinstance(spec, dict):
        return False
    if spec.get("k") == "list":
        return any(py_lost(case, x) for x in spec["xs"])
    if spec.get("k") == "model":
        lost = lost_fields(case, spec["cls"])
        return any((is_unset(f["v"]) and f["name"] in lost) or py_lost(case, f["v"]) for f in spec["fields"])
    return False


def make_constructs(rng: random.Random, case: Dict[str, Any], n_per_class: int) -> List[Dict[str, Any]]:
    """directed constructor calls: ANY subset of the fields is given (required ones may be left out), each under its
    attribute name or its alias, sometimes with a keyword that names no field"""
    out = []
    for cls, fields in case["inputs"].items():
        for _ in range(n_per_class):
            fs = []
            for f in fields:
                if rng.random() < 0.55:
                    v = argwire.gen_value(rng, case, argwire.to_gt(f["type"]), top=False, inherited=True, depth=2, null_p=0.25)
                    fs.append({"name": f["name"], "v": v, "by": rng.choice(["alias", "name"])})
                else:
                    fs.append({"name": f["name"], "v": {"k": "unset"}})
            spec: Dict[str, Any] = {"k": "model", "cls": cls, "fields": fs}
            if rng.random() < 0.3:
                spec["extra_keys"] = [rng.choice(["zz_unknown", "extra", "__x"])]
            out.append(spec)
    return out


def construct_line(case: Dict[str, Any], out: Dict[str, Any], c: Dict[str, Any]) -> Dict[str, Any]:
    """the keywords REALLY passed (`keys`, in the order of the set fields, then the unknown ones) with the values of the spec"""
    classes = out.get("inputs") or {}
    vals = [argwire.to_av(f["v"], classes) for f in c["spec"]["fields"] if not is_unset(f["v"])]
    keys = list(c["keys"])
    kw = [[k, v] for k, v in zip(keys, vals)] + [[k, {"k": "int", "v": 1}] for k in keys[len(vals):]]
    return {"op": "construct", "schema": out["ischema"], "scalars": argwire.scalars_cfg_json(case), "snake": case["snake"],
            "source": case.get("source", "sdl"), "cls": c["cls"], "kw": kw}


def construct_views(c: Dict[str, Any], m: Dict[str, Any]) -> Tuple[Any, Any]:
    if "set" in c:
        iv: Any = {"ok": sorted(c["set"])}
    else:
        iv = {"error": {"missing": sorted(c.get("missing", [])), "other": c.get("other_errors", 0)}}
    if "ok" in m:
        mv: Any = {"ok": sorted(m["ok"]["set"])}
    else:
        mv = {"error": {"missing": sorted(m["error"]["missing"]), "other": len(m["error"]["invalid"])}}
    return iv, mv


# ---- programs: calls interleaved with the caller's own statements, over objects the caller keeps -------------

PROGRAM_FUEL = 16


def _alloc(rng: random.Random, case: Dict[str, Any], store: List[Dict[str, Any]], spec: Any, gt: Optional[List[Any]], share_p: float) -> Dict[str, Any]:
    """allocate the objects of a value spec bottom-up (children get lower addresses than their holders: no cycles);
    with probability `share_p` an instance position refers to an instance of the same class that already exists"""
    if not isinstance(spec, dict) or spec.get("k") not in ("list", "model"):
        return {"imm": spec}
    if spec["k"] == "list":
        igt = gt[1] if gt and gt[0] == "list" else None
        items = [_alloc(rng, case, store, x, igt, share_p) for x in spec["xs"]]
        store.append({"k": "list", "xs": items, "gt": gt})
        return {"ref": len(store) - 1}
    cands = [a for a, o in enumerate(store) if o["k"] == "inst" and o["cls"] == spec["cls"]]
    if cands and rng.random() < share_p:
        return {"ref": rng.choice(cands)}
    fields = []
    for f, fd in zip(spec["fields"], case["inputs"][spec["cls"]]):
        if is_unset(f["v"]):
            fields.append({"name": f["name"], "v": {"imm": {"k": "unset"}}})
        else:
            fields.append({"name": f["name"], "v": _alloc(rng, case, store, f["v"], argwire.to_gt(fd["type"]), share_p), "by": f.get("by", "alias")})
    store.append({"k": "inst", "cls": spec["cls"], "fields": fields})
    return {"ref": len(store) - 1}


def _gen_mutation(rng: random.Random, case: Dict[str, Any], store: List[Dict[str, Any]]) -> Optional[Dict[str, Any]]:
    """one statement of the caller that keeps every object schema-valid and the object graph acyclic
    (an object only ever refers to objects with lower addresses)"""
    cands: List[Tuple[str, int, Optional[int], List[Any]]] = []
    for a, o in enumerate(store):
        if o["k"] == "inst":
            for i, fd in enumerate(case["inputs"][o["cls"]]):
                gt = argwire.to_gt(fd["type"])
                if gt[0] == "named":
                    cands.append(("setField", a, i, gt))
        elif o["k"] == "list" and o.get("gt") and o["gt"][0] == "list" and o["gt"][1][0] == "named" and o["gt"][1][1] in case["inputs"]:
            cands.append(("append", a, None, o["gt"][1]))
            for i in range(len(o["xs"])):
                cands.append(("setItem", a, i, o["gt"][1]))
    rng.shuffle(cands)
    for kind, a, i, gt in cands:
        if gt[1] in case["inputs"]:
            refs = [b for b in range(a) if store[b]["k"] == "inst" and store[b]["cls"] == gt[1]]
            opts: List[Dict[str, Any]] = [{"ref": b} for b in refs]
            if kind == "setField" and not gt[2]:
                opts.append({"imm": None})
            if not opts:
                continue
            v = rng.choice(opts)
        else:
            v = {"imm": argwire.gen_value(rng, case, gt, top=False, inherited=True, depth=3)}
        st: Dict[str, Any] = {"k": kind, "a": a, "v": v}
        if i is not None:
            st["i"] = i
        if kind == "setField":
            st["by"] = "name"
        return st
    return None


def gen_program(rng: random.Random, case: Dict[str, Any]) -> Optional[Dict[str, Any]]:
    """`objs = ...; client.m(objs); <the caller updates some of them>; client.m(objs)` (two or three calls)"""
    ops = [op for op in case["ops"] if op["defs"]]
    if not ops:
        return None
    pref = [op for op in ops if any(argwire.base_of(d["type"]) in case["inputs"] for d in op["defs"])]
    op = rng.choice(pref or ops)
    store: List[Dict[str, Any]] = []
    share_p = rng.choice([0.0, 0.3, 0.6])
    for cls in case["inputs"]:  # spare instances first: anything may be pointed at them later
        for _ in range(rng.randint(0, 2)):
            _alloc(rng, case, store, argwire.gen_value(rng, case, ["named", cls, True], top=False, depth=2), ["named", cls, True], 0.0)
    args = []
    for d in op["defs"]:
        gt = argwire.to_gt(d["type"])
        if not gt[2] and rng.random() < 0.15:
            args.append({"imm": {"k": "unset"}})
        else:
            args.append(_alloc(rng, case, store, argwire.gen_value(rng, case, gt, top=True), gt, share_p))
    steps: List[Dict[str, Any]] = [{"k": "call", "op": op["name"], "args": args, "seed": rng.randrange(1 << 30)}]
    sim = json.loads(json.dumps(store))
    for _ in range(rng.randint(1, 2)):
        for _ in range(rng.randint(1, 3)):
            st = _gen_mutation(rng, case, sim)
            if st is not None:
                steps.append(st)
                prog_apply(sim, st)
        steps.append({"k": "call", "op": op["name"], "args": args, "seed": rng.randrange(1 << 30)})
    return {"store": store, "steps": steps}


def prog_apply(store: List[Dict[str, Any]], st: Dict[str, Any]) -> None:
    """the caller's own statement on the (Python-side) picture of its objects; a call changes nothing"""
    if st["k"] == "setField":
        f = store[st["a"]]["fields"][st["i"]]
        f["v"] = st["v"]
        f.setdefault("by", "alias")
    elif st["k"] == "setItem":
        store[st["a"]]["xs"][st["i"]] = st["v"]
    elif st["k"] == "append":
        store[st["a"]]["xs"].append(st["v"])


def prog_deref(store: List[Dict[str, Any]], cv: Dict[str, Any]) -> Any:
    """the value spec a caller value denotes now"""
    if "imm" in cv:
        return cv["imm"]
    o = store[cv["ref"]]
    if o["k"] == "list":
        return {"k": "list", "xs": [prog_deref(store, x) for x in o["xs"]]}
    return {"k": "model", "cls": o["cls"],
            "fields": [{"name": f["name"], "v": prog_deref(store, f["v"]), "by": f.get("by", "alias")} for f in o["fields"]]}


def program_line(case: Dict[str, Any], out: Dict[str, Any], prog: Dict[str, Any]) -> Dict[str, Any]:
    classes = out.get("inputs") or {}

    def cv(v: Dict[str, Any]) -> Dict[str, Any]:
        return {"ref": v["ref"]} if "ref" in v else {"imm": argwire.to_av(v["imm"], classes)}

    store = []
    for o in prog["store"]:
        if o["k"] == "list":
            store.append({"k": "list", "xs": [cv(x) for x in o["xs"]]})
        else:
            decl = classes[o["cls"]]
            store.append({"k": "inst", "cls": o["cls"],
                          "fields": [{"key": decl[i]["alias"] or decl[i]["py"], "ann": decl[i]["ann"], "v": cv(f["v"])} for i, f in enumerate(o["fields"])]})
    steps = []
    for st in prog["steps"]:
        if st["k"] == "call":
            defs = out["defs"][st["op"]]
            steps.append({"k": "call", "opName": st["op"], "opText": "",
                          "defs": [{"name": d["name"], "type": d["type"], **({"default": d["default"]} if "default" in d else {})} for d in defs],
                          "args": [cv(a) for a in st["args"]]})
        else:
            steps.append({**{k: st[k] for k in ("k", "a", "i") if k in st}, "v": cv(st["v"])})
    return {"op": "program", "kinds": out["kinds"], "scalars": argwire.scalars_cfg_json(case), "snake": case["snake"], "async": case["async"],
            "store": store, "steps": steps, "fuel": PROGRAM_FUEL}


def model_store_view(objs: List[Dict[str, Any]]) -> List[Dict[str, Any]]:
    def v(x: Dict[str, Any]) -> Dict[str, Any]:
        return {"imm": wire.dec(x["imm"])} if "imm" in x else x

    out = []
    for o in objs:
        if o["k"] == "list":
            out.append({"k": "list", "xs": [v(x) for x in o["xs"]]})
        elif o["k"] == "inst":
            out.append({"k": "inst", "cls": o["cls"], "fields": [{"key": f["key"], "v": v(f["v"])} for f in o["fields"]]})
        else:
            out.append(o)
    return out


def input_defaults(ischema: Dict[str, Any]) -> Dict[str, Dict[str, Any]]:
    return {t["name"]: {f["name"]: wire.dec(f["default"]) for f in t["fields"] if "default" in f}
            for t in ischema["types"] if t["kind"] == "input"}


def expected_received(case: Dict[str, Any], out: Dict[str, Any], call: Dict[str, Any]) -> Dict[str, Any]:
    """what the resolver must receive, keyed by the schema argument a<i> the variable is passed to"""
    defs = out["defs"][call["op"]]
    idf = input_defaults(out["ischema"])
    exp: Dict[str, Any] = {}
    for i, (d, spec) in enumerate(zip(defs, call["values"])):
        if isinstance(spec, dict) and spec.get("k") == "unset":
            if "default" in d:
                exp[f"a{i}"] = wire.dec(d["default"])
        else:
            exp[f"a{i}"] = argwire.py_intended(spec, case, idf)
    return exp


def judge_call(case: Dict[str, Any], out: Dict[str, Any], call: Dict[str, Any], rec: Dict[str, Any]) -> List[Tuple[str, Optional[str], str]]:
    """The property, stated on what was observed.  Returns (signature, variable concerned | None, detail)."""
    fails: List[Tuple[str, Optional[str], str]] = []
    defs = out["defs"][call["op"]]
    if rec["outcome"] in ("no-method", "build-error"):
        return [(rec["outcome"], None, rec.get("message", ""))]
    if call.get("omits_required"):
        if not (rec["outcome"] == "exception" and rec.get("exception") == "TypeError" and "sent" not in rec):
            fails.append(("required-omittable", call["omits_required"], f"outcome={rec['outcome']} {rec.get('exception')}"))
        return fails
    if "sent" not in rec:
        return [("call-raises", None, f"{rec.get('exception')}: {rec.get('message', '')[:200]}")]
    sent = rec["sent"]
    if not isinstance(sent, dict):
        return [("variables-not-an-object", None, repr(sent)[:100])]
    names = [d["name"] for d in defs]
    extra = [k for k in sent if k not in names]
    if extra:
        fails.append(("undeclared-variable-sent", extra[0], ""))
    exp = expected_received(case, out, call)
    recv = rec.get("received") or {}
    for i, (d, spec) in enumerate(zip(defs, call["values"])):
        n = d["name"]
        unset = isinstance(spec, dict) and spec.get("k") == "unset"
        if unset:
            if n in sent:
                fails.append(("omitted-present", n, f"sent {json.dumps(sent[n])[:80]}"))
            continue
        if n not in sent:
            fails.append(("argument-not-sent", n, ""))
            continue
        if spec is None and sent[n] is not None:
            fails.append(("none-not-null", n, f"sent {json.dumps(sent[n])[:80]}"))
            continue
        r = argwire.absent_paths_ok(spec, sent[n])
        if r:
            fails.append((r, n, json.dumps(sent[n])[:120]))
    if "error" in rec.get("coerced", {}):
        # attribute to the variable named in graphql-core's message
        msg = " | ".join(rec["coerced"].get("messages", []))
        var = next((d["name"] for d in defs if f"'${d['name']}'" in msg), None)
        if not any(f[1] == var for f in fails):
            fails.append(("not-accepted", var, msg[:200]))
    elif rec.get("received") is None:
        fails.append(("resolver-not-reached", None, json.dumps(rec.get("coerced"))[:150]))
    else:
        for i, d in enumerate(defs):
            k = f"a{i}"
            if (k in exp) != (k in recv) or (k in exp and not common.same_json(exp[k], recv[k])):
                if not any(f[1] == d["name"] for f in fails):
                    fails.append(("delivered-differs", d["name"], f"want {json.dumps(exp.get(k, '<absent>'))[:100]} got {json.dumps(recv.get(k, '<absent>'))[:100]}"))
    if not rec.get("sent_query_ok", True):
        fails.append(("operation-name-or-query-lost", None, ""))
    return fails


def trigger_for(ir: Optional[Dict[str, Any]], defs: List[Dict[str, Any]], case: Dict[str, Any], sig: str, var: Optional[str],
                detail: str = "") -> Optional[str]:
    """which finding region explains a failure (narrow: per variable where the failure names one)"""
    if ir is None:
        return None
    pt = py_triggers(ir, defs, case)
    if sig == "import-fails":
        for t in ("trigSelf", "trigKwargs", "trigMerge"):
            if pt[t]:
                return t
        return None
    if sig == "call-raises":
        if pt["trigMangled"] and ("_Client__" in detail or "unexpected keyword argument '__" in detail):
            return "trigMangled"
        if pt["trigShadow"] and "not callable" in detail:
            return "trigShadow"
        return None
    entry = dict((k, v) for k, v in ir["dict"]).get(var) if var is not None else None
    if entry is None:
        return None
    if entry["py"] == ir["locals"]["query"] and pt["trigQueryClobber"]:
        return "trigQueryClobber"
    if entry["k"] == "call":
        d = next((d for d in defs if d["name"] == var), None)
        if d is not None and argwire.is_list_type(d["type"]):
            return "trigSerializeList"
        if d is not None and d["type"][0] != "nonnull":
            return "trigSerializeNullable"
    return None


def send_line(case: Dict[str, Any], out: Dict[str, Any], call: Dict[str, Any], op_text: str = "") -> Dict[str, Any]:
    defs = out["defs"][call["op"]]
    classes = out.get("inputs") or {}
    return {"op": "send", "kinds": out["kinds"], "scalars": argwire.scalars_cfg_json(case), "snake": case["snake"], "async": case["async"],
            "defs": [{"name": d["name"], "type": d["type"], **({"default": d["default"]} if "default" in d else {})} for d in defs],
            "values": [argwire.to_av(v, classes) for v in call["values"]], "opName": call["op"], "opText": op_text}


def intended_line(case: Dict[str, Any], out: Dict[str, Any], call: Dict[str, Any]) -> Dict[str, Any]:
    line = send_line(case, out, call)
    line["op"] = "intended"
    line["schema"] = out["ischema"]
    line["source"] = case.get("source", "sdl")
    return line


def canon_log(log: List[Any]) -> List[Any]:
    return [[e[1], e[2]] for e in log if e[0] == "serialize"]


def e2e_cases(ctx: Ctx, n: int, label: str, trigger_names: float = 0.05, intro_p: float = 0.4, programs: int = 2) -> List[Dict[str, Any]]:
    rng = ctx.sub_rng(label)
    cases = []
    for _ in range(n):
        c = argwire.gen_case(rng, trigger_names=trigger_names, harmless_names=0.3, want_results=False)
        c["calls"] = make_calls(rng, c, 3)
        # how the generator obtains the schema: schema_path (SDL) or remote_schema_url (introspection)
        c["source"] = "intro" if rng.random() < intro_p else "sdl"
        c["constructs"] = make_constructs(rng, c, 2)
        # sequences of calls over objects the caller keeps and updates (not for the introspection source: C03-F9 would
        # refuse some of the objects)
        c["programs"] = []
        if c["source"] == "sdl":
            for _ in range(programs):
                pr = gen_program(rng, c)
                if pr is not None:
                    c["programs"].append(pr)
        cases.append(c)
    return cases


def case_key(case: Dict[str, Any]) -> Dict[str, Any]:
    """the structural part of a case (what a replay needs)"""
    k = {k: case[k] for k in ("snake", "async", "enums", "scalars", "inputs", "ops")}
    if case.get("source", "sdl") != "sdl":
        k["source"] = case["source"]
    return k


def judge_e2e(ctx: Ctx, st: Optional[LeanStatus], res: Result, cases: List[Dict[str, Any]], outs: List[Tuple[str, Any]],
              witness_of: Optional[Dict[int, str]] = None) -> Dict[int, List[Failure]]:
    """oracle + correspondence on the results of child_e2e; returns the failures per case index"""
    lines: List[Dict[str, Any]] = []
    meta: List[Tuple[str, Any, Any]] = []
    per_case: Dict[int, List[Failure]] = {}
    for ci, (case, (status, out)) in enumerate(zip(cases, outs)):
        per_case[ci] = []
        inp_case = case_key(case)
        if status != "ok":
            raise common.Infra(f"e2e child failed: {status} {str(out)[:400]}")
        if out.get("gen") != "ok":
            # generation itself failed: C04's subject; for C03 there is no method to call.  Known region: a Python name
            # that is not an identifier (C18-F4).  Anything else is reported by C04; here it only costs coverage.
            res.count("e2e:generation-failed:" + str(out.get("gen")))
            continue
        methods = out.get("methods", {})
        if out.get("import") != "ok":
            res.count("e2e:import-failed")
            # which method made the module unimportable?
            culprit, cdefs = None, []
            for name, ir in methods.items():
                if name != "$canon_errors" and any(py_triggers(ir, out["defs"].get(name, []), case)[t] for t in ("trigSelf", "trigKwargs", "trigMerge")):
                    culprit, cdefs = ir, out["defs"].get(name, [])
            f = Failure("import-fails", trigger_for(culprit, cdefs, case, "import-fails", None), {"case": inp_case, "calls": case.get("calls", [])[:1]},
                        out.get("import", ""))
            per_case[ci].append(f)
            continue
        res.count("e2e:source=" + case.get("source", "sdl"))
        if out.get("inputs") is not None:
            for c in out.get("constructs", []):
                if c.get("not_reached"):
                    # an INNER value of a directed construction could not be built although it is valid by generation
                    inner = (c.get("inner") or [{}])[-1]
                    lostc = lost_fields(case, inner.get("cls", ""))
                    inside = bool(inner.get("missing")) and set(inner.get("missing", [])) <= set(lostc)
                    per_case[ci].append(Failure("input-model-refuses-valid-value", VALUE_TRIGGER if inside else None,
                                                {"case": inp_case, "constructs": [c["spec"]]}, str(inner.get("error"))))
                    continue
                lines.append(construct_line(case, out, c))
                meta.append(("construct", (ci, c, "directed"), None))
        for prog, prec in zip(case.get("programs", []), out.get("programs", [])):
            pinp = {"case": inp_case, "programs": [prog]}
            if "build_error" in prec or "step_error" in prec:
                # every object and every statement of a generated program is schema-valid by construction
                per_case[ci].append(Failure("input-model-refuses-valid-value", None, pinp, prec.get("build_error") or prec.get("step_error")))
                continue
            sim = json.loads(json.dumps(prog["store"]))
            views = []
            k = 0
            for stp in prog["steps"]:
                if stp["k"] != "call":
                    prog_apply(sim, stp)
                    res.count("program:statement:" + stp["k"])
                    continue
                rec = prec["calls"][k]
                k += 1
                # the property for THIS call: the resolver receives what the caller's objects hold NOW
                now = {"op": stp["op"], "values": [prog_deref(sim, a) for a in stp["args"]], "seed": stp.get("seed", 0), "n_corrupt": 0}
                ir = methods.get(stp["op"])
                pdefs = out["defs"][stp["op"]]
                pt = py_triggers(ir, pdefs, case) if ir else {}
                inside = [t for t in TRIGGERS if pt.get(t)]
                res.seen(["program", inp_case, prog["steps"], k], nontrivial=True)
                res.count("program:call#%d" % min(k, 3))
                res.count("program:call-inside-trigger" if inside else "program:call-outside-triggers")
                for sig, var, detail in judge_call(case, out, now, rec):
                    trig = trigger_for(ir, pdefs, case, sig, var, detail)
                    per_case[ci].append(Failure(sig, trig, pinp,
                                                f"call #{k} of the program, op {stp['op']} ${var}: {detail}"))
                views.append((now, rec, inside))
            if out.get("inputs") is not None and all(methods.get(stp["op"]) is not None for stp in prog["steps"] if stp["k"] == "call"):
                lines.append(program_line(case, out, prog))
                meta.append(("program", (ci, prog, prec, views), None))
        for call, rec in zip(case.get("calls", []), out.get("calls", [])):
            ir = methods.get(call["op"])
            res.count("e2e:outcome:" + rec["outcome"])
            if out.get("inputs") is not None:
                for c in rec.get("constructs", []):
                    lines.append(construct_line(case, out, c))
                    meta.append(("construct", (ci, c, "call"), None))
            for d, v in zip(out["defs"][call["op"]], call["values"]):
                res.count("e2e:arg:" + ("omitted" if isinstance(v, dict) and v.get("k") == "unset" else "None" if v is None else v["k"]))
            nontrivial = len(call["values"]) > 0
            res.seen([inp_case, call["op"], call["values"]], nontrivial=nontrivial)
            if rec["outcome"] == "build-error":
                # the harness could not construct a value it believes schema-valid: the generated class refused it.
                # Known region (C03-F9): the schema came by introspection and ALL the class misses are non-null fields
                # whose schema default the class has lost.
                bad = [c for c in rec.get("constructs", []) if "set" not in c]
                inside = bool(bad) and all(c.get("missing") and not c.get("other_errors")
                                           and set(c["missing"]) <= set(lost_fields(case, c["cls"])) for c in bad)
                per_case[ci].append(Failure("input-model-refuses-valid-value", VALUE_TRIGGER if inside else None,
                                            {"case": inp_case, "calls": [call]}, rec.get("message", "")))
                res.count("e2e:call-inside-trigger" if inside else "e2e:call-refused-outside-triggers")
                if ir is not None and out.get("inputs") is not None:
                    lines.append(intended_line(case, out, call))
                    meta.append(("intended", (ci, call, rec, [VALUE_TRIGGER] if inside else []), None))
                continue
            fails = judge_call(case, out, call, rec)
            for sig, var, detail in fails:
                trig = trigger_for(ir, out["defs"][call["op"]], case, sig, var, detail)
                per_case[ci].append(Failure(sig, trig, {"case": inp_case, "calls": [call]}, f"op {call['op']} ${var}: {detail}"))
            pt = py_triggers(ir, out["defs"][call["op"]], case) if ir else {}
            inside = [t for t in TRIGGERS if pt.get(t)]
            res.count("e2e:call-inside-trigger" if inside else "e2e:call-outside-triggers")
            # correspondence lines
            if ir is not None and out.get("inputs") is not None:
                lines.append(send_line(case, out, call, rec.get("sent_query") or ""))
                meta.append(("send", (ci, call, rec, inside), None))
                lines.append(intended_line(case, out, call))
                meta.append(("intended", (ci, call, rec, inside), None))
            if "sent" in rec and isinstance(rec["sent"], dict):
                defs = out["defs"][call["op"]]
                idefs = [{"name": d["name"], "type": d["gt"], **({"default": d["default"]} if "default" in d else {})} for d in defs]
                for item in [{"inputs": rec["sent"], "result": rec["coerced"]}] + rec.get("coercions", []):
                    if "crash" in item["result"]:
                        res.count("coerce:graphql-core-crashed")
                        continue
                    lines.append({"op": "coerce", "schema": out["ischema"], "defs": idefs, "inputs": wire.enc(item["inputs"])})
                    meta.append(("coerce", (ci, call, item), None))
    def cmp_send(obs: str, inp: Any, call: Dict[str, Any], rec: Dict[str, Any], m: Any, trig: Optional[str]) -> None:
        """what a call REALLY sent (variables at the transport, serialize log) vs what the model says it sends"""
        if m is None:
            res.mismatches.append(Mismatch(obs, inp, {"sent": rec.get("sent"), "exception": rec.get("exception")}, "the arguments denote nothing", trig))
        elif "ok" in m:
            mv = {"variables": wire.dec(m["ok"]["variables"]), "calls": m["ok"]["calls"]}
            if "sent" not in rec:
                res.mismatches.append(Mismatch(obs, inp, {"exception": rec.get("exception"), "message": rec.get("message")}, mv, trig))
            else:
                iv = {"variables": rec["sent"], "calls": canon_log(rec.get("log", []))}
                if not (common.same_json(iv["variables"], mv["variables"], ordered=True) and common.same_json(iv["calls"], mv["calls"])):
                    res.mismatches.append(Mismatch(obs, inp, iv, mv, trig))
                elif len(res.samples) < 4 and len(call["values"]) >= 2:
                    res.sample({"observation": obs, "input": {"op": call["op"], "values": call["values"]}, "impl": iv, "model": mv})
        else:
            want = {"SyntaxError": None, "TypeError": "TypeError", "raised": None, "serialization": "PydanticSerializationError"}.get(m.get("error"))
            if "sent" in rec or (want is not None and rec.get("exception") != want):
                res.mismatches.append(Mismatch(obs, inp, {"sent": rec.get("sent"), "exception": rec.get("exception")}, m, trig))
            res.count("send:model-error:" + str(m.get("error")))

    if st is not None and st.driver_ok and lines:
        model = common.run_driver(PROP, lines)
        for (kind, info, _), m in zip(meta, model):
            if kind == "send":
                ci, call, rec, inside = info
                case = cases[ci]
                trig = inside[0] if inside else None
                inp = {"case": case_key(case), "calls": [call]}
                cmp_send("send", inp, call, rec, m, trig)
            elif kind == "program":
                ci, prog, prec, views = info
                case = cases[ci]
                inp = {"case": case_key(case), "programs": [prog]}
                reqs = m.get("requests", [])
                if len(reqs) != len(views):
                    res.mismatches.append(Mismatch("program", inp, f"{len(views)} calls", f"{len(reqs)} requests"))
                    continue
                for (call, rec, inside), mr in zip(views, reqs):
                    cmp_send("program-send", inp, call, rec, mr, inside[0] if inside else None)
                if "store" in prec:
                    ms = model_store_view(m.get("store", []))
                    if not common.same_json(prec["store"], ms):
                        res.mismatches.append(Mismatch("program-store", inp, prec["store"], ms))
            elif kind == "construct":
                ci, c, origin = info
                case = cases[ci]
                iv, mv = construct_views(c, m)
                res.seen(["construct", case_key(case), c["cls"], c["keys"], origin], nontrivial=bool(c["keys"]))
                res.count("construct:" + case.get("source", "sdl") + ":" + ("ok" if "ok" in iv else "refused"))
                if any(k not in [f["name"] for f in case["inputs"].get(c["cls"], [])] for k in c["keys"]):
                    res.count("construct:keyword-by-attribute-name-or-unknown")
                if not common.same_json(iv, mv):
                    res.mismatches.append(Mismatch("construct", {"case": case_key(case), "constructs": [c["spec"]], "keys": c["keys"]}, iv, mv))
            elif kind == "intended":
                ci, call, rec, inside = info
                case = cases[ci]
                lost = any(py_lost(case, v) for v in call["values"])
                if bool(m.get("lost")) != lost:
                    res.mismatches.append(Mismatch("triggers-value", {"case": case_key(case), "calls": [call]}, {VALUE_TRIGGER: lost},
                                                   {VALUE_TRIGGER: m.get("lost")}))
                if lost:
                    res.count("e2e:inside:" + VALUE_TRIGGER)
                if rec.get("outcome") == "build-error":
                    # model and implementation must agree that the value does not exist: refused <-> inside the trigger
                    if lost != (VALUE_TRIGGER in inside):
                        res.mismatches.append(Mismatch("constructible", {"case": case_key(case), "calls": [call]},
                                                       {"refused": True, "message": rec.get("message")}, {VALUE_TRIGGER: m.get("lost")}))
                    continue
                if lost:
                    # the model says this value cannot be built, the implementation built it
                    res.mismatches.append(Mismatch("constructible", {"case": case_key(case), "calls": [call]}, {"refused": False},
                                                   {VALUE_TRIGGER: True}, VALUE_TRIGGER))
                if call.get("omits_required"):
                    if m["valid"]:
                        res.mismatches.append(Mismatch("hasType", {"calls": [call]}, "a required variable is omitted", m))
                    continue
                exp = expected_received(case, outs[ci][1], call)
                defs = outs[ci][1]["defs"][call["op"]]
                mi = wire.dec(m["intended"])
                mexp = {f"a{i}": mi[d["name"]] for i, d in enumerate(defs) if d["name"] in mi}
                if not m["valid"] or not common.same_json(exp, mexp):
                    res.mismatches.append(Mismatch("intended", {"case": case_key(case), "calls": [call]},
                                                   {"valid": True, "intended": exp}, {"valid": m["valid"], "intended": mexp}))
            else:
                ci, call, item = info
                r = item["result"]
                res.count("coerce:" + ("ok" if "ok" in r else "error"))
                res.seen(["coerce", item["inputs"], call["op"], ci], nontrivial=True)
                mv = {"ok": wire.dec(m["ok"])} if "ok" in m else {"error": True}
                rv = {"ok": r["ok"]} if "ok" in r else {"error": True}
                if not common.same_json(rv, mv):
                    res.mismatches.append(Mismatch("coerceVars", {"sdl": cases[ci]["sdl"], "op": call["op"], "queries": cases[ci]["queries"], "inputs": item["inputs"]}, r, mv))
    return per_case


def run_e2e(ctx: Ctx, st: Optional[LeanStatus], res: Result, cases: List[Dict[str, Any]]) -> Dict[int, List[Failure]]:
    outs = engine.pmap_forked(child_e2e, [(c,) for c in cases], timeout=240)
    per_case = judge_e2e(ctx, st, res, cases, outs)
    for fs in per_case.values():
        res.failures += fs
    return per_case


# --------------------------------------------------------------------------------------------
# corpus / findings
# --------------------------------------------------------------------------------------------


def load_corpus() -> List[Tuple[str, Dict[str, Any]]]:
    d = common.CORPUS / PROP
    out = []
    if d.exists():
        for p in sorted(d.glob("*.json")):
            out.append((p.stem, json.loads(p.read_text())))
    return out


def replay_witnesses(ctx: Ctx, st: Optional[LeanStatus], res: Result) -> None:
    findings = {f["id"]: f for f in common.load_findings(PROP)}
    items = load_corpus()
    if not items:
        return
    cases = []
    for name, payload in items:
        c = dict(payload["case"])
        c.setdefault("want_results", False)
        argwire.finish_case(c)
        c["calls"] = payload.get("calls", [])
        c["constructs"] = payload.get("constructs", [])
        c["programs"] = payload.get("programs", [])
        cases.append(c)
    outs = engine.pmap_forked(child_e2e, [(c,) for c in cases], timeout=240)
    sub = Result()
    per_case = judge_e2e(ctx, st, sub, cases, outs)
    res.mismatches += sub.mismatches
    for i, (name, payload) in enumerate(items):
        fid = payload.get("finding")
        fs = per_case.get(i, [])
        res.count("corpus:replayed")
        if fid and fid in findings:
            want = findings[fid]
            sigs = want["signature"] if isinstance(want["signature"], list) else [want["signature"]]
            hit = [f for f in fs if f.signature in sigs]
            if want.get("status") == "open":
                res.witness_status[fid] = "reproduces" if any(f.trigger == want["trigger"] for f in hit) else "gone"
                res.failures += fs
            else:
                res.witness_status[fid] = "reproduces" if hit else "gone"
                for f in fs:
                    f.trigger = None  # a fixed finding suppresses nothing
                res.failures += fs
        else:
            res.failures += fs


# --------------------------------------------------------------------------------------------
# entry points
# --------------------------------------------------------------------------------------------


def run(ctx: Ctx, st: Optional[LeanStatus]) -> Result:
    res = Result()
    res.rule = ("direct: one evaluation = one (operation, variant) pushed through the real ArgumentsGenerator/add_method and the model, "
                "non-trivial when it declares at least one variable, or one input class (per schema source) compared attribute by attribute; "
                "construct: one evaluation = one constructor call of a really generated input class, non-trivial when it passes a keyword; "
                "program: one evaluation = one call inside a sequence of calls and caller statements over shared objects; "
                "e2e: one evaluation = one call of a real generated method (package generated from schema_path or remote_schema_url), "
                "non-trivial when it passes at least one argument; coerce: one evaluation = one variables object (sent or corrupted) "
                "given to graphql-core and to Spec.Coerce; distinct = distinct canonical inputs")
    res.extra["fingerprints"] = common.fingerprints(ctx, FINGERPRINTS)
    engine.cleanup_scratch()
    replay_witnesses(ctx, st, res)
    ctx.log("corpus replayed")
    run_direct(ctx, st, res, direct_cases(ctx, ctx.budget(300, 3000)))
    ctx.log(f"direct correspondence done ({res.evaluations} evaluations, {len(res.mismatches)} mismatches)")
    run_pycall(ctx, st, res)
    run_e2e(ctx, st, res, e2e_cases(ctx, ctx.budget(42, 420), "e2e"))
    ctx.log(f"end-to-end done ({res.evaluations} evaluations, {len(res.mismatches)} mismatches, {len(res.failures)} oracle failures)")
    run_e2e(ctx, st, res, e2e_cases(ctx, ctx.budget(10, 60), "e2e-triggers", trigger_names=0.5))
    res.oracle_only += [
        "unparse -> autoflake -> isort -> black -> import of the generated client module (observed on real packages, not modelled)",
        "httpx request construction and json.dumps(default=to_jsonable_python) on leaf objects (datetime, enum members): observed at the transport",
    ]
    res.assumptions += [
        "input-model instances are constructed through the generated classes; a value the class refuses (None item in a `[T]!` field: C06-F1 region) is outside 'schema-valid Python arguments' and is not generated",
        "no generated input type has two fields that share a Python name or alias (fooBar/foo_bar, _x/x, class/class_: the region of C18-F1..F5, F7 = C06-F7; "
        "Proved_03 of the constructibility theorems); the construct observation passes valid values only (lax/strict leaf validation is C06's subject)",
        "programs: an instance holds its own copies of the lists handed to its constructor (pydantic validation copies lists and keeps "
        "instances by reference; observed on the real objects by identity), pydantic's model_dump reads without writing (snapshot "
        "comparison), object graphs are acyclic, the caller's statements keep every object schema-valid",
        "the introspection source is served by graphql-core on the same SDL (no deprecated input fields are generated; default values are the ones graphql-core prints)",
        "GraphQL names that do not map to Python identifiers (C18-F4: `$_1` with snake-casing) make generation itself fail (C04/C18); such operations have no method and are not generated here",
        "enum internal values are the enum value names (schemas built from SDL)",
    ]
    return res


def search(ctx: Ctx) -> Result:
    res = Result()
    run_e2e(ctx, None, res, e2e_cases(ctx, 400, "search"))
    return res


def replay(ctx: Ctx, payload: Dict[str, Any]) -> int:
    inp = payload.get("input") or payload
    if "case" not in inp:
        print(json.dumps(payload, indent=1)[:3000])
        return 1
    c = dict(inp["case"])
    c.setdefault("want_results", False)
    argwire.finish_case(c)
    c["calls"] = inp.get("calls", [])
    c["constructs"] = inp.get("constructs", [])
    c["programs"] = inp.get("programs", [])
    outs = engine.pmap_forked(child_e2e, [(c,)], timeout=240)
    res = Result()
    per_case = judge_e2e(ctx, None, res, [c], outs)
    out = outs[0][1] if outs[0][0] == "ok" else {}
    print("schema source:", c.get("source", "sdl"), "generation:", out.get("gen"), "import:", out.get("import"))
    for cons in out.get("constructs", []) if isinstance(out, dict) else []:
        print("construct", cons.get("cls"), "keys", cons.get("keys"), "->", "set " + json.dumps(cons.get("set")) if "set" in cons
              else "refused " + json.dumps({k: cons.get(k) for k in ("missing", "other_errors", "inner") if k in cons})[:300])
    for prog, prec in zip(c["programs"], out.get("programs", []) if isinstance(out, dict) else []):
        k = 0
        for stp in prog["steps"]:
            if stp["k"] == "call":
                rec = prec.get("calls", [])[k] if k < len(prec.get("calls", [])) else {}
                k += 1
                print(f"program call #{k}", stp["op"], "->", rec.get("outcome"), "sent", json.dumps(rec.get("sent"))[:300])
            else:
                print("program statement", json.dumps(stp)[:200])
        if "build_error" in prec or "step_error" in prec:
            print("program error", prec.get("build_error") or prec.get("step_error"))
    for call, rec in zip(c["calls"], out.get("calls", []) if isinstance(out, dict) else []):
        print("call", call["op"], json.dumps(call["values"])[:300])
        print("  ->", rec.get("outcome"), rec.get("exception", ""), "sent", json.dumps(rec.get("sent"))[:300], "received", json.dumps(rec.get("received"))[:300])
    fs = per_case.get(0, [])
    for f in fs:
        print("FAIL", f.signature, f.trigger, f.detail[:300])
    return 1 if fs else 0
