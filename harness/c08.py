"""C08 — fragments and mixins are honoured as reusable base types.

Tie (model = lean/AriadneModel/Model/Fragments.lean on top of Model/ResultTypes.lean and Model/Order.lean,
reference semantics = Spec/Py.lean, theorems = Properties/C08.lean):

  * package-level correspondence: the REAL `get_package_generator(...)`, `add_operation` per operation and
    `FragmentsGenerator.generate(exclude_names=_unpacked_fragments)` are run step by step in a forked child
    on seeded fragment graphs (chains, diamonds, fragments shared by several operations, fragments on
    objects / interfaces / unions, fragments containing inline fragments ("carriers": on the position's own type, on
    an interface of it, on a union containing it), BASE fragments that spread carriers directly or through other
    bases, spreads inside inline fragments on the own type / on an implemented interface, unused fragments) x placements of
    @mixin (field, fragment definition, operation) x shuffled definition orders.  Observed IR: per operation
    classes (bases, fields), mixin / unpacked sets, @mixin imports, names imported from the fragments module;
    the excluded set; the emitted fragments module (fragment order, classes in emitted order, rebuild calls,
    dependency dict, @mixin imports) or its absence or the escaping exception.  Compared with the compiled
    Lean driver (`drv_c08`, op `package`) which gets the iteration order CPython really used for the set.
  * the decidable finding triggers exist in Lean (computed by the model) and in Python (computed from what the
    real generators reported); both are compared on every case.
  * `Spec.Py` (subclass closure, C3 linearisation) is compared with real CPython class creation on the class
    tables of the generated packages and on random tables.
  * the two decisions behind "the type a selection set is evaluated for" are also compared directly and exhaustively per
    schema: `_get_inline_fragment_root_type(cond, root)` on every pair of composite type names, `_unpack_fragment(f, root)` on
    every fragment x every composite type / no root (driver op `decisions`).
  * a failure the oracle finds is a KNOWN finding only inside the region the MODEL computes for that input (the triggers are
    the hypotheses of `C08_partial`); what the implementation under test reports about itself never excuses it.

Oracle (the property itself, independent of the model): the real CLI entry generates the package (mixin classes
provided through `files_to_include`), it is imported, every operation is driven through httpx.MockTransport with
graphql-core executing the sent document; for every selection set that directly spreads a qualifying fragment the
returned object must be an instance of the fragment's class, that class alone must validate the same payload, and
it must exist in the fragments module; @mixin classes must be in `__bases__` of exactly the intended classes.
"""
from __future__ import annotations

import json
import random
import re
import warnings
from pathlib import Path
from typing import Any, Dict, List, Optional, Set, Tuple

from . import common, engine, gqlwire, obs_result
from .common import Ctx, Failure, LeanStatus, Mismatch, Result
from .gen import ops_gen, resolve, schema_gen

PROP = "C08"
TRIG_F1 = "unpackedAndInherited"
TRIG_F3 = "mroConflict"
TRIG_F4 = "siblingUnpacks"

FINGERPRINTS = [
    ("ariadne_codegen/client_generators/fragments.py", "FragmentsGenerator.generate"),
    ("ariadne_codegen/client_generators/fragments.py", "FragmentsGenerator._get_sorted_class_defs"),
    ("ariadne_codegen/client_generators/fragments.py", "FragmentsGenerator._get_sorted_fragments_names"),
    ("ariadne_codegen/client_generators/fragments.py", "FragmentsGenerator._get_model_rebuild_calls"),
    ("ariadne_codegen/client_generators/package.py", "PackageGenerator.add_operation"),
    ("ariadne_codegen/client_generators/package.py", "PackageGenerator._generate_fragments"),
    ("ariadne_codegen/client_generators/result_types.py", "ResultTypesGenerator.__init__"),
    ("ariadne_codegen/client_generators/result_types.py", "ResultTypesGenerator._parse_type_definition"),
    ("ariadne_codegen/client_generators/result_types.py", "ResultTypesGenerator._resolve_selection_set"),
    ("ariadne_codegen/client_generators/result_types.py", "ResultTypesGenerator._get_inline_fragment_root_type"),
    ("ariadne_codegen/client_generators/result_types.py", "ResultTypesGenerator._unpack_fragment"),
    ("ariadne_codegen/client_generators/result_types.py", "ResultTypesGenerator._get_extra_bases_from_mixin_directives"),
    ("ariadne_codegen/client_generators/result_types.py", "ResultTypesGenerator._parse_mixin_arguments"),
    ("ariadne_codegen/client_generators/result_types.py", "ResultTypesGenerator._parse_field_selection_set_types"),
    ("ariadne_codegen/client_generators/result_types.py", "ResultTypesGenerator._add_enums_scalars_fragments_imports"),
    ("ariadne_codegen/client_generators/result_fields.py", "get_fragments_on_subtype"),
    ("ariadne_codegen/client_generators/result_fields.py", "get_inline_fragments_from_selection_set"),
    ("ariadne_codegen/utils.py", "str_to_pascal_case"),
]

MIXIN_DECL = ("directive @mixin(from: String, import: String) repeatable on FIELD | FRAGMENT_DEFINITION | QUERY | MUTATION "
              "| SUBSCRIPTION\n\n")
MIXIN_MODULES = ["mixins_a", "mixins_b"]


def _quiet() -> None:
    warnings.filterwarnings("ignore", message=".*multi-threaded, use of fork.*", category=DeprecationWarning)


def pascal(name: str) -> str:
    """str_to_pascal_case, restated (the oracle must not call the code under test for its expectations)"""
    return "".join(n[:1].upper() + n[1:] for n in name.split("_"))


# --------------------------------------------------------------------------------------------
# generator of fragment graphs
# --------------------------------------------------------------------------------------------

DEFAULT_FEATURES: Dict[str, float] = {
    "alias": 0.12,
    "inline_obj": 0.45,  # inline fragment on an object member at an abstract position
    "inline_same": 0.08,  # inline fragment on the position's own type
    "inline_super": 0.14,  # inline fragment on an interface of the object position
    "spread_in_inline": 0.5,  # a mixin spread inside an inline fragment body
    "spread_same": 0.55,  # spread of a fragment on the position's own type (the qualifying case)
    "spread_same_twice": 0.35,  # a second one (diamonds, two bases)
    "spread_sub": 0.3,  # spread of a fragment on an object member at an abstract position
    "spread_with_inline": 0.2,  # spread of a fragment on the abstract position's type that contains inline fragments
    "spread_iface_at_object": 0.15,  # fragment on an interface spread at an object position (unpacked)
    "spread_union_at_object": 0.08,  # fragment on a union spread at a member's position (unpacked)
    # "carriers" = fragments that contain inline fragments (always unpacked).  A fragment that merely SPREADS a carrier has no
    # inline fragment among its own top-level selections and stays a base class: the decision looks at the top level only.
    "iface_carrier": 0.5,  # the interface fragment spread at an object position contains inline fragments
    "spread_same_carrier": 0.12,  # object position / fragment on an object spreads a fragment on the SAME type made of inline fragments
    "carrier_in_fragment": 0.6,  # the union / same-type carriers above also inside fragment definitions (bases that spread carriers)
    "carrier_in_carrier": 0.15,  # a carrier on an abstract type spreads another carrier on the same type
    "spread_in_super_inline": 0.6,  # `... on Iface { ...FragOnIface }` at an object position (the fragment is inherited)
    "carrier_in_iface_base": 0.0,  # a base fragment on an INTERFACE spreads a carrier (sub-type classes appear: C08-F1/F4 region)
    "nested_spread": 0.45,  # fragments spreading fragments (chains)
    "reuse": 0.5,  # reuse an existing fragment instead of making a new one (sharing, diamonds)
    "reuse_conflicting": 0.0,  # reuse a fragment in a role that conflicts with an earlier use (finding C08-F1 region)
    "base_and_derived": 0.0,  # spread a fragment together with one of its own mixins (finding C08-F3 region)
    "abstract_in_mixin": 0.0,  # abstract-typed field inside a fragment that may be inherited (finding C01-F4)
    "mixin_field": 0.12,  # @mixin on a composite field
    "mixin_fragment": 0.15,  # @mixin on a fragment definition
    "mixin_twice": 0.3,  # two @mixin directives on the same node (the directive is repeatable)
    "mixin_operation": 0.0,  # @mixin on the operation (needs the directive declared by the schema)
    "mixin_malformed": 0.0,  # @mixin with a missing / non-literal argument (documented refusal)
    "unused": 0.5,  # fragments no operation spreads
    "typename": 0.1,
    "depth": 3,
}


class FragGraphGen:
    """Operations and fragments over a schema_gen schema; selection IR of gen/ops_gen.py."""

    def __init__(self, schema: Dict[str, Any], rng: random.Random, features: Optional[Dict[str, float]] = None) -> None:
        self.schema = schema
        self.tm = schema_gen.type_map(schema)
        self.rng = rng
        self.f = dict(DEFAULT_FEATURES)
        if features:
            self.f.update(features)
        self.fragments: List[Dict[str, Any]] = []
        self.by_type: Dict[str, List[str]] = {}
        self.roles: Dict[str, Set[str]] = {}  # fragment -> {"mixin", "unpacked"} as used directly by operations / fragments
        self.mixin_n = 0
        self.mixin_classes: List[Tuple[str, str]] = []  # (module, class)
        self._frag_n = 0
        self._na = 0  # > 0 while generating below a fragment that may become a base class (no abstract-typed fields: C01-F4)
        # non-empty while generating what an ABSTRACT position reaches through top-level spreads (see foreign_inline): the object
        # member types whose fragments are being spread there
        self._plain: List[str] = []
        # > 0 while generating a fragment on an INTERFACE that an OBJECT class will inherit (`... on Iface { ...F }`): the class of F
        # is generated for the interface and silently drops F's member-typed inline fragments (C01-F5 "dropped selection"), so F
        # must not reach inline fragments at all there
        self._no_carrier = 0
        self._unions_of: Dict[str, List[str]] = {}
        for t in schema["types"]:
            if t["kind"] == "union":
                for m in t["members"]:
                    self._unions_of.setdefault(m, []).append(t["name"])

    def p(self, key: str) -> bool:
        return self.rng.random() < self.f[key]

    def kind(self, name: str) -> str:
        t = self.tm.get(name)
        return t["kind"] if t else "scalar"

    def is_composite(self, name: str) -> bool:
        return self.kind(name) in ("object", "interface", "union")

    def fields_of(self, name: str) -> List[Dict[str, Any]]:
        t = self.tm.get(name)
        return t["fields"] if t and t["kind"] in ("object", "interface") else []

    def frag(self, name: str) -> Dict[str, Any]:
        return next(f for f in self.fragments if f["name"] == name)

    # ---- @mixin
    def mixin_dir(self, key: str) -> List[Dict[str, Any]]:
        if not self.p(key):
            return []
        out = []
        for _ in range(2 if self.p("mixin_twice") else 1):  # the directive is repeatable
            self.mixin_n += 1
            mod = MIXIN_MODULES[self.mixin_n % 2]
            cls = f"Mixin{self.mixin_n}"
            self.mixin_classes.append((mod, cls))
            d: Dict[str, Any] = {"name": "mixin", "from": "." + mod, "import": cls}
            if self.p("mixin_malformed"):
                d["malformed"] = self.rng.choice(["no-import", "no-from"])
            out.append(d)
        return out

    # ---- composite response keys a selection set contributes to the object it is merged into
    def composite_keys(self, sel: List[Dict[str, Any]], seen: Optional[Set[str]] = None) -> Set[str]:
        seen = seen if seen is not None else set()
        out: Set[str] = set()
        for s in sel:
            if s["k"] == "field":
                if s["sel"]:
                    out.add(s.get("alias") or s["name"])
            elif s["k"] == "inline":
                out |= self.composite_keys(s["sel"], seen)
            elif s["name"] not in seen:
                seen.add(s["name"])
                out |= self.composite_keys(self.frag(s["name"])["sel"], seen)
        return out

    def has_inline(self, f: Dict[str, Any]) -> bool:
        return any(s["k"] == "inline" for s in f["sel"])

    def foreign_inline(self, name: str, on: str, seen: Optional[Set[str]] = None) -> bool:
        """does `name` reach, through top-level spreads, an inline fragment on a type other than `on`?  parse_operation_field
        collects those (get_inline_fragments_from_selection_set follows spreads) as sub-type classes of an abstract position that
        spreads `name`, whatever their type condition: classes for types the position cannot have (C01-F5 region, a valid
        operation may be refused with ParsingError) - not generated here."""
        seen = seen if seen is not None else set()
        if name in seen:
            return False
        seen.add(name)
        for s in self.frag(name)["sel"]:
            if s["k"] == "inline" and s["on"] != on:
                return True
            if s["k"] == "spread" and self.foreign_inline(s["name"], on, seen):
                return True
        return False

    def abstract_field_in(self, sel: List[Dict[str, Any]], type_name: str, seen: Set[str]) -> bool:
        """an interface- / union-typed field anywhere below (through spreads and inline fragments)"""
        for s in sel:
            if s["k"] == "field" and s["sel"]:
                fd = next((f for f in self.fields_of(type_name) if f["name"] == s["name"]), None)
                base = schema_gen.unwrap(fd["type"]) if fd else None
                if base is None or self.kind(base) in ("interface", "union") or self.abstract_field_in(s["sel"], base, seen):
                    return True
            elif s["k"] == "inline" and self.abstract_field_in(s["sel"], s["on"], seen):
                return True
            elif s["k"] == "spread" and s["name"] not in seen:
                seen.add(s["name"])
                g = self.frag(s["name"])
                if self.abstract_field_in(g["sel"], g["on"], seen):
                    return True
        return False

    def mixins_of(self, name: str) -> Set[str]:
        """fragments the class of `name` inherits directly when it is generated for its own type (also those that reach it
        through fragments / inline fragments that are unpacked into it)"""
        f = self.frag(name)
        out: Set[str] = set()
        self._collect_mixins(f["sel"], f["on"], out, {name})
        return out

    def _collect_mixins(self, sel: List[Dict[str, Any]], root: str, out: Set[str], seen: Set[str]) -> None:
        for s in sel:
            if s["k"] == "spread":
                g = self.frag(s["name"])
                if g["on"] == root and not self.has_inline(g) and self.kind(g["on"]) != "union":
                    out.add(g["name"])
                elif g["name"] not in seen and (g["on"] == root or (self.kind(g["on"]) in ("interface", "union")
                                                                     and root in schema_gen.possible_types(self.schema, g["on"]))):
                    self._collect_mixins(g["sel"], root, out, seen | {g["name"]})
            elif s["k"] == "inline":
                on = s["on"]
                if on == root:
                    self._collect_mixins(s["sel"], root, out, seen)
                elif self.kind(root) == "object" and on in self.tm[root]["interfaces"]:
                    self._collect_mixins(s["sel"], on, out, seen)

    def ancestors(self, name: str) -> Set[str]:
        out: Set[str] = set()
        todo = [name]
        while todo:
            for m in self.mixins_of(todo.pop()):
                if m not in out:
                    out.add(m)
                    todo.append(m)
        return out

    # ---- fragments
    def get_fragment(self, on: str, depth: int, scope: Set[str], role: str, want_inline: bool = False,
                     avoid: Optional[Set[str]] = None) -> Optional[str]:
        """an existing fragment on `on` that fits (sharing), or a new one; `role` = how this use treats it"""
        avoid = avoid or set()
        cands = [n for n in self.by_type.get(on, []) if n not in avoid and self.has_inline(self.frag(n)) == want_inline
                 and not (self._plain and self.foreign_inline(n, self._plain[-1]))
                 and not (self._no_carrier and self.foreign_inline(n, ""))
                 and not (self._na and self.abstract_field_in(self.frag(n)["sel"], on, set()))]
        self.rng.shuffle(cands)
        if self.p("reuse"):
            for n in cands:
                if self.composite_keys(self.frag(n)["sel"]) & scope:
                    continue
                other = {"mixin": "unpacked", "unpacked": "mixin"}[role]
                if other in self.roles.get(n, set()) and not self.p("reuse_conflicting"):
                    continue
                self.note_role(n, role)
                scope |= self.composite_keys(self.frag(n)["sel"])
                return n
        n = self.new_fragment(on, depth, scope, want_inline)
        if n:
            self.note_role(n, role)
        return n

    def note_role(self, name: str, role: str) -> None:
        self.roles.setdefault(name, set()).add(role)
        if role == "unpacked":
            # everything an unpacked fragment spreads is evaluated for the spreading position's type as well
            f = self.frag(name)
            for s in f["sel"]:
                if s["k"] == "spread":
                    self.note_role(s["name"], "unpacked" if self.frag(s["name"])["on"] == f["on"] else "unpacked")

    def new_fragment(self, on: str, depth: int, scope: Set[str], want_inline: bool) -> Optional[str]:
        self._frag_n += 1
        name = self.rng.choice(["Frag", "part", "Bits", "fields", "Zed", "aa"]) + self.rng.choice(["A", "B", "_c", "Of", ""]) + str(self._frag_n)
        no_abstract = (not want_inline and self.kind(on) != "union") or self._na > 0
        sel = self.sel_set(on, depth, scope, in_fragment=True, allow_inline=want_inline, no_abstract=no_abstract,
                           force_inline=want_inline)
        if not sel:
            return None
        if want_inline != any(s["k"] == "inline" for s in sel):
            return None
        self.fragments.append({"name": name, "on": on, "sel": sel, "dirs": self.mixin_dir("mixin_fragment")})
        self.by_type.setdefault(on, []).append(name)
        return name

    # ---- selection sets
    def leaf_field(self, fd: Dict[str, Any], used: Set[str]) -> Optional[Dict[str, Any]]:
        alias = None
        if self.p("alias"):
            alias = self.rng.choice(["a", "renamed", "myAlias", "x"]) + str(self.rng.randint(1, 99))
        key = alias or fd["name"]
        if key in used:
            return None
        used.add(key)
        return {"k": "field", "alias": alias, "name": fd["name"], "args": [], "dirs": [], "sel": []}

    def fields(self, type_name: str, depth: int, scope: Set[str], used: Set[str], no_abstract: bool, at_least_one: bool = True) -> List[Dict[str, Any]]:
        out: List[Dict[str, Any]] = []
        fdefs = list(self.fields_of(type_name))
        self.rng.shuffle(fdefs)
        want = self.rng.randint(1, 3)
        for fd in fdefs:
            if len(out) >= want:
                break
            base = schema_gen.unwrap(fd["type"])
            if self.is_composite(base):
                if depth <= 0 or fd["name"] in scope or fd["name"] in used:
                    continue
                if no_abstract and self.kind(base) in ("interface", "union") and not self.p("abstract_in_mixin"):
                    continue
                sub = self.sel_set(base, depth - 1, set(), no_abstract=no_abstract)
                if not sub:
                    continue
                scope.add(fd["name"])
                used.add(fd["name"])
                out.append({"k": "field", "alias": None, "name": fd["name"], "args": [], "dirs": self.mixin_dir("mixin_field"), "sel": sub})
            else:
                f = self.leaf_field(fd, used)
                if f:
                    out.append(f)
        if at_least_one and not out:
            for fd in fdefs:
                if not self.is_composite(schema_gen.unwrap(fd["type"])) and fd["name"] not in used:
                    used.add(fd["name"])
                    out.append({"k": "field", "alias": None, "name": fd["name"], "args": [], "dirs": [], "sel": []})
                    break
        return out

    def spread(self, name: str) -> Dict[str, Any]:
        return {"k": "spread", "name": name, "dirs": []}

    def mixin_spreads(self, type_name: str, depth: int, scope: Set[str], in_fragment: bool) -> List[Dict[str, Any]]:
        """qualifying spreads: fragments on exactly this type, without inline fragments"""
        out: List[Dict[str, Any]] = []
        if not self.p("spread_same"):
            return out
        d = depth if self.p("nested_spread") else max(depth - 1, 0)
        taken: Set[str] = set()
        n1 = self.get_fragment(type_name, d, scope, "mixin")
        if n1:
            out.append(self.spread(n1))
            taken |= {n1} | self.ancestors(n1)
            if self.p("base_and_derived"):
                # a fragment together with one OR SEVERAL of its own ancestors (a whole chain spread at one position)
                anc = sorted(self.ancestors(n1))
                if anc:
                    k = 1
                    while k < len(anc) and self.rng.random() < 0.5:
                        k += 1
                    for a in self.rng.sample(anc, k):
                        out.append(self.spread(a))
            if self.p("spread_same_twice"):
                # a second base; never an ancestor / descendant of the first (that is the C08-F3 region)
                avoid = set(taken) | {n for n in self.by_type.get(type_name, []) if n1 in self.ancestors(n)}
                n2 = self.get_fragment(type_name, d, scope, "mixin", avoid=avoid)
                if n2 and n2 not in taken and not (self.ancestors(n2) & taken - self.shared_ok(n1, n2)):
                    out.append(self.spread(n2))
        return out

    def shared_ok(self, a: str, b: str) -> Set[str]:
        # common ancestors are fine (diamonds): class C(A, B), A(D), B(D)
        return self.ancestors(a) & self.ancestors(b)

    def sel_set(self, type_name: str, depth: int, scope: Set[str], in_fragment: bool = False, allow_inline: bool = True,
                no_abstract: bool = False, force_inline: bool = False) -> List[Dict[str, Any]]:
        self._na += 1 if no_abstract else 0
        try:
            return self._sel_set(type_name, depth, scope, in_fragment, allow_inline, no_abstract, force_inline)
        finally:
            self._na -= 1 if no_abstract else 0

    def _sel_set(self, type_name: str, depth: int, scope: Set[str], in_fragment: bool, allow_inline: bool,
                 no_abstract: bool, force_inline: bool) -> List[Dict[str, Any]]:
        kind = self.kind(type_name)
        used: Set[str] = set()
        sel: List[Dict[str, Any]] = []
        if kind in ("object", "interface"):
            sel += self.fields(type_name, depth, scope, used, no_abstract)
        if self.p("typename") or (kind == "union" and self.rng.random() < 0.3):
            sel.insert(self.rng.randint(0, len(sel)), {"k": "field", "alias": None, "name": "__typename", "args": [], "dirs": [], "sel": []})
        has_subtype_classes = False
        if kind in ("interface", "union") and allow_inline:
            members = schema_gen.possible_types(self.schema, type_name)
            self.rng.shuffle(members)
            for m in members:
                r = self.rng.random()
                if r < self.f["inline_obj"]:
                    sub = self.fields(m, depth, scope, set(used), no_abstract)
                    if sub and self.p("spread_in_inline"):
                        sub += self.mixin_spreads(m, depth, scope, in_fragment)
                    if sub:
                        sel.append({"k": "inline", "on": m, "dirs": [], "sel": sub})
                        has_subtype_classes = True
                elif r < self.f["inline_obj"] + self.f["spread_sub"] and not in_fragment:
                    # (inside a fragment that gets unpacked such a spread is dropped from the class and from the
                    # sent document: C01/C02 finding region, not generated here)
                    self._plain.append(m)
                    try:
                        fn = self.get_fragment(m, depth, scope, "mixin")
                    finally:
                        self._plain.pop()
                    if fn:
                        sel.append(self.spread(fn))
                        has_subtype_classes = True
            if self.p("spread_with_inline") and not in_fragment:
                fn = self.get_fragment(type_name, depth, scope, "unpacked", want_inline=True)
                if fn:
                    sel.append(self.spread(fn))
                    has_subtype_classes = True
            elif in_fragment and self.p("carrier_in_carrier"):
                fn = self.get_fragment(type_name, max(depth - 1, 0), scope, "unpacked", want_inline=True)
                if fn:
                    sel.append(self.spread(fn))
                    has_subtype_classes = True
        if kind in ("object", "interface"):
            want_same = self.p("inline_same") and allow_inline
            want_super = kind == "object" and allow_inline and self.p("inline_super") and not (self._plain and in_fragment)
            if force_inline and kind == "object" and not (want_same or want_super):
                # a carrier on an object type: its inline fragments are on the type itself or on one of its interfaces
                if self.tm[type_name]["interfaces"] and self.rng.random() < 0.5 and not self._plain:
                    want_super = True
                else:
                    want_same = True
            if want_same:
                sub = self.fields(type_name, depth, scope, used, no_abstract, at_least_one=False)
                if sub and kind == "object" and self.p("spread_in_inline"):
                    sub += self.mixin_spreads(type_name, depth, scope, in_fragment)
                if sub:
                    sel.append({"k": "inline", "on": type_name, "dirs": [], "sel": sub})
                    has_subtype_classes = has_subtype_classes or kind == "interface"
            if want_super:
                ifaces = self.tm[type_name]["interfaces"]
                if ifaces:
                    i = self.rng.choice(ifaces)
                    sub = self.fields(i, 0, scope, used, no_abstract, at_least_one=False)
                    if sub and self.p("spread_in_super_inline"):
                        # evaluated for the interface: a fragment on the interface is INHERITED by the object's class
                        self._no_carrier += 1
                        try:
                            sub += self.mixin_spreads(i, min(depth, 1), scope, in_fragment)
                        finally:
                            self._no_carrier -= 1
                    if sub:
                        sel.append({"k": "inline", "on": i, "dirs": [], "sel": sub})
            inner = (not in_fragment) or self.p("carrier_in_fragment")
            foreign = not (self._plain and in_fragment)  # carriers on other types than the position's own
            if kind == "object" and self.p("spread_iface_at_object"):
                ifaces = self.tm[type_name]["interfaces"]
                if ifaces:
                    carrier = self.p("iface_carrier") and foreign
                    fn = self.get_fragment(self.rng.choice(ifaces), min(depth, 1), scope, "unpacked", want_inline=carrier)
                    if fn:
                        sel.append(self.spread(fn))
            if kind == "object" and self._unions_of.get(type_name) and self.p("spread_union_at_object") and inner and foreign:
                u = self.rng.choice(self._unions_of[type_name])
                fn = self.get_fragment(u, min(depth, 1), scope, "unpacked", want_inline=True)
                if fn:
                    sel.append(self.spread(fn))
            if kind == "object" and inner and self.p("spread_same_carrier"):
                fn = self.get_fragment(type_name, min(max(depth - 1, 0), 1), scope, "unpacked", want_inline=True)
                if fn:
                    sel.append(self.spread(fn))
            if (kind == "interface" and in_fragment and not allow_inline and not self._plain and not self._no_carrier
                    and self.p("carrier_in_iface_base")):
                fn = self.get_fragment(type_name, min(depth, 1), scope, "unpacked", want_inline=True)
                if fn:
                    sel.append(self.spread(fn))
            # a qualifying spread at an interface position that also gets sub-type classes is unpacked into
            # those classes AND inherited by the interface class: finding C08-F1 within one operation
            if not (kind == "interface" and has_subtype_classes) or self.p("reuse_conflicting"):
                sel += self.mixin_spreads(type_name, depth, scope, in_fragment)
        return self.prune_mro_hazards(sel, type_name)

    def prune_mro_hazards(self, sel: List[Dict[str, Any]], type_name: str) -> List[Dict[str, Any]]:
        """The classes generated for one selection set collect their fragment bases from several places (top-level spreads,
        inline fragments on the own type / on an interface, carriers unpacked into them).  A base together with one of its own
        ancestors is the C08-F3 region (alphabetical base order CPython may not linearise): selections that would complete such
        a pair are dropped here unless the region is asked for."""
        if self.f["base_and_derived"] > 0:
            return sel
        roots = [type_name] + ([m for m in schema_gen.possible_types(self.schema, type_name) if m != type_name]
                               if self.kind(type_name) in ("interface", "union") else [])
        taken: Dict[str, Set[str]] = {r: set() for r in roots}
        out: List[Dict[str, Any]] = []
        for s in sel:
            if s["k"] == "field":
                out.append(s)
                continue
            ok = True
            new: Dict[str, Set[str]] = {}
            for r in roots:
                got: Set[str] = set()
                self._collect_mixins([s], r, got, set())
                new[r] = got
                both = taken[r] | got
                if got - taken[r] and any(self.ancestors(a) & both for a in both):
                    ok = False
                    break
            if ok:
                out.append(s)
                for r in roots:
                    taken[r] |= new[r]
        return out

    # ---- operations
    def gen_operation(self, name: str, kind: str) -> Optional[Dict[str, Any]]:
        root = self.schema.get(kind)
        if not root:
            return None
        sel = self.sel_set(root, int(self.f["depth"]), set())
        if not sel:
            return None
        return {"kind": kind, "name": name, "vars": [], "dirs": self.mixin_dir("mixin_operation"), "sel": sel}


OP_NAMES = ["GetThing", "listItems", "FetchAll", "search_nodes", "Q1", "loadPage", "viewer", "Overview"]


def render_case_document(ops: List[Dict[str, Any]], frags: List[Dict[str, Any]], order: List[int]) -> str:
    """definitions in the given (shuffled) order; malformed @mixin variants are rendered here"""
    defs: List[Tuple[str, Dict[str, Any]]] = [("op", o) for o in ops] + [("frag", f) for f in frags]
    out = []
    for i in order:
        k, d = defs[i]
        out.append(ops_gen.render_operation(d) if k == "op" else ops_gen.render_fragment(d))
    return "\n\n".join(out) + "\n"


def gen_case(rng: random.Random, features: Optional[Dict[str, float]] = None, label: str = "rand") -> Optional[Dict[str, Any]]:
    feats = dict(features or {})
    schema = schema_gen.gen_schema(rng, size=rng.randint(1, 2), abstract=True, inputs=False, custom_scalars=rng.random() < 0.3,
                                   mutation=rng.random() < 0.3, field_args=False, custom_root_names=0.05)
    g = FragGraphGen(schema, rng, feats)
    ops = []
    for n in rng.sample(OP_NAMES, rng.randint(1, 3)):
        k = "mutation" if schema.get("mutation") and rng.random() < 0.25 else "query"
        op = g.gen_operation(n, k)
        if op:
            ops.append(op)
    if not ops:
        return None
    # unused fragments (they may spread used ones: dependencies from fragments nobody spreads)
    if g.p("unused"):
        for _ in range(rng.randint(1, 2)):
            t = rng.choice([t["name"] for t in schema["types"] if t["kind"] in ("object", "interface", "union")
                            and t["name"] not in (schema.get("query"), schema.get("mutation"))] or [schema["query"]])
            if g.kind(t) == "union":
                g.new_fragment(t, 1, set(), True)
            else:
                name = g.new_fragment(t, 2, set(), False)
                if name:
                    extra = g.mixin_spreads(t, 1, set(g.composite_keys(g.frag(name)["sel"])), True)
                    g.frag(name)["sel"] += [s for s in extra if s["name"] != name and name not in g.ancestors(s["name"])]
    frags = g.fragments
    order = list(range(len(ops) + len(frags)))
    rng.shuffle(order)
    text = render_case_document(ops, frags, order)
    declare = any(o.get("dirs") for o in ops)
    # malformed @mixin arguments (documented refusal): rendered by substitution on the directive text
    malformed = []
    for holder in _all_dir_holders(ops, frags):
        for d in holder:
            if d.get("malformed"):
                good = f'@mixin(from: "{d["from"]}", import: "{d["import"]}")'
                bad = {"no-import": f'@mixin(from: "{d["from"]}")', "no-from": f'@mixin(import: "{d["import"]}")'}[d["malformed"]]
                text = text.replace(good, bad)
                malformed.append(d["malformed"])
    sdl = (MIXIN_DECL if declare else "") + schema_gen.to_sdl(schema)
    calls = []
    for o in ops:
        for s in range(2):
            calls.append({"op": o["name"], "seed": rng.randint(0, 10**6)})
    return {"id": f"{label}-{common.stable_hash(text + sdl)[:10]}", "sdl": sdl, "server_sdl": (MIXIN_DECL if not declare else "") + sdl,
            "queries": text, "mixins": g.mixin_classes, "calls": calls, "malformed": malformed,
            "stats": {"ops": len(ops), "frags": len(frags)}}


# ---- a dense family for "bases vs. C3": every sub-DAG of fragments on one object type, spread together at one position ----

MRO_SDL = ("type Query {\n  user: User\n  users: [User!]!\n  node: Node\n}\n\ninterface Node {\n  id: ID!\n  label: String\n}\n\n"
           "type User implements Node {\n  id: ID!\n  label: String\n  name: String\n  email: String\n  age: Int\n  bio: String\n  city: String\n}\n")
MRO_FIELDS = ["name", "email", "age", "bio", "city", "id", "label"]
MRO_NAMES = ["Alpha", "beta", "Core", "delta_view", "Extra", "full", "Gamma", "head_part", "Info", "joined", "Zed", "aa", "Mid", "omega"]


def gen_mro_case(rng: random.Random, label: str = "mro") -> Dict[str, Any]:
    """k fragments on `User` forming a random DAG (fragment i spreads fragment j only for i < j: chains, diamonds, shared
    ancestors, isolated ones), named by a random assignment (so the alphabetical order of the names is independent of who derives
    from whom), some on the interface `Node` reached through `... on Node { ... }`; operations spread a random subset of them
    TOGETHER at one position (directly, or partly inside `... on User` / `... on Node`), optionally with @mixin on the field.
    The model decides which of these lie in the C08-F3 region (alphabetical base order CPython cannot linearise)."""
    k = rng.randint(2, 5)
    names = rng.sample(MRO_NAMES, k)
    on_iface = [rng.random() < 0.15 for _ in range(k)]
    dens = rng.choice([0.3, 0.5, 0.8])
    frags: List[Dict[str, Any]] = []
    for i in range(k):
        on = "Node" if on_iface[i] else "User"
        fld = rng.choice(["id", "label"]) if on_iface[i] else MRO_FIELDS[i % len(MRO_FIELDS)]
        sel: List[Dict[str, Any]] = [{"k": "field", "alias": None, "name": fld, "args": [], "dirs": [], "sel": []}]
        for j in range(i + 1, k):
            if rng.random() < dens:
                sp = {"k": "spread", "name": names[j], "dirs": []}
                if on_iface[j] and not on_iface[i]:
                    sel.append({"k": "inline", "on": "Node", "dirs": [], "sel": [sp]})  # makes fragment i a carrier (unpacked)
                elif on_iface[j] == on_iface[i]:
                    sel.append(sp)
        rng.shuffle(sel)
        frags.append({"name": names[i], "on": on, "sel": sel, "dirs": []})
    mixins: List[Tuple[str, str]] = []
    ops = []
    for oi, opname in enumerate(rng.sample(OP_NAMES, rng.randint(1, 2))):
        fld = rng.choice(["user", "users"])
        chosen = [i for i in range(k) if rng.random() < 0.7] or [0]
        direct: List[Dict[str, Any]] = []
        in_own: List[Dict[str, Any]] = []
        in_node: List[Dict[str, Any]] = []
        for i in chosen:
            sp = {"k": "spread", "name": names[i], "dirs": []}
            if on_iface[i]:
                in_node.append(sp)
            elif rng.random() < 0.12:
                in_own.append(sp)
            else:
                direct.append(sp)
        sel = [{"k": "field", "alias": None, "name": "id", "args": [], "dirs": [], "sel": []}] + direct
        if in_own:
            sel.append({"k": "inline", "on": "User", "dirs": [], "sel": in_own})
        if in_node:
            sel.append({"k": "inline", "on": "Node", "dirs": [], "sel": in_node})
        rng.shuffle(sel)
        dirs = []
        if rng.random() < 0.3:
            cls = f"Mixin{oi + 1}"
            mixins.append((MIXIN_MODULES[oi % 2], cls))
            dirs = [{"name": "mixin", "from": "." + MIXIN_MODULES[oi % 2], "import": cls}]
        ops.append({"kind": "query", "name": opname, "vars": [], "dirs": [],
                    "sel": [{"k": "field", "alias": None, "name": fld, "args": [], "dirs": dirs, "sel": sel}]})
    order = list(range(len(ops) + len(frags)))
    rng.shuffle(order)
    text = render_case_document(ops, frags, order)
    calls = [{"op": o["name"], "seed": rng.randint(0, 10**6)} for o in ops]
    return {"id": f"{label}-{common.stable_hash(text)[:10]}", "sdl": MRO_SDL, "server_sdl": MIXIN_DECL + MRO_SDL, "queries": text,
            "mixins": mixins, "calls": calls, "malformed": [], "null_p": 0.0, "stats": {"ops": len(ops), "frags": len(frags)}}


def make_mro_cases(rng: random.Random, n: int, label: str = "mro") -> List[Dict[str, Any]]:
    out: List[Dict[str, Any]] = []
    seen: Set[str] = set()
    tries = 0
    while len(out) < n and tries < n * 4:
        tries += 1
        c = gen_mro_case(rng, label)
        if c["id"] in seen:
            continue
        ok, _ = valid_case(c)
        if ok:
            seen.add(c["id"])
            out.append(c)
    return out


def _all_dir_holders(ops: List[Dict[str, Any]], frags: List[Dict[str, Any]]) -> List[List[Dict[str, Any]]]:
    out: List[List[Dict[str, Any]]] = []

    def walk(sel: List[Dict[str, Any]]) -> None:
        for s in sel:
            if s.get("dirs"):
                out.append(s["dirs"])
            if s["k"] != "spread":
                walk(s.get("sel", []))

    for o in ops:
        if o.get("dirs"):
            out.append(o["dirs"])
        walk(o["sel"])
    for f in frags:
        if f.get("dirs"):
            out.append(f["dirs"])
        walk(f["sel"])
    return out


def mixin_files(case: Dict[str, Any]) -> Dict[str, str]:
    files: Dict[str, List[str]] = {}
    for mod, cls in case.get("mixins", []):
        files.setdefault(mod.lstrip("."), []).append(cls)
    return {m + ".py": "".join(f"class {c}:\n    def mixed_in(self):\n        return \"{c}\"\n\n\n" for c in cs) for m, cs in files.items()}


def valid_case(case: Dict[str, Any]) -> Tuple[bool, str]:
    """graphql-core is the judge: what main.client would accept (all specified rules but NoUnusedFragments)"""
    from graphql import build_schema, parse, specified_rules, validate
    from graphql.validation import NoUnusedFragmentsRule

    try:
        schema = build_schema(case["server_sdl"])
        doc = parse(case["queries"])
    except Exception as e:  # noqa: BLE001
        return False, f"{type(e).__name__}: {e}"
    errs = validate(schema, doc, rules=[r for r in specified_rules if r is not NoUnusedFragmentsRule])
    return (not errs), "; ".join(e.message for e in errs[:2])


def make_cases(rng: random.Random, n: int, features: Optional[Dict[str, float]] = None, label: str = "rand") -> List[Dict[str, Any]]:
    out: List[Dict[str, Any]] = []
    tries = 0
    while len(out) < n and tries < n * 6:
        tries += 1
        c = gen_case(rng, features, label)
        if c is None:
            continue
        ok, why = valid_case(c)
        if ok:
            out.append(c)
    return out


# --------------------------------------------------------------------------------------------
# observer: the REAL PackageGenerator / FragmentsGenerator, step by step (forked child)
# --------------------------------------------------------------------------------------------


def _classify(e: BaseException) -> Dict[str, Any]:
    out: Dict[str, Any] = {"error": engine.classify_exception(type(e).__name__)}
    if isinstance(e, (KeyError, ValueError)) and e.args:
        m = re.match(r"'(.*)' is not in list", str(e)) if isinstance(e, ValueError) else None
        out["key"] = m.group(1) if m else (e.args[0] if isinstance(e.args[0], str) else repr(e.args[0]))
    return out


def _def_ir(name: str, g: Any, fragments_module: str) -> Dict[str, Any]:
    import ast

    mixin_imports, frag_imports = [], []
    for i in g.get_imports()[3:]:
        if not isinstance(i, ast.ImportFrom):
            continue
        if i.level == 1 and i.module == fragments_module:
            frag_imports += [a.name for a in i.names]
        elif i.level == 0 and i.module not in ("typing", "pydantic"):
            mixin_imports += [[i.module, a.name] for a in i.names]
    return {"name": name, "classes": [obs_result.class_to_json(c) for c in g.get_classes()],
            "mixins": sorted(g.get_fragments_used_as_mixins()), "unpacked": sorted(g.get_unpacked_fragments()),
            "mixinImports": mixin_imports, "fragmentImports": sorted(frag_imports)}


@engine.with_scratch
def observe_package(root: Path, case: Dict[str, Any]) -> Dict[str, Any]:
    """-> {"line": op-line for the Lean driver, "impl": observed IR}"""
    import ast

    from graphql import FragmentDefinitionNode, OperationDefinitionNode, build_ast_schema, parse

    schema = build_ast_schema(parse(case["sdl"]), assume_valid=True)
    schema_json = gqlwire.schema_to_json(schema)
    doc = parse(case["queries"])
    sids = gqlwire.Sids()
    doc_json = gqlwire.document_to_json(doc, sids)
    snake = case.get("snake", True)
    line = {"op": "package", "schema": schema_json, "fragments": doc_json["fragments"], "scalars": [], "snake": snake,
            "operations": doc_json["operations"], "listing": []}
    try:
        import ariadne_codegen.client_generators.fragments as fragmod
        import ariadne_codegen.client_generators.package as pkgmod
        from ariadne_codegen.client_generators.result_types import ResultTypesGenerator
        from ariadne_codegen.plugins.manager import PluginManager
        from ariadne_codegen.schema import add_mixin_directive_to_schema
        from ariadne_codegen.settings import ClientSettings

        (root / "schema.graphql").write_text(case["sdl"])
        (root / "queries.graphql").write_text(case["queries"])
        schema = add_mixin_directive_to_schema(schema)
        settings = ClientSettings(schema_path=str(root / "schema.graphql"), queries_path=str(root / "queries.graphql"),
                                  target_package_path=str(root), target_package_name="gen_pkg", include_comments="none",
                                  convert_to_snake_case=snake)
        log: List[Any] = []

        class Rec(ResultTypesGenerator):  # records every generator the package / fragments generators create
            def __init__(self, *a: Any, **k: Any) -> None:
                super().__init__(*a, **k)
                log.append(self)

        pkgmod.ResultTypesGenerator = Rec  # type: ignore[misc]
        fragmod.ResultTypesGenerator = Rec  # type: ignore[misc]
        frag_nodes = [d for d in doc.definitions if isinstance(d, FragmentDefinitionNode)]
        op_nodes = [d for d in doc.definitions if isinstance(d, OperationDefinitionNode)]
        pg = pkgmod.get_package_generator(schema=schema, fragments=frag_nodes, settings=settings,
                                          plugin_manager=PluginManager(schema=schema, config_dict={}, plugins_types=[]))
        fmod_name = pg.fragments_module_name
    except (AttributeError, ImportError, TypeError) as e:
        return {"line": line, "impl": {"observer": f"{type(e).__name__}: {e}"}}

    decisions = _observe_decisions(schema, schema_json, doc_json, frag_nodes, snake)
    ops_ir: List[Dict[str, Any]] = []
    failed: Optional[Dict[str, Any]] = None
    for op in op_nodes:
        n0 = len(log)
        try:
            pg.add_operation(op)
            ops_ir.append(_def_ir(op.name.value, log[n0], fmod_name))
        except (AttributeError, ImportError, TypeError) as e:
            if "ariadne_codegen/client_generators" in _tb() and isinstance(e, AttributeError) and "NoneType" in str(e):
                failed = _classify(e)  # the modelled AttributeError (inline fragment without type condition)
                break
            return {"line": line, "impl": {"observer": f"{type(e).__name__}: {e}"}}
        except BaseException as e:  # noqa: BLE001
            failed = _classify(e)
            break
    impl: Dict[str, Any]
    try:
        excluded = sorted(pg._unpacked_fragments)
        inherited: Set[str] = set()
        for o in ops_ir:
            inherited |= set(o["mixins"])
        fragments_ir: Optional[Dict[str, Any]] = None
        if failed is None and set(pg.fragments_definitions.keys()).difference(pg._unpacked_fragments):
            fg = pg.fragments_generator
            order_rec: List[List[str]] = []
            orig = fg._get_sorted_fragments_names

            def wrapped(*a: Any, **kw: Any) -> List[str]:
                r = orig(*a, **kw)
                order_rec.append(list(r))
                return r

            fg._get_sorted_fragments_names = wrapped  # type: ignore[method-assign]
            n0 = len(log)
            module = None
            try:
                module = fg.generate(exclude_names=pg._unpacked_fragments)
            except (AttributeError, ImportError, TypeError) as e:
                return {"line": line, "impl": {"observer": f"{type(e).__name__}: {e}"}}
            except BaseException as e:  # noqa: BLE001
                failed = _classify(e)
            line["listing"] = list(fg._fragments_names)
            gens = log[n0:]
            if len(gens) == len(line["listing"]):  # every fragment generator ran (a failure, if any, is in the sort)
                for g in gens:
                    inherited |= set(g.get_fragments_used_as_mixins())
            if module is not None:
                classes = [obs_result.class_to_json(c) for c in module.body if isinstance(c, ast.ClassDef)]
                rebuilds = [st.value.func.value.id for st in module.body
                            if isinstance(st, ast.Expr) and isinstance(st.value, ast.Call) and isinstance(st.value.func, ast.Attribute)
                            and st.value.func.attr == "model_rebuild"]
                mixin_imports = [[i.module, a.name] for i in module.body if isinstance(i, ast.ImportFrom) and i.level == 0
                                 and i.module not in ("typing", "pydantic") for a in i.names]
                fragments_ir = {"order": order_rec[0] if order_rec else None, "classes": classes, "rebuilds": rebuilds,
                                "deps": [[g._operation_name, sorted(g.get_fragments_used_as_mixins())] for g in gens],
                                "mixinImports": mixin_imports, "publicNames": list(fg.get_generated_public_names())}
        # the trigger speaks about packages whose operations all generate
        trigger = bool(set(excluded) & inherited) and len(ops_ir) == len(op_nodes)
        if failed is not None:
            impl = {"failed": failed, "before": {"ops": ops_ir, "excluded": excluded}, "trigger": trigger}
        else:
            impl = {"ops": ops_ir, "excluded": excluded, "fragments": fragments_ir, "trigger": trigger}
    except (AttributeError, ImportError, TypeError) as e:
        return {"line": line, "impl": {"observer": f"{type(e).__name__}: {e}"}}
    return {"line": line, "impl": impl, "decisions": decisions}


def _observe_decisions(schema: Any, schema_json: Any, doc_json: Dict[str, Any], frag_nodes: List[Any], snake: bool) -> Dict[str, Any]:
    """the two decisions behind 'the type a selection set is evaluated for', asked of the REAL methods directly and for every
    argument the schema offers: `_get_inline_fragment_root_type(cond, root)` for every pair of composite type names (plus a
    name the schema does not define) and `_unpack_fragment(fragment, root)` for every fragment x every composite type / no root"""
    from graphql import is_composite_type

    names = sorted(n for n, t in schema.type_map.items() if is_composite_type(t) and not n.startswith("__"))
    pairs = [[c, r] for c in names + ["Undefined0"] for r in names + ["Undefined0"]]
    roots: List[Optional[str]] = [None] + names
    dline = {"op": "decisions", "schema": schema_json, "fragments": doc_json["fragments"], "scalars": [], "snake": snake,
             "pairs": pairs, "roots": roots}
    try:
        from ariadne_codegen.client_generators.result_types import ResultTypesGenerator

        g = ResultTypesGenerator.__new__(ResultTypesGenerator)
        g.schema = schema
        inl = [g._get_inline_fragment_root_type(c, r) for c, r in pairs]
        unp = [[f.name.value, [bool(g._unpack_fragment(f, schema.type_map[r] if r is not None else None)) for r in roots]] for f in frag_nodes]
    except (AttributeError, ImportError, TypeError, KeyError) as e:
        return {"line": dline, "impl": {"observer": f"{type(e).__name__}: {e}"}}
    return {"line": dline, "impl": {"inlineRoot": inl, "unpack": unp}}


def _tb() -> str:
    import traceback

    return traceback.format_exc()


def class_tables(ir: Dict[str, Any]) -> Dict[str, List[List[Any]]]:
    """module -> [[class, bases]] as CPython would see them when importing that module (fragments first)"""
    if "ops" not in ir:
        return {}
    frag = [[c["name"], c["bases"]] for c in (ir.get("fragments") or {}).get("classes", [])]
    out = {"fragments": frag} if ir.get("fragments") else {}
    for o in ir["ops"]:
        out[o["name"]] = frag + [[c["name"], c["bases"]] for c in o["classes"]]
    return out


def real_mro(table: List[List[Any]]) -> List[Optional[List[str]]]:
    """CPython's own answer: create the classes of the table top-down (externals = fresh root classes).
    A class one of whose bases could not be created cannot be created either (the import has died)."""
    ns: Dict[str, type] = {}
    failed: Set[str] = set()
    out: List[Optional[List[str]]] = []
    for name, bases in table:
        if name in ns or name in failed:
            # a later definition of the same name rebinds it in Python; the model looks up the first: keep the first
            out.append(None if name in failed else [c.__name__ for c in ns[name].__mro__ if c is not object])
            continue
        if any(b in failed for b in bases):
            failed.add(name)
            out.append(None)
            continue
        bs = []
        for b in bases:
            if b not in ns:
                ns[b] = type(b, (), {})
            bs.append(ns[b])
        try:
            ns[name] = type(name, tuple(bs), {})
            out.append([c.__name__ for c in ns[name].__mro__ if c is not object])
        except TypeError:
            out.append(None)
            failed.add(name)
    return out


def mro_conflict(ir: Dict[str, Any]) -> bool:
    return any(m is None for t in class_tables(ir).values() for m in real_mro(t))


def _ann_unions(a: Dict[str, Any]) -> List[List[str]]:
    if a["k"] in ("optional", "list", "disc"):
        return _ann_unions(a["a"])
    if a["k"] == "union":
        return [[x["n"] for x in a["as"] if x["k"] == "cls"]]
    return []


def _siblings_alike(abstract: Set[str], classes: List[Dict[str, Any]], mixins: Set[str]) -> bool:
    by: Dict[str, Dict[str, Any]] = {}
    for c in classes:
        by.setdefault(c["name"], c)
    frag_bases = {pascal(m) for m in mixins}
    for c in classes:
        for f in c["fields"]:
            for names in _ann_unions(f["ann"]):
                if not names or names[0] not in by:
                    continue
                c0 = by[names[0]]
                is_abs = any(fl["py"] == "typename__" and fl["ann"]["k"] == "literal" and any(v in abstract for v in fl["ann"]["vs"])
                             for fl in c0["fields"])
                if not is_abs:
                    continue
                need = [b for b in c0["bases"] if b in frag_bases]
                for ni in names[1:]:
                    if ni in by and any(b not in by[ni]["bases"] for b in need):
                        return False
    return True


def sibling_unpacks(ir: Dict[str, Any], abstract: Set[str]) -> bool:
    """finding C08-F4: some sub-type class of an interface position lacks a fragment base of the interface class"""
    if "ops" not in ir:
        return False
    for o in ir["ops"]:
        if not _siblings_alike(abstract, o["classes"], set(o["mixins"])):
            return True
    fr = ir.get("fragments")
    if fr:
        mix: Set[str] = set()
        for _, ds in fr["deps"]:
            mix |= set(ds)
        if not _siblings_alike(abstract, fr["classes"], mix):
            return True
    return False


def abstract_types(case: Dict[str, Any]) -> Set[str]:
    return set(re.findall(r"(?m)^(?:interface|union) (\w+)", case["sdl"]))


def norm_model(m: Any) -> Any:
    """drop the free-text message of refusals (only the class of the exception is compared)"""
    if isinstance(m, dict) and "failed" in m and isinstance(m["failed"], dict):
        m = dict(m)
        m["failed"] = {k: v for k, v in m["failed"].items() if k != "msg"}
    return m


def corr_packages(ctx: Ctx, st: Optional[LeanStatus], res: Result, cases: List[Dict[str, Any]], label: str) -> List[Dict[str, Any]]:
    """returns the observed IR per case (used by the oracle to classify failures)"""
    _quiet()
    obs = engine.pmap_forked(observe_package, [(c,) for c in cases], timeout=180)
    lines, idx = [], []
    irs: List[Dict[str, Any]] = [{} for _ in cases]
    for i, (status, o) in enumerate(obs):
        if status != "ok":
            raise common.Infra(f"observer child failed on {cases[i]['id']}: {status} {o}")
        irs[i] = o["impl"]
        if "observer" in o["impl"]:
            res.mismatches.append(Mismatch("package", {"case": slim(cases[i])}, "observer: " + o["impl"]["observer"], None))
            continue
        lines.append(o["line"])
        idx.append(i)
    model: Optional[List[Any]] = None
    if st is not None and st.driver_ok and lines:
        model = common.run_driver(PROP, lines, chunk=200)
    corr_decisions(st, res, cases, [o.get("decisions") if status == "ok" else None for status, o in obs], label)
    mro_lines, mro_expect = [], []
    for k, i in enumerate(idx):
        impl = irs[i]
        case = cases[i]
        trig = impl.get("trigger")
        conflict = mro_conflict(impl)
        impl_cmp = {k2: v for k2, v in impl.items() if k2 != "trigger"}
        res.count(f"{label}:cases")
        res.count(f"{label}:" + ("failed:" + impl["failed"]["error"] if "failed" in impl else
                                 ("no-fragments-module" if impl.get("fragments") is None else "fragments-module")))
        if trig:
            res.count(f"{label}:in-trigger:{TRIG_F1}")
        if conflict:
            res.count(f"{label}:in-trigger:{TRIG_F3}")
        measure(res, label, case, impl)
        nontrivial = bool(impl.get("fragments")) or "failed" in impl or bool(impl.get("excluded"))
        res.seen(["package", case["sdl"], case["queries"]], nontrivial=nontrivial)
        for mod, table in class_tables(impl).items():
            mro_lines.append({"op": "mro", "classes": table})
            mro_expect.append((case, mod, table, real_mro(table)))
        if model is None:
            continue
        m = norm_model(model[k])
        m_trig, m_mro, m_sib = m.pop("trigger", None), m.pop("mroConflict", None), m.pop("siblingUnpacks", None)
        sib = sibling_unpacks(impl, abstract_types(case))
        if sib:
            res.count(f"{label}:in-trigger:{TRIG_F4}")
        if m_sib is not None and bool(m_sib) != sib:
            res.mismatches.append(Mismatch("trigger:" + TRIG_F4, {"case": slim(case)}, sib, m_sib))
        if not common.same_json(impl_cmp, m):
            res.mismatches.append(Mismatch("package", {"case": slim(case)}, first_diff(impl_cmp, m), "(see diff)", trigger=None))
        elif len(res.samples) < 3 and impl.get("fragments") and len(impl["fragments"]["classes"]) >= 3:
            res.sample({"observation": "package", "queries": case["queries"][:400], "impl_order": impl["fragments"]["order"],
                        "model_order": m["fragments"]["order"], "excluded": impl["excluded"]})
        if m_trig is not None and bool(m_trig) != bool(trig):
            res.mismatches.append(Mismatch("trigger:" + TRIG_F1, {"case": slim(case)}, trig, m_trig))
        if m_mro is not None and bool(m_mro) != bool(conflict):
            res.mismatches.append(Mismatch("trigger:" + TRIG_F3, {"case": slim(case)}, conflict, m_mro))
        if m_trig is not None and m_mro is not None and m_sib is not None:
            # the finding regions are predicates on the INPUT, computed by the model (the hypotheses of C08_partial); a failure
            # is classified with these, never with what the implementation under test reports about itself
            impl["model_triggers"] = {TRIG_F1: bool(m_trig), TRIG_F3: bool(m_mro), TRIG_F4: bool(m_sib)}
    if st is not None and st.driver_ok and mro_lines:
        got = common.run_driver(PROP, mro_lines, chunk=2000)
        for (case, mod, table, want), g in zip(mro_expect, got):
            res.seen(["mro", table], nontrivial=any(len(b) > 1 for _, b in table))
            if not common.same_json(want, g, ordered=True):
                res.mismatches.append(Mismatch("Spec.Py.mro", {"table": table}, want, g))
    return irs


def corr_decisions(st: Optional[LeanStatus], res: Result, cases: List[Dict[str, Any]], decs: List[Optional[Dict[str, Any]]], label: str) -> None:
    """`_get_inline_fragment_root_type` / `_unpack_fragment` of the real generator vs `inlineFragmentRootType` / `unpackFragment`
    of the model, on every argument each schema offers (exhaustive per case)"""
    todo = [(c, d) for c, d in zip(cases, decs) if d is not None]
    for c, d in todo:
        if "observer" in d["impl"]:
            res.mismatches.append(Mismatch("decisions", {"case": slim(c)}, "observer: " + d["impl"]["observer"], None))
    todo = [(c, d) for c, d in todo if "observer" not in d["impl"]]
    if st is None or not st.driver_ok or not todo:
        return
    got = common.run_driver(PROP, [d["line"] for _, d in todo], chunk=200)
    for (case, d), m in zip(todo, got):
        pairs, roots, impl = d["line"]["pairs"], d["line"]["roots"], d["impl"]
        res.seen(["decisions", case["sdl"], sorted(n for n, _ in impl["unpack"])], nontrivial=True)
        bad = 0
        m_inl = m.get("inlineRoot") if isinstance(m, dict) else None
        if not isinstance(m_inl, list) or len(m_inl) != len(pairs):
            res.mismatches.append(Mismatch("decision:inline-fragment-root-type", {"case": slim(case)}, "(answers)", m))
            continue
        for (cond, root), a, b in zip(pairs, impl["inlineRoot"], m_inl):
            res.count(f"{label}:decision:inline-root:" + ("ignored" if a is None else ("own-type" if cond == root else "implemented-interface")))
            if a != b and bad < 3:
                bad += 1
                res.mismatches.append(Mismatch("decision:inline-fragment-root-type", {"case": slim(case), "type_condition": cond, "root_type": root}, a, b))
        mu = {n: row for n, row in (m.get("unpack") or [])}
        for n, row in impl["unpack"]:
            res.count(f"{label}:decision:unpack", len(row))
            if mu.get(n) != row and bad < 6:
                bad += 1
                k = next((i for i, (x, y) in enumerate(zip(row, mu.get(n) or [])) if x != y), 0)
                res.mismatches.append(Mismatch("decision:unpack-fragment", {"case": slim(case), "fragment": n, "root_type": roots[k]}, row, mu.get(n)))


def slim(case: Dict[str, Any]) -> Dict[str, Any]:
    return {k: case[k] for k in ("id", "sdl", "server_sdl", "queries", "mixins", "calls", "snake") if k in case}


def first_diff(a: Any, b: Any, path: str = "$") -> Any:
    """smallest differing sub-term (for the replay file)"""
    if isinstance(a, dict) and isinstance(b, dict):
        for k in sorted(set(a) | set(b)):
            if k not in a or k not in b:
                return {"path": f"{path}.{k}", "impl": a.get(k, "<absent>"), "model": b.get(k, "<absent>")}
            if not common.same_json(a[k], b[k]):
                return first_diff(a[k], b[k], f"{path}.{k}")
    if isinstance(a, list) and isinstance(b, list) and len(a) == len(b):
        for i, (x, y) in enumerate(zip(a, b)):
            if not common.same_json(x, y):
                return first_diff(x, y, f"{path}[{i}]")
    return {"path": path, "impl": a, "model": b}


def measure(res: Result, label: str, case: Dict[str, Any], impl: Dict[str, Any]) -> None:
    q = case["queries"]
    if "@mixin" in q:
        res.count(f"{label}:with-@mixin")
    if re.search(r"^(query|mutation) \w+ @mixin", q, re.M):
        res.count(f"{label}:@mixin-on-operation")
    if re.search(r"^fragment \w+ on \w+ @mixin", q, re.M):
        res.count(f"{label}:@mixin-on-fragment")
    if re.search(r"^\s+\w+ @mixin", q, re.M):
        res.count(f"{label}:@mixin-on-field")
    if re.search(r"@mixin\([^)]*\) @mixin", q):
        res.count(f"{label}:two-@mixin-on-one-node")
    fr = impl.get("fragments")
    if fr:
        deps = dict((n, ds) for n, ds in fr["deps"])
        if any(len(ds) >= 2 for ds in deps.values()):
            res.count(f"{label}:fragment-with-2+-bases")
        indeg: Dict[str, int] = {}
        for ds in deps.values():
            for d in ds:
                indeg[d] = indeg.get(d, 0) + 1
        if any(v >= 2 for v in indeg.values()):
            res.count(f"{label}:fragment-shared-by-2+-fragments (diamond)")
        if any(deps.get(d) for ds in deps.values() for d in ds):
            res.count(f"{label}:chain-depth>=2")
        if fr["order"] is not None and fr["order"] != sorted(fr["order"]):
            res.count(f"{label}:topological-order-differs-from-alphabetical")
        empties = [n for n in (fr["order"] or []) if pascal(n) not in [c["name"] for c in fr["classes"]]]
        if empties:
            res.count(f"{label}:fragment-without-class-in-module (union / inline fragments)")
    ops = impl.get("ops") or (impl.get("before") or {}).get("ops") or []
    users: Dict[str, int] = {}
    for o in ops:
        for m in o["mixins"]:
            users[m] = users.get(m, 0) + 1
    if any(v >= 2 for v in users.values()):
        res.count(f"{label}:fragment-inherited-by-2+-operations")
    if impl.get("excluded") or (impl.get("before") or {}).get("excluded"):
        res.count(f"{label}:some-fragment-unpacked")
    # bases that spread carriers (fragments containing inline fragments): the unpack decision must look at the top level only
    inherited = set(users)
    for _, ds in (fr or {}).get("deps", []):
        inherited |= set(ds)
    for k in carrier_shapes(case, inherited):
        res.count(f"{label}:{k}")


def carrier_shapes(case: Dict[str, Any], inherited: Set[str]) -> Set[str]:
    """which shapes around 'a fragment without top-level inline fragments spreads a fragment that has some' occur in the document"""
    from graphql import FragmentDefinitionNode, FragmentSpreadNode, InlineFragmentNode, parse

    try:
        doc = parse(case["queries"])
    except Exception:  # noqa: BLE001
        return set()
    unions = set(re.findall(r"(?m)^union (\w+)", case["sdl"]))
    ifaces = set(re.findall(r"(?m)^interface (\w+)", case["sdl"]))
    frags = {d.name.value: d for d in doc.definitions if isinstance(d, FragmentDefinitionNode)}
    carrier = {n for n, d in frags.items() if any(isinstance(x, InlineFragmentNode) for x in d.selection_set.selections)}
    spreads = {n: [x.name.value for x in d.selection_set.selections if isinstance(x, FragmentSpreadNode)] for n, d in frags.items()}
    out: Set[str] = set()
    direct: Set[str] = set()
    for n, d in frags.items():
        on = d.type_condition.name.value
        if n in carrier or on in unions:
            continue
        for g in spreads[n]:
            if g not in frags or g not in carrier:
                continue
            direct.add(n)
            gon = frags[g].type_condition.name.value
            kind = "same-type" if gon == on else ("union" if gon in unions else "interface")
            out.add(f"base-fragment-spreads-{kind}-carrier")
            if n in inherited:
                out.add("inherited-fragment-spreads-carrier")
            if on in ifaces:
                out.add("interface-base-fragment-spreads-carrier")
    for n in frags:
        if n not in carrier and n not in direct and any(g in direct for g in spreads[n]):
            out.add("base-fragment-reaches-carrier-through-another-base")
            if n in inherited:
                out.add("inherited-fragment-reaches-carrier-through-another-base")
    for n in carrier:
        for x in frags[n].selection_set.selections:
            if isinstance(x, InlineFragmentNode) and any(isinstance(y, FragmentSpreadNode) for y in x.selection_set.selections):
                out.add("carrier-with-spread-inside-inline-fragment")
    return out


# --------------------------------------------------------------------------------------------
# oracle: the property itself on the real package (forked child)
# --------------------------------------------------------------------------------------------


def _named(t: Any) -> Any:
    while hasattr(t, "of_type"):
        t = t.of_type
    return t


class _Walker:
    """Walks an executed operation next to the object the generated client returned.

    `static` = the parent type GraphQL validation assigns to a selection set, `narrow` = the type it is
    evaluated for once enclosing type conditions that are *supertypes* of the position are discounted.
    A spread qualifies only where both readings agree (never demanding more than the property states), with one
    reading decision: the selection set written directly inside an INLINE fragment whose type condition is an interface the
    position's OBJECT type implements (`account { ... on Node { ...NodeId } }`) is evaluated for that interface - the type
    condition the author wrote is exactly the fragment's type, the object is a Node, and a named fragment on `Node` spread
    there is "defined on exactly the type that selection set is evaluated for" (Properties/C08.lean section 1c:
    `interface_fragment_inside_inline_is_a_base`).  The selection set of a NAMED fragment on a supertype that is unpacked at
    an object position stays evaluated for the object type (nothing is demanded there)."""

    def __init__(self, schema: Any, doc: Any, fragmod: Any, all_mixins: Set[str]) -> None:
        from graphql import FragmentDefinitionNode

        self.schema = schema
        self.frags = {d.name.value: d for d in doc.definitions if isinstance(d, FragmentDefinitionNode)}
        self.fragmod = fragmod
        self.all_mixins = all_mixins
        self.problems: List[Dict[str, Any]] = []
        self.checks = 0
        self.mixin_checks = 0
        self.inline_iface_checks = 0  # qualifying spreads judged inside `... on <implemented interface>` at an object position
        self.visited: Dict[int, List[Any]] = {}  # id(obj) -> [obj, expected mixin names, times reached]

    def applies(self, cond: str, rt: str) -> bool:
        from graphql import is_abstract_type

        if cond == rt:
            return True
        ct, rtt = self.schema.type_map.get(cond), self.schema.type_map.get(rt)
        return bool(ct is not None and rtt is not None and is_abstract_type(ct) and self.schema.is_sub_type(ct, rtt))

    def narrower(self, cond: str, narrow: str) -> str:
        """the type a selection set under type condition `cond` is evaluated for at a position of type `narrow`"""
        from graphql import is_abstract_type

        nt, ct = self.schema.type_map.get(narrow), self.schema.type_map.get(cond)
        if cond == narrow or nt is None or ct is None:
            return narrow
        if is_abstract_type(nt) and self.schema.is_sub_type(nt, ct):
            return cond  # narrower than the position
        return narrow  # a supertype of the position (or unrelated): the position's type stays

    def qualifies(self, f: Any, static: str, narrow: str, inline: bool = False) -> bool:
        from graphql import GraphQLObjectType, GraphQLUnionType, InlineFragmentNode

        on = f.type_condition.name.value
        if on != static:
            return False
        via_inline = False
        if on != narrow:
            nt = self.schema.type_map.get(narrow)
            if not (inline and isinstance(nt, GraphQLObjectType) and on in {i.name for i in nt.interfaces}):
                return False
            via_inline = True
        if isinstance(self.schema.type_map.get(on), GraphQLUnionType):
            return False
        ok = not any(isinstance(s, InlineFragmentNode) for s in f.selection_set.selections)
        if ok and via_inline:
            self.inline_iface_checks += 1
        return ok

    def mixins_of(self, node: Any) -> List[str]:
        out = []
        for d in getattr(node, "directives", None) or ():
            if d.name.value == "mixin":
                for a in d.arguments:
                    if a.name.value == "import" and hasattr(a.value, "value"):
                        out.append(a.value.value)
        return out

    def note(self, obj: Any, expected: List[str]) -> None:
        rec = self.visited.setdefault(id(obj), [obj, set(), 0])
        rec[1] |= set(expected)
        rec[2] += 1

    def walk(self, selset: Any, static: str, narrow: str, rt: str, obj: Any, data: Dict[str, Any], path: str, inline: bool = False) -> None:
        from graphql import FieldNode, FragmentSpreadNode, InlineFragmentNode
        from pydantic import BaseModel

        for s in selset.selections:
            if isinstance(s, FragmentSpreadNode):
                f = self.frags[s.name.value]
                cond = f.type_condition.name.value
                if not self.applies(cond, rt):
                    continue
                if self.qualifies(f, static, narrow, inline):
                    self.checks += 1
                    cls = getattr(self.fragmod, pascal(f.name.value), None) if self.fragmod is not None else None
                    where = {"path": path, "fragment": f.name.value, "class": type(obj).__name__}
                    if cls is None:
                        self.problems.append({"problem": "fragment-class-missing-from-fragments-module", **where})
                    elif not isinstance(obj, cls):
                        self.problems.append({"problem": "not-instance-of-fragment-class", **where,
                                              "mro": [c.__name__ for c in type(obj).__mro__][:8]})
                    else:
                        try:
                            cls.model_validate(data)
                        except Exception as e:  # noqa: BLE001
                            self.problems.append({"problem": "fragment-class-rejects-payload", **where, "error": str(e)[:300]})
                self.walk(f.selection_set, cond, self.narrower(cond, narrow), rt, obj, data, path + f"/...{f.name.value}")
            elif isinstance(s, InlineFragmentNode):
                cond = s.type_condition.name.value if s.type_condition else static
                if self.applies(cond, rt):
                    self.walk(s.selection_set, cond, self.narrower(cond, narrow), rt, obj, data, path + f"/...on {cond}", inline=s.type_condition is not None)
            elif isinstance(s, FieldNode) and s.selection_set is not None:
                key = s.alias.value if s.alias else s.name.value
                parent = self.schema.type_map.get(rt)
                fdef = getattr(parent, "fields", {}).get(s.name.value)
                if fdef is None or key not in data or not isinstance(obj, BaseModel):
                    continue
                attr = next((n for n, fi in type(obj).model_fields.items() if (fi.alias or n) == key), None)
                if attr is None:
                    continue
                t = _named(fdef.type).name
                self.visit_value(s, t, getattr(obj, attr), data[key], f"{path}.{key}")

    def visit_value(self, field: Any, t: str, value: Any, data: Any, path: str) -> None:
        from graphql import is_abstract_type
        from pydantic import BaseModel

        if data is None or value is None:
            return
        if isinstance(data, list):
            if isinstance(value, list) and len(value) == len(data):
                for i, (v, d) in enumerate(zip(value, data)):
                    self.visit_value(field, t, v, d, f"{path}[{i}]")
            return
        if not isinstance(data, dict) or not isinstance(value, BaseModel):
            return
        tt = self.schema.type_map.get(t)
        rt = data.get("__typename") if is_abstract_type(tt) else t
        if rt is None:
            return  # runtime type unknown (no __typename in the payload): nothing can be demanded here
        self.note(value, self.mixins_of(field))
        self.walk(field.selection_set, t, t, rt, value, data, path)

    def finish(self) -> None:
        for obj, expected, times in self.visited.values():
            if times != 1:
                continue  # the same object reached through two field nodes (merged response key): not judged
            self.mixin_checks += 1
            got = {b.__name__ for b in type(obj).__bases__} & self.all_mixins
            if got != expected:
                self.problems.append({"problem": "mixin-base-missing" if expected - got else "mixin-base-unexpected",
                                      "class": type(obj).__name__, "expected": sorted(expected), "bases": [b.__name__ for b in type(obj).__bases__]})


@engine.with_scratch
def oracle_child(root: Path, case: Dict[str, Any]) -> Dict[str, Any]:
    import sys
    import traceback

    import httpx
    from graphql import FragmentDefinitionNode, OperationDefinitionNode, build_schema, graphql_sync, parse

    files = mixin_files(case)
    paths = []
    for name, text in files.items():
        (root / name).write_text(text)
        paths.append(str(root / name))
    out: Dict[str, Any] = {}
    try:
        gen = engine.generate_client(root, case["sdl"], case["queries"], {"files_to_include": paths})
    except BaseException as e:  # noqa: BLE001
        return {"gen": engine.classify_exception(type(e).__name__), "message": str(e)[:400], "where": traceback.format_exc()[-900:]}
    out["gen"] = "ok"
    out["files"] = sorted(p.name for p in gen.dir.iterdir())
    try:
        pkg = engine.import_package(gen)
    except BaseException as e:  # noqa: BLE001
        out["import"] = f"{type(e).__name__}: {str(e)[:300]}"
        return out
    out["import"] = "ok"
    fragmod = sys.modules.get(f"{gen.package}.fragments")
    schema = build_schema(case["server_sdl"])
    doc = parse(case["queries"])
    all_mixins = {c for _, c in case.get("mixins", [])}
    ops = {d.name.value: d for d in doc.definitions if isinstance(d, OperationDefinitionNode)}
    from . import e2e

    mm = e2e.method_map(gen.read("client.py"))
    problems: List[Dict[str, Any]] = []
    # fragment definitions carrying @mixin: the class generated for the fragment (if any) has exactly those extra bases
    w0 = _Walker(schema, doc, fragmod, all_mixins)
    static_checks = 0
    for d in doc.definitions:
        if isinstance(d, FragmentDefinitionNode) and fragmod is not None:
            cls = getattr(fragmod, pascal(d.name.value), None)
            if cls is not None:
                static_checks += 1
                got = {b.__name__ for b in cls.__bases__} & all_mixins
                exp = set(w0.mixins_of(d))
                if got != exp:
                    problems.append({"problem": "mixin-base-missing" if exp - got else "mixin-base-unexpected", "class": cls.__name__,
                                     "expected": sorted(exp), "bases": [b.__name__ for b in cls.__bases__]})
    calls = []
    for call in case.get("calls", []):
        rec: Dict[str, Any] = {"op": call["op"]}
        calls.append(rec)
        m = mm.get(call["op"])
        if m is None:
            rec["outcome"] = "no-method"
            continue
        log: List[Dict[str, Any]] = []
        resolver = resolve.Resolver(call.get("seed", 0), null_p=case.get("null_p", 0.08))

        def handler(request: Any) -> Any:
            body = json.loads(request.content)
            r = graphql_sync(schema, body["query"], variable_values=body.get("variables"), operation_name=body.get("operationName"),
                             field_resolver=resolver, type_resolver=resolve.Resolver.type_resolver)
            payload: Dict[str, Any] = {"data": r.data}
            if r.errors:
                payload["errors"] = [e.formatted for e in r.errors]
            log.append(payload)
            return httpx.Response(200, json=payload)

        try:
            client = engine.make_generated_client(pkg, handler)
            value = engine.call_method(client, m["method"], m["async"])
            rec["outcome"] = "ok"
        except BaseException as e:  # noqa: BLE001
            rec["outcome"] = "exception"
            rec["exception"] = type(e).__name__
            rec["message"] = str(e)[:400]
            continue
        data = (log[0] if log else {}).get("data")
        if not isinstance(data, dict):
            continue
        opnode = ops[call["op"]]
        root_t = {"query": schema.query_type, "mutation": schema.mutation_type, "subscription": schema.subscription_type}[opnode.operation.value].name
        w = _Walker(schema, doc, fragmod, all_mixins)
        w.note(value, w.mixins_of(opnode))
        w.walk(opnode.selection_set, root_t, root_t, root_t, value, data, "$")
        w.finish()
        rec["checks"] = w.checks
        rec["inline_iface_checks"] = w.inline_iface_checks
        rec["mixin_checks"] = w.mixin_checks
        rec["problems"] = w.problems[:10]
    out["calls"] = calls
    out["static_checks"] = static_checks
    out["static_problems"] = problems
    return out


def classify_failure(case: Dict[str, Any], ir: Dict[str, Any], obs: Dict[str, Any]) -> List[Tuple[str, Optional[str], str]]:
    """-> [(signature, trigger, detail)] for one judged package (empty = the property holds on it)"""
    out: List[Tuple[str, Optional[str], str]] = []
    # the finding regions are predicates on the input, computed by the Lean model; what the implementation reports about itself
    # is used only when the driver could not be asked (the build is broken)
    mt = ir.get("model_triggers") if ir else None
    f1 = mt[TRIG_F1] if mt else bool(ir.get("trigger"))
    f3 = mt[TRIG_F3] if mt else (mro_conflict(ir) if ir else False)
    bad_names: Set[str] = set()
    if f1:
        inherited: Set[str] = set()
        ops = ir.get("ops") or (ir.get("before") or {}).get("ops") or []
        for o in ops:
            inherited |= set(o["mixins"])
        for n, ds in ((ir.get("fragments") or {}).get("deps") or []):
            inherited |= set(ds)
        excluded = set(ir.get("excluded") or (ir.get("before") or {}).get("excluded") or [])
        bad_names = {pascal(n) for n in (excluded & inherited)} if inherited else set()
    if obs["gen"] != "ok":
        if obs["gen"].startswith("internal:"):
            trig = None
            if obs["gen"] == "internal:KeyError" and f1 and "_get_sorted_fragments_names" in obs.get("where", ""):
                trig = TRIG_F1
            out.append(("generation-dies:" + obs["gen"].split(":", 1)[1] + ("-in-fragments-sort" if trig else ""), trig,
                        obs.get("message", "")))
        elif not case.get("malformed"):
            out.append(("valid-input-refused:" + obs["gen"].split(":", 1)[1], None, obs.get("message", "")))
        return out
    if obs["import"] != "ok":
        msg = obs["import"]
        trig, sig = None, "package-does-not-import:" + msg.split(":", 1)[0]
        m = re.search(r"cannot import name '(\w+)' from '[\w.]*fragments'", msg)
        if f1 and m and (not bad_names or m.group(1) in bad_names):
            trig, sig = TRIG_F1, "import-error:fragment-class-missing-from-fragments-module"
        elif f1 and re.search(r"No module named '[\w.]*\.fragments'", msg) and "fragments.py" not in obs.get("files", []):
            trig, sig = TRIG_F1, "import-error:no-fragments-module"
        elif f3 and msg.startswith("TypeError") and "method resolution" in msg:
            trig, sig = TRIG_F3, "import-error:inconsistent-mro"
        out.append((sig, trig, msg))
        return out
    f4 = mt[TRIG_F4] if mt else (sibling_unpacks(ir, abstract_types(case)) if ir else False)
    for p in obs.get("static_problems", []):
        out.append((p["problem"], None, json.dumps(p)[:300]))
    for c in obs.get("calls", []):
        for p in c.get("problems", []):
            trig = TRIG_F4 if (f4 and p["problem"] == "not-instance-of-fragment-class") else None
            out.append((p["problem"], trig, json.dumps(p)[:400]))
    return out


def oracle(ctx: Ctx, res: Result, cases: List[Dict[str, Any]], irs: List[Dict[str, Any]], label: str) -> None:
    _quiet()
    obs = engine.pmap_forked(oracle_child, [(c,) for c in cases], timeout=300)
    for case, ir, (status, o) in zip(cases, irs, obs):
        if status != "ok":
            if status == "timeout":
                res.count(f"{label}:timeout")
                continue
            raise common.Infra(f"oracle child failed on {case['id']}: {status} {o}")
        res.count(f"{label}:packages")
        for c in o.get("calls", []):
            if c.get("outcome") == "exception":
                # whether a call succeeds is C01's / C02's claim; here it only means nothing could be judged
                res.count(f"{label}:unjudged-call:{c.get('exception')}")
        checks = sum(c.get("checks", 0) for c in o.get("calls", []))
        mchecks = sum(c.get("mixin_checks", 0) for c in o.get("calls", [])) + o.get("static_checks", 0)
        res.count(f"{label}:instance+validate checks", checks)
        res.count(f"{label}:instance checks inside `... on <implemented interface>` at an object position",
                  sum(c.get("inline_iface_checks", 0) for c in o.get("calls", [])))
        res.count(f"{label}:@mixin base checks", mchecks)
        res.seen(["oracle", case["sdl"], case["queries"]], nontrivial=checks > 0 or o.get("import") != "ok" or o.get("gen") != "ok")
        for sig, trig, detail in classify_failure(case, ir, o):
            res.count(f"{label}:failure:{sig}")
            res.failures.append(Failure(sig, trig, {"case": slim(case)}, detail))


# --------------------------------------------------------------------------------------------
# Spec.Py on random class tables; the acyclicity assumption; corpus; entry points
# --------------------------------------------------------------------------------------------


def rand_table(rng: random.Random) -> List[List[Any]]:
    n = rng.randint(1, 8)
    names = rng.sample(["A", "B", "C", "D", "E", "F", "G", "H", "Zed", "Aa"], n)
    ext = ["BaseModel", "M1", "M2"]
    table: List[List[Any]] = []
    for i, c in enumerate(names):
        pool = names[:i] + ext
        k = rng.randint(1, min(3, len(pool)))
        bases = rng.sample(pool, k)
        if rng.random() < 0.6:
            bases = sorted(b for b in bases if b not in ext) + [b for b in bases if b in ext]
        if rng.random() < 0.03:
            bases.append(bases[0])  # duplicate base class
        table.append([c, bases])
    return table


def real_issubclass(table: List[List[Any]], c: str, b: str) -> Optional[bool]:
    """CPython's answer on stand-in classes; None when the classes cannot be created"""
    ns: Dict[str, type] = {}
    for name, bases in table:
        if name in ns:
            continue
        bs = []
        for x in bases:
            if x not in ns:
                ns[x] = type(x, (), {})
            bs.append(ns[x])
        try:
            ns[name] = type(name, tuple(bs), {})
        except TypeError:
            return None
    for x in (c, b):
        if x not in ns:
            ns[x] = type(x, (), {})
    return issubclass(ns[c], ns[b])


def corr_spec_py(ctx: Ctx, st: Optional[LeanStatus], res: Result) -> None:
    rng = ctx.sub_rng("specpy")
    lines, expect = [], []
    for _ in range(ctx.budget(1500, 15000)):
        t = rand_table(rng)
        lines.append({"op": "mro", "classes": t})
        expect.append(("Spec.Py.mro", t, real_mro(t)))
        names = [c for c, _ in t] + ["BaseModel", "M1"]
        c, b = rng.choice(names), rng.choice(names)
        want = real_issubclass(t, c, b)
        if want is not None:
            lines.append({"op": "subclass", "classes": t, "c": c, "b": b})
            expect.append(("Spec.Py.isSubclass", {"table": t, "c": c, "b": b}, want))
    if st is None or not st.driver_ok:
        return
    got = common.run_driver(PROP, lines)
    for (name, inp, want), g in zip(expect, got):
        res.seen([name, inp], nontrivial=True)
        res.count("specpy:" + name + (":conflict" if want is None else ""))
        if not common.same_json(want, g, ordered=True):
            res.mismatches.append(Mismatch(name, inp, want, g))


def deps_acyclic(ir: Dict[str, Any]) -> bool:
    deps = {n: ds for n, ds in ((ir.get("fragments") or {}).get("deps") or [])}
    state: Dict[str, int] = {}

    def visit(n: str) -> bool:
        if state.get(n) == 1:
            return False
        if state.get(n) == 2:
            return True
        state[n] = 1
        ok = all(visit(d) for d in deps.get(n, []))
        state[n] = 2
        return ok

    return all(visit(n) for n in list(deps))


def load_corpus() -> List[Dict[str, Any]]:
    d = common.CORPUS / PROP
    return [json.loads(p.read_text()) for p in sorted(d.glob("*.json"))] if d.exists() else []


def replay_corpus(ctx: Ctx, st: Optional[LeanStatus], res: Result) -> None:
    items = load_corpus()
    if not items:
        return
    cases = [it["case"] for it in items]
    sub = Result()
    irs = corr_packages(ctx, st, sub, cases, "corpus")
    oracle(ctx, sub, cases, irs, "corpus")
    findings = {f["id"]: f for f in common.load_findings(PROP)}
    status: Dict[str, List[bool]] = {}
    for it in items:
        fid = it.get("finding")
        mine = [f for f in sub.failures if f.input["case"]["id"] == it["case"]["id"]]
        hit = any(f.signature == it.get("expect") for f in mine) if it.get("expect") else bool(mine)
        if fid:
            status.setdefault(fid, []).append(hit)
            if findings.get(fid, {}).get("status") == "fixed":
                for f in mine:  # a fixed finding that fails again is an unknown failure whatever it looks like
                    f.trigger = None
                    f.signature = "regression:" + fid + ":" + f.signature
    for fid, hits in status.items():
        res.witness_status[fid] = "reproduces" if any(hits) else "gone"
    res.merge(sub)


def judge(ctx: Ctx, st: Optional[LeanStatus], res: Result, cases: List[Dict[str, Any]], label: str, n_oracle: int,
          quiet_corr: bool = False) -> None:
    if quiet_corr:
        # the search re-observes inputs whose disagreement is already on record: only counters and classifications are kept
        sub = Result()
        irs = corr_packages(ctx, st, sub, cases, label)
        sub.mismatches = []
        res.merge(sub)
    else:
        irs = corr_packages(ctx, st, res, cases, label)
    for case, ir in zip(cases, irs):
        if ir.get("fragments") and not deps_acyclic(ir):
            # the consequence of `NoFragmentCycles` that Lean derives (deps_acyclic_of_valid) does not hold on a validated document
            res.mismatches.append(Mismatch("assumption:dependency-dict-acyclic", {"case": slim(case)}, "cyclic", "assumed acyclic"))
        if ir.get("fragments"):
            res.count(f"{label}:dependency-dict-acyclic (checked)")
    # oracle: prefer packages outside the triggers (they can be judged completely), keep some inside
    idx = list(range(len(cases)))
    clean = [i for i in idx if "ops" in irs[i] and not irs[i].get("trigger") and not mro_conflict(irs[i])
             and not sibling_unpacks(irs[i], abstract_types(cases[i]))]
    dirty = [i for i in idx if i not in clean and "observer" not in irs[i] and not cases[i].get("malformed")]
    pick = clean[: max(0, n_oracle - min(len(dirty), n_oracle // 5))] + dirty[: n_oracle // 5]
    oracle(ctx, res, [cases[i] for i in pick], [irs[i] for i in pick], label + ":oracle")


def _smallest_first(res: Result) -> None:
    """the replay file of a violation holds the first failure of its class: make that the smallest document"""
    def size(f: Failure) -> int:
        c = f.input.get("case") if isinstance(f.input, dict) else None
        return len(c.get("queries", "")) if isinstance(c, dict) else 0

    res.failures.sort(key=size)


def _sub_document(case: Dict[str, Any], keep_ops: List[str]) -> Optional[Dict[str, Any]]:
    """the case restricted to some operations and the fragments they reach through spreads"""
    from graphql import FragmentDefinitionNode, FragmentSpreadNode, OperationDefinitionNode, parse, print_ast, visit, Visitor

    doc = parse(case["queries"])
    frags = {d.name.value: d for d in doc.definitions if isinstance(d, FragmentDefinitionNode)}
    ops = [d for d in doc.definitions if isinstance(d, OperationDefinitionNode) and d.name and d.name.value in keep_ops]
    if not ops:
        return None

    def spreads(node: Any) -> Set[str]:
        out: Set[str] = set()

        class V(Visitor):
            def enter_fragment_spread(self, n: FragmentSpreadNode, *_: Any) -> None:
                out.add(n.name.value)

        visit(node, V())
        return out

    reach: Set[str] = set()
    todo = [n for o in ops for n in spreads(o)]
    while todo:
        n = todo.pop()
        if n in reach or n not in frags:
            continue
        reach.add(n)
        todo += list(spreads(frags[n]))
    keep = [d for d in doc.definitions if d in ops or (isinstance(d, FragmentDefinitionNode) and d.name.value in reach)]
    if len(keep) == len(doc.definitions):
        return None
    text = "\n\n".join(print_ast(d) for d in keep) + "\n"
    out = dict(case)
    out["queries"] = text
    out["calls"] = [c for c in case.get("calls", []) if c["op"] in keep_ops]
    out["id"] = case["id"] + "-shrunk-" + common.stable_hash(text)[:6]
    return out


def shrink_failures(ctx: Ctx, st: Optional[LeanStatus], res: Result) -> None:
    """structural shrinking of the failing inputs that will be reported (the first one of each class outside every finding region):
    drop operations, then the fragment definitions nothing reaches, as long as the SAME failure class remains, the document stays
    valid and the model still places the smaller input outside every finding region.  Never turns into an alarm of its own."""
    findings = common.load_findings(PROP)
    done: Set[str] = set()
    for f in res.failures:
        if len(done) >= 3:
            break
        if common.match_finding(f, findings) is not None or f.key() in done:
            continue
        done.add(f.key())
        case = f.input.get("case") if isinstance(f.input, dict) else None
        if not isinstance(case, dict) or "queries" not in case:
            continue
        try:
            cur = case
            names = sorted({c["op"] for c in case.get("calls", [])})
            cands = [[n] for n in names] if len(names) > 1 else []
            cands.append(names)  # all operations, unreached fragment definitions dropped
            for keep in cands:
                small = _sub_document(cur, keep)
                if small is None or not valid_case(small)[0]:
                    continue
                sub = Result()
                irs = corr_packages(ctx, st, sub, [small], "shrink")
                oracle(ctx, sub, [small], irs, "shrink")
                same = [g for g in sub.failures if g.signature == f.signature and common.match_finding(g, findings) is None]
                if same:
                    cur = small
                    f.input, f.detail = same[0].input, same[0].detail
                    break
            if cur is not case:
                ctx.log(f"shrunk a failing input ({f.signature}): {len(case['queries'])} -> {len(cur['queries'])} characters")
        except common.Infra:
            raise
        except Exception as e:  # noqa: BLE001
            ctx.log(f"shrinking skipped: {e!r}")


def budget3(ctx: Ctx, quick: int, boosted: int, thorough: int) -> int:
    """quick tier / quick tier boosted by a changed fingerprint of a modelled function / thorough tier"""
    if ctx.tier == "thorough":
        return thorough
    return boosted if ctx.boost else quick


REGION_FEATURES = {"carrier_in_iface_base": 0.3, "reuse_conflicting": 0.35, "base_and_derived": 0.25, "abstract_in_mixin": 0.3, "mixin_operation": 0.4,
                   "mixin_malformed": 0.03}


def run(ctx: Ctx, st: Optional[LeanStatus]) -> Result:
    res = Result()
    res.rule = ("seeded fragment graphs over seeded schemas (chains, diamonds, fragments shared by operations, on objects/interfaces/unions, "
                "with inline fragments, base fragments that spread such carriers (same type / interface / union; directly or through "
                "another base), spreads inside inline fragments, unused) x @mixin on fields / fragment definitions / operations x shuffled definition orders, "
                "plus a dense base-order family (every random DAG of 2-5 fragments on one object type / its interface under a random naming, random "
                "subsets spread together at one position, partly inside `... on <own type>` / `... on <implemented interface>`, with @mixin), all "
                "validated by graphql-core: (1) package IR of the real PackageGenerator/FragmentsGenerator vs the Lean driver incl. the three "
                "finding triggers; (1b) the real _get_inline_fragment_root_type / _unpack_fragment vs the model on EVERY pair of composite type "
                "names / every fragment x root type of each case's schema; (2) Spec.Py (C3 MRO, subclass) vs CPython on the emitted class tables "
                "and on random tables; (3) the property oracle on real imported packages driven through MockTransport; its failures are classified "
                "with the finding regions the MODEL computes for the input. A package case is non-trivial when a fragments "
                "module is emitted, something is unpacked, or generation fails; an oracle case when at least one instance check ran")
    res.extra["fingerprints"] = common.fingerprints(ctx, FINGERPRINTS)
    engine.cleanup_scratch()
    replay_corpus(ctx, st, res)
    ctx.log(f"corpus replayed: {res.witness_status} mismatches={len(res.mismatches)}")
    corr_spec_py(ctx, st, res)
    ctx.log(f"Spec.Py correspondence done: mismatches={len(res.mismatches)}")
    findings = common.load_findings(PROP)

    def in_hand() -> bool:
        # quick tier only (its budget may have been boosted by a changed fingerprint): no further sampling once a failing input
        # outside every finding region is in hand; the thorough tier always runs its whole budget
        return ctx.tier != "thorough" and any(common.match_finding(f, findings) is None for f in res.failures)

    def sliced(label: str, cases: List[Dict[str, Any]], n_oracle: int, step: int) -> None:
        for k in range(0, len(cases), step):
            if in_hand():
                ctx.log(f"{label}: a failing input outside every finding region is in hand; sampling stops after {k} of {len(cases)} cases")
                return
            part = cases[k:k + step]
            judge(ctx, st, res, part, label, max(1, n_oracle * len(part) // max(1, len(cases))))

    sliced("default", make_cases(ctx.sub_rng("default"), budget3(ctx, 400, 1600, 4000), None, "rand"), budget3(ctx, 140, 520, 1200), 400)
    ctx.log(f"default region done: evaluations={res.evaluations} mismatches={len(res.mismatches)} failures={len(res.failures)}")
    sliced("regions", make_cases(ctx.sub_rng("regions"), budget3(ctx, 120, 400, 1500), REGION_FEATURES, "region"), budget3(ctx, 40, 120, 300), 400)
    ctx.log(f"finding regions done: evaluations={res.evaluations} mismatches={len(res.mismatches)} failures={len(res.failures)}")
    sliced("mro", make_mro_cases(ctx.sub_rng("mro"), budget3(ctx, 60, 240, 800), "mro"), budget3(ctx, 45, 180, 500), 400)
    ctx.log(f"base-order family done: evaluations={res.evaluations} mismatches={len(res.mismatches)} failures={len(res.failures)}")
    _smallest_first(res)
    shrink_failures(ctx, st, res)
    # what the directed search starts from if the tie broke (see `search`)
    _STATE["st"] = st
    seen_ids: Set[str] = set()
    _STATE["disagreeing"] = []
    for m in res.mismatches:
        c = m.input.get("case") if isinstance(m.input, dict) else None
        if m.trigger is None and isinstance(c, dict) and c.get("id") not in seen_ids and "queries" in c:
            seen_ids.add(c["id"])
            _STATE["disagreeing"].append(c)
    res.oracle_only += [
        "'that class alone validates the same payload' (fragment_class_validates, should-tier): needs the pydantic reference semantics of C01; judged only by FragClass.model_validate(sub_payload) on the real packages",
        "'the object returned is an instance': Lean proves the class statement lists the fragment class as a base (Spec.Py.IsSubclass); that pydantic returns an object of exactly that class at that position is observed (isinstance on returned objects)",
        "unparse -> autoflake -> isort -> black -> CPython import + pydantic class creation of the emitted modules: observed on the generated packages; represented in Lean by Spec.Py.Loads (bases bound) and Spec.Py.mroOK (C3), both validated against CPython, not verified",
        "hypothesis NoFragmentCycles of C08_partial is graphql-core's validation rule of that name (run by get_graphql_queries before any generator); its consequence 'the dependency dict is acyclic' is derived in Lean (deps_acyclic_of_valid) and additionally checked on every observed dependency dict",
    ]
    res.assumptions += [
        "graphql-core validation (all specified rules but NoUnusedFragments) runs before any generator: documents with fragment cycles / unknown fragments / duplicate names never reach the modelled code",
        "plugins are not modelled (generate_fragments_module / generate_result_class hooks may rewrite bases)",
        "classes imported through @mixin are unrelated root classes (no base classes of their own that conflict with BaseModel)",
    ]
    return res


# shapes the default distribution reaches rarely, turned up for the directed search
DIRECTED_FEATURES = {"inline_same": 0.35, "inline_super": 0.5, "spread_in_inline": 0.8, "spread_in_super_inline": 0.9, "spread_same": 0.85,
                     "spread_same_twice": 0.6, "nested_spread": 0.8, "reuse": 0.7, "mixin_field": 0.45, "mixin_fragment": 0.45,
                     "mixin_twice": 0.4, "spread_iface_at_object": 0.3, "unused": 0.3}

_STATE: Dict[str, Any] = {}


def search(ctx: Ctx) -> Result:
    """called when the tie broke (a proof obligation or a correspondence observation no longer checks): look for an input on
    which the PROPERTY fails on the real code.  (1) the inputs the correspondence disagreed on, all of them through the oracle;
    (2) directed families (shapes around what is modelled: inline fragments on the own type / an implemented interface with
    spreads inside, several bases, @mixin next to fragment bases; the dense base-order family); (3) the default and the
    finding-region distributions.  Failures are classified with the MODEL's finding regions whenever the driver still runs, so
    an implementation that widened a region does not excuse itself."""
    res = Result()
    st = _STATE.get("st")
    st = st if (st is not None and st.driver_ok) else None
    dis = list(_STATE.get("disagreeing") or [])[:80]
    for c in dis:
        c.setdefault("server_sdl", MIXIN_DECL + c["sdl"] if "directive @mixin" not in c["sdl"] else c["sdl"])
    findings = common.load_findings(PROP)

    def in_hand() -> bool:  # a failing input outside every finding region
        return any(common.match_finding(f, findings) is None for f in res.failures)

    if dis:
        judge(ctx, st, res, dis, "search:disagreeing-inputs", len(dis) * 2, quiet_corr=True)
        ctx.log(f"search: {len(dis)} disagreeing input(s) judged: failures={len(res.failures)}")
        if in_hand():
            _smallest_first(res)
            shrink_failures(ctx, st, res)
            return res
    dcases = make_cases(ctx.sub_rng("search-directed"), 240, DIRECTED_FEATURES, "search-directed")
    judge(ctx, st, res, dcases, "search:directed", 240, quiet_corr=True)
    ctx.log(f"search: directed family judged: failures={len(res.failures)}")
    if in_hand():
        _smallest_first(res)
        shrink_failures(ctx, st, res)
        return res
    mcases = make_mro_cases(ctx.sub_rng("search-mro"), 300, "search-mro")
    judge(ctx, st, res, mcases, "search:mro", 300, quiet_corr=True)
    ctx.log(f"search: base-order family judged: failures={len(res.failures)}")
    if in_hand():
        _smallest_first(res)
        shrink_failures(ctx, st, res)
        return res
    cases = make_cases(ctx.sub_rng("search"), 500, None, "search")
    judge(ctx, st, res, cases, "search", 300, quiet_corr=True)
    rcases = make_cases(ctx.sub_rng("search-regions"), 200, REGION_FEATURES, "search-region")
    judge(ctx, st, res, rcases, "search-regions", 80, quiet_corr=True)
    _smallest_first(res)
    shrink_failures(ctx, st, res)
    return res


def replay(ctx: Ctx, payload: Dict[str, Any]) -> int:
    inp = payload.get("input") or {}
    case = inp.get("case") or payload.get("case")
    if not case:
        print(json.dumps(payload, indent=1)[:3000])
        return 1
    case.setdefault("server_sdl", MIXIN_DECL + case["sdl"] if "directive @mixin" not in case["sdl"] else case["sdl"])
    _quiet()
    status, o = engine.forked(observe_package, case, timeout=300)
    if status != "ok":
        print("harness:", status, o)
        return 2
    ir = o["impl"]
    print("package IR:", json.dumps({k: (v if k != "ops" else [x["name"] for x in v]) for k, v in ir.items() if k not in ("fragments", "before")}, default=repr)[:600])
    if ir.get("fragments"):
        print("fragments order:", ir["fragments"]["order"], "deps:", ir["fragments"]["deps"])
    status, ob = engine.forked(oracle_child, case, timeout=300)
    if status != "ok":
        print("harness:", status, ob)
        return 2
    fails = classify_failure(case, ir, ob)
    print("generation:", ob.get("gen"), "import:", ob.get("import"))
    for c in ob.get("calls", []):
        print("  call", c["op"], c.get("outcome"), "checks=", c.get("checks"), "mixin_checks=", c.get("mixin_checks"))
    for sig, trig, detail in fails:
        print("FAIL", sig, "trigger=", trig, detail[:300])
    return 1 if fails else 0
