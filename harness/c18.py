"""C18 — GraphQL names map lawfully to Python names.

Tie (DESIGN.md §3 C18): model `Ariadne.Names` (lean/AriadneModel/Model/Names.lean) vs the real
`str_to_snake_case`, `str_to_pascal_case`, `process_name` (all eight flag combinations, with and
without a plugin hook) of /repo's working tree, and vs the real generators that call them
(ResultTypesGenerator, InputTypesGenerator, ArgumentsGenerator, EnumsGenerator,
PackageGenerator.add_operation), on

  * EVERY word string over the reduced alphabet {a,b,A,B,1,_} up to a length bound (exhaustive),
  * every keyword / soft keyword / reserved pydantic name with and without affixes,
  * seeded random long names over the full alphabet,

and three layers of independent oracles that state the property on the real code:

  L1 name laws on the real functions (valid identifier, idempotent, letters kept, deterministic)
     and pairwise "distinct names stay distinct" inside every group of names with equal output;
  L2 the same on what the real generators emit per scope (python name, alias=, wire name);
  L3 whole generated packages for pairs of names in each scope: generation fails with an error,
     or the package imports and both names are usable through the real pydantic models / client.

  S  history-freedom: runs of process_name calls with different flags in ONE fresh interpreter (the way
     a generation run interleaves the scopes) must answer every call as if it were the only one;
     compared with the model (a run is a map: `runCalls`) and judged against single-flag reference runs.

Two further name scopes (model `Ariadne.NameScopes`, lean/AriadneModel/Model/NameScopes.lean):

  M  the scope of a client METHOD: the real ArgumentsGenerator + ClientGenerator.add_method /
     get_variable_names on exhaustive small variable lists over a pool that stresses
     self/kwargs/query/variables/response/data/gql/<result class> with case and underscore affixes
     (both snake settings, sync/async/subscription); the emitted `def` is compiled by CPython and
     CALLED against a fake base client with one marked value per variable; compared with the driver
     (parameters, helper locals, compiles?, what is sent / returned / raised) and judged by an
     independent oracle (the operation text and every caller's value under its GraphQL name arrive).
  K  the scope of a result CLASS fed by several selection sources (own fields, aliases of one schema
     field, inline fragments, unpacked spreads, fragments as base classes): real ResultTypesGenerator
     rows vs the driver, and whole packages whose model must keep a distinct value under every
     response key GraphQL collects.
"""
from __future__ import annotations

import ast
import itertools
import json
import keyword
import re
import string
from typing import Any, Callable, Dict, Iterable, List, Optional, Sequence, Tuple

import warnings

from . import common, engine
from .common import Ctx, Failure, LeanStatus, Mismatch, Result



def _pmap(fn: Any, args: List[tuple], timeout: float) -> List[Tuple[str, Any]]:
    # multiprocessing's queue feeder threads make CPython 3.12 warn on every later fork(); the
    # children only run single-purpose case functions, so the warning carries no information here
    warnings.filterwarnings("ignore", message=".*multi-threaded, use of fork.*", category=DeprecationWarning)
    return engine.pmap_forked(fn, args, timeout=timeout)

ALPHABET = "abAB1_"
FULL = string.ascii_letters + string.digits + "_"
GNAME_RE = re.compile(r"[_A-Za-z][_0-9A-Za-z]*\Z")
WORD_RE = re.compile(r"[_0-9A-Za-z]*\Z")
CFGS: List[Tuple[bool, bool, bool]] = [(bool(k & 4), bool(k & 2), bool(k & 1)) for k in range(8)]  # snake, trim, reserved
SCOPES = ["resultField", "inputField", "variable", "operation", "enumValue"]
TRIG1 = ["trigDigitLead", "trigTrimToKeyword", "trigFallbackNotFixed", "fallbackFires"]
TRIG2 = ["trigSnakeMerge", "trigTrimMerge", "trigSuffixMerge", "trigFallbackMerge"]
TYPENAME, TYPENAME_ALIAS = "__typename", "typename__"  # constants.TYPENAME_FIELD_NAME / TYPENAME_ALIAS (also in Tables.lean)
FIXED_MODULES = ["client", "async_base_client", "base_model", "enums", "input_types", "fragments", "exceptions"]

UTILS_REL = "ariadne_codegen/utils.py"
GEN = "ariadne_codegen/client_generators/"


def fingerprint_items() -> List[Tuple[str, Optional[str]]]:
    return [
        (UTILS_REL, "str_to_snake_case"),
        (UTILS_REL, "str_to_pascal_case"),
        (UTILS_REL, "process_name"),
        (GEN + "result_types.py", "ResultTypesGenerator._process_field_name"),
        (GEN + "result_types.py", "ResultTypesGenerator._process_field_implementation"),
        (GEN + "result_types.py", "ResultTypesGenerator._get_field_name"),
        (GEN + "input_types.py", "InputTypesGenerator._parse_input_definition"),
        (GEN + "input_types.py", "InputTypesGenerator._process_field_value"),
        (GEN + "arguments.py", "ArgumentsGenerator.generate"),
        (GEN + "arguments.py", "ArgumentsGenerator._get_dict_value"),
        (GEN + "enums.py", "EnumsGenerator._parse_enum_definition"),
        (GEN + "package.py", "PackageGenerator.add_operation"),
        (GEN + "package.py", "PackageGenerator._validate_unique_file_names"),
        (GEN + "client.py", "ClientGenerator.add_method"),
        (GEN + "client.py", "ClientGenerator.get_variable_names"),
        (GEN + "client.py", "ClientGenerator._generate_operation_str_assign"),
        (GEN + "client.py", "ClientGenerator._generate_variables_assign"),
        (GEN + "client.py", "ClientGenerator._generate_execute_call"),
        (GEN + "client.py", "ClientGenerator._generate_async_generator_loop"),
        (GEN + "result_types.py", "ResultTypesGenerator._resolve_selection_set"),
        (GEN + "result_types.py", "ResultTypesGenerator._get_inline_fragment_root_type"),
        (GEN + "result_types.py", "ResultTypesGenerator._unpack_fragment"),
        (GEN + "result_types.py", "ResultTypesGenerator._parse_type_definition"),
    ]


# --------------------------------------------------------------------------------------------
# the interpreter's / pydantic's own notion of "usable name" (independent of /repo and of Lean)
# --------------------------------------------------------------------------------------------


def py_reserved() -> frozenset:
    import pydantic

    return frozenset(x for x in dir(pydantic.BaseModel) if not x.startswith("_"))


def out_ok(out: Any, reserved_on: bool) -> Optional[str]:
    """None when `out` is what the property demands of a Python name, else the failure signature."""
    if not isinstance(out, str):
        return "raises"
    if not (out.isascii() and out.isidentifier()):
        return "invalid-identifier"
    if keyword.iskeyword(out):
        return "keyword-emitted"
    if reserved_on and out in py_reserved():
        return "reserved-name-emitted"
    return None


def alnum_of(s: str) -> str:
    return "".join(c for c in s if c.isalnum())


# --------------------------------------------------------------------------------------------
# Python twin of the trigger predicates (Model/Names.lean); cross-checked with the driver
# --------------------------------------------------------------------------------------------


def m_cls(c: str) -> str:
    if "A" <= c <= "Z":
        return "U"
    if "a" <= c <= "z":
        return "L"
    if "0" <= c <= "9":
        return "D"
    return "O"


def m_cls1(s: str, i: int = 0) -> str:
    return m_cls(s[i]) if i < len(s) else "O"


def m_tokens(s: str) -> List[str]:
    toks: List[str] = []
    for i in range(len(s) - 1, -1, -1):
        k = m_cls(s[i])
        if k == "O":
            continue
        n1, n2 = m_cls1(s, i + 1), m_cls1(s, i + 2)
        joins = (k == "L" and n1 == "L") or (k == "D" and n1 == "D") or (k == "U" and n1 == "L") or (k == "U" and n1 == "U" and n2 != "L")
        if joins and toks:
            toks[0] = s[i] + toks[0]
        else:
            toks.insert(0, s[i])
    return toks


def m_snake(s: str) -> str:
    return "_".join(t.lower() for t in m_tokens(s))


def m_all_underscore(s: str) -> bool:
    return s != "" and set(s) == {"_"}


class Twin:
    """trigger predicates; `fallback` is the literal extracted from the source by harness/tables.py"""

    def __init__(self, fallback: str) -> None:
        self.fallback = fallback
        self.kw = frozenset(keyword.kwlist)
        self.reserved = py_reserved()

    def suspect(self, cfg: Tuple[bool, bool, bool], p: str) -> bool:
        return p in self.kw or (cfg[2] and p in self.reserved)

    def single(self, cfg: Tuple[bool, bool, bool], n: str) -> List[bool]:
        s, t, r = cfg
        digit = (m_cls1(alnum_of(n)) == "D") if s else (t and m_cls1(n.lstrip("_")) == "D")
        trimkw = (not s) and t and n != n.lstrip("_") and self.suspect(cfg, n.lstrip("_"))
        notfixed = s and m_all_underscore(n)
        fires = m_all_underscore(n) and (s or t)
        return [bool(digit), bool(trimkw), bool(notfixed), bool(fires)]

    def stem(self, cfg: Tuple[bool, bool, bool], a: str) -> str:
        return a.lstrip("_") if cfg[1] else a

    def pair(self, cfg: Tuple[bool, bool, bool], a: str, b: str) -> List[bool]:
        s, t, r = cfg
        la, lb = a.lstrip("_"), b.lstrip("_")
        snake = s and m_snake(a) == m_snake(b)
        trim = (not s) and t and la == lb and ((a != la and b != lb) or not self.suspect(cfg, la))
        suffix = (not s) and ((self.suspect(cfg, b) and self.stem(cfg, a) == b + "_") or (self.suspect(cfg, a) and self.stem(cfg, b) == a + "_"))
        fb = (not s) and t and ((m_all_underscore(a) and not m_all_underscore(b) and lb == self.fallback)
                                or (m_all_underscore(b) and not m_all_underscore(a) and la == self.fallback))
        return [bool(snake), bool(trim), bool(suffix), bool(fb)]

    def pair_trigger(self, cfg: Tuple[bool, bool, bool], a: str, b: str) -> Optional[str]:
        for name, on in zip(TRIG2, self.pair(cfg, a, b)):
            if on:
                return name
        return None

    def pascal_bad(self, n: str) -> bool:
        pa = "".join(p[:1].upper() + p[1:] for p in n.split("_"))
        return m_all_underscore(n) or m_cls1(n.lstrip("_")) == "D" or pa in self.kw

    # ---- scope level (Model/Names.lean trigScopeMerge / trigScopeSingle) ----
    def typename_clash(self, snake: bool, a: str, b: str) -> bool:
        return (not snake) and ((a == TYPENAME and b != TYPENAME and b.lstrip("_") == TYPENAME_ALIAS)
                                or (b == TYPENAME and a != TYPENAME and a.lstrip("_") == TYPENAME_ALIAS))

    def scope_pair_trigger(self, scope: str, snake: bool, a: str, b: str) -> Optional[str]:
        if scope == "resultField" and TYPENAME in (a, b):
            return "trigTypenameClash" if self.typename_clash(snake, a, b) else None
        return self.pair_trigger(SCOPE_CFG[scope](snake), a, b)

    def scope_single_trigger(self, scope: str, snake: bool, n: str) -> Optional[str]:
        if scope == "resultField" and n == TYPENAME:
            return None
        t = self.single(SCOPE_CFG[scope](snake), n)
        return "trigDigitLead" if t[0] else "trigTrimToKeyword" if t[1] else None

    # ---- method scope (Model/NameScopes.lean) ----
    def var_py(self, snake: bool, n: str) -> str:
        """process_name with the flags of arguments.py (no trimming, no reserved-name suffix)"""
        p = m_snake(n) if snake else n
        if p in self.kw:
            p += "_"
        if m_all_underscore(n) and p == "":
            p = self.fallback
        return p

    def method_triggers(self, snake: bool, ret: str, names: Sequence[str], ser_any: bool = False) -> List[bool]:
        py = [self.var_py(snake, n) for n in names]
        return ["self" in py, "kwargs" in py, "query" in py and "_query" in py,
                "gql" in py or ret in py or (ser_any and METHOD_SERIALIZE in py)]

    def method_region(self, snake: bool, ret: str, names: Sequence[str], sig: str, ser_any: bool = False) -> Optional[str]:
        """the finding region a failing method lies in, given HOW it failed"""
        t_self, t_kw, t_cap, t_glob = self.method_triggers(snake, ret, names, ser_any)
        if sig == "broken-output":
            if t_self:
                return "trigSelfParam"
            if t_kw:
                return "trigKwargsParam"
            for n in names:
                t1 = self.scope_single_trigger("variable", snake, n)
                if t1:
                    return t1
            for a, b in itertools.combinations(names, 2):
                t2 = self.scope_pair_trigger("variable", snake, a, b)
                if t2:
                    return t2
            return None
        if sig == "caller-value-lost":
            return "trigQueryCapture" if t_cap else None
        if sig == "method-unusable":
            return "trigGlobalShadow" if t_glob else None
        return None


def twin() -> Twin:
    from . import tables

    return Twin(tables._process_name_fallback({}))


SCOPE_CFG = {  # scope -> flags as a function of the convert_to_snake_case setting
    "resultField": lambda s: (s, True, True),
    "inputField": lambda s: (s, True, True),
    "variable": lambda s: (s, False, False),
    "operation": lambda s: (True, False, False),
    "enumValue": lambda s: (False, False, False),
}

# --------------------------------------------------------------------------------------------
# calling the real functions
# --------------------------------------------------------------------------------------------


def _safe(fn: Callable[..., Any], *a: Any, **kw: Any) -> Any:
    try:
        return fn(*a, **kw)
    except Exception as e:  # noqa: BLE001 - becomes a value that matches nothing the model says
        return {"raised": type(e).__name__}


def utils_mod() -> Any:
    import importlib

    return importlib.import_module("ariadne_codegen.utils")


def real_process(u: Any, n: str, cfg: Tuple[bool, bool, bool], pm: Any = None) -> Any:
    return _safe(u.process_name, n, convert_to_snake_case=cfg[0], plugin_manager=pm,
                 trim_leading_underscore=cfg[1], handle_pydantic_resrved_field_names=cfg[2])


def observe_name(u: Any, n: str) -> Dict[str, Any]:
    return {
        "snake": _safe(u.str_to_snake_case, n),
        "pascal": _safe(u.str_to_pascal_case, n),
        "proc": [real_process(u, n, c) for c in CFGS],
    }


# --------------------------------------------------------------------------------------------
# the name space
# --------------------------------------------------------------------------------------------


def words_upto(alphabet: str, n: int) -> Iterable[str]:
    for k in range(0, n + 1):
        for t in itertools.product(alphabet, repeat=k):
            yield "".join(t)


def special_names() -> List[str]:
    """every keyword, soft keyword, reserved pydantic name, the fallback literal, __typename and its
    alias - bare, with `_` prefixes/suffixes, capitalised, upper-cased, camel-joined"""
    base = list(keyword.kwlist) + list(keyword.softkwlist) + sorted(py_reserved()) + [
        "underscore_named_field_", "underscore_named_field", "__typename", "typename__", "typename", "self", "kwargs", "UNSET"]
    out: List[str] = []
    for b in base:
        core = b.strip("_") or b
        forms = {b, core, core.capitalize(), core.upper(), core.lower(), core[:1].lower() + core[1:],
                 "".join(p.capitalize() for p in core.split("_")), core + "X", "x" + core.capitalize(), core + "1", core + "_1"}
        for f in forms:
            for pre in ("", "_", "__"):
                for suf in ("", "_", "__"):
                    out.append(pre + f + suf)
    return sorted({x for x in out if WORD_RE.match(x)})


def random_names(rng: Any, count: int) -> List[str]:
    out = []
    pieces = ["foo", "Bar", "HTTP", "Id", "ID", "x", "X", "2", "42", "_", "__", "class", "copy", "Json", "a", "B"]
    for _ in range(count):
        r = rng.random()
        if r < 0.5:
            n = "".join(rng.choice(FULL) for _ in range(rng.randint(1, 24)))
        elif r < 0.8:
            n = "".join(rng.choice(pieces) for _ in range(rng.randint(1, 6)))
        else:
            n = "".join(rng.choice("aA0_") for _ in range(rng.randint(7, 14)))
        out.append(n)
    return out


# --------------------------------------------------------------------------------------------
# L1: correspondence + laws on the real functions
# --------------------------------------------------------------------------------------------


def _fail(res: Result, sig: str, trigger: Optional[str], inp: Dict[str, Any], detail: str) -> None:
    res.count(f"oracle-failure:{sig}:{trigger}")
    # keep one representative per (trigger, signature) plus everything that is not a known region
    key = f"{trigger}|{sig}"
    seen = res.extra.setdefault("_failure_keys", {})
    seen[key] = seen.get(key, 0) + 1
    if trigger is None or seen[key] <= 3:
        res.failures.append(Failure(sig, trigger, inp, detail))


def judge_names(ctx: Ctx, st: Optional[LeanStatus], names: Sequence[str], res: Result, label: str,
                groups: Optional[List[Dict[str, List[str]]]] = None) -> None:
    """model vs real functions on every name; the four name laws on every GraphQL name"""
    u = utils_mod()
    tw = twin()
    model: Optional[List[Any]] = None
    if st is not None and st.driver_ok:
        model = common.run_driver(ctx.prop, [{"op": "name", "n": n} for n in names], chunk=50000)
    mism = 0
    for i, n in enumerate(names):
        impl = observe_name(u, n)
        is_g = bool(GNAME_RE.match(n))
        trig = [tw.single(c, n) for c in CFGS]
        oks = [out_ok(o, c[2]) is None for o, c in zip(impl["proc"], CFGS)]
        res.seen(["name", n], nontrivial=True)
        res.count(f"names:{label}")
        if model is not None:
            m = model[i]
            strig = [[tw.scope_single_trigger(sc, sn, n) is not None for sc in SCOPES] for sn in (False, True)]
            got = {"snake": impl["snake"], "pascal": impl["pascal"], "proc": impl["proc"], "gname": is_g,
                   "word": bool(WORD_RE.match(n)), "alnum": alnum_of(n), "ok": oks, "trig": trig, "strig": strig,
                   "ptrig": tw.pascal_bad(n)}
            want = {k: m[k] for k in got}
            if got != want and mism < 25:
                mism += 1
                bad = [k for k in got if got[k] != want[k]]
                res.mismatches.append(Mismatch("name:" + ",".join(bad), {"level": "name", "n": n},
                                               {k: got[k] for k in bad}, {k: want[k] for k in bad}))
            # the token list itself: lower-cased words of the real output
            if isinstance(impl["snake"], str) and [t.lower() for t in m["tokens"]] != ([w for w in impl["snake"].split("_")] if impl["snake"] else []):
                if mism < 25:
                    mism += 1
                    res.mismatches.append(Mismatch("name:tokens", {"level": "name", "n": n}, impl["snake"], m["tokens"]))
        if groups is not None and is_g:
            for k, o in enumerate(impl["proc"]):
                if isinstance(o, str):
                    groups[k].setdefault(o, []).append(n)
        if not is_g:
            continue
        # ---- the laws, on the real functions -------------------------------------------------
        sn = impl["snake"]
        if not isinstance(sn, str):
            _fail(res, "raises", None, {"level": "name", "n": n, "fn": "str_to_snake_case"}, str(sn))
        else:
            if _safe(u.str_to_snake_case, sn) != sn:
                _fail(res, "snake-not-idempotent", None, {"level": "name", "n": n, "fn": "str_to_snake_case"}, f"{n!r} -> {sn!r} -> {_safe(u.str_to_snake_case, sn)!r}")
            if alnum_of(sn) != alnum_of(n).lower():
                _fail(res, "letters-not-preserved", None, {"level": "name", "n": n, "fn": "str_to_snake_case"}, f"{n!r} -> {sn!r}")
        pa = impl["pascal"]
        if not isinstance(pa, str):
            _fail(res, "raises", None, {"level": "name", "n": n, "fn": "str_to_pascal_case"}, str(pa))
        else:
            if alnum_of(pa).lower() != alnum_of(n).lower():
                _fail(res, "letters-not-preserved", None, {"level": "name", "n": n, "fn": "str_to_pascal_case"}, f"{n!r} -> {pa!r}")
            if _safe(u.str_to_pascal_case, pa) != pa:
                _fail(res, "pascal-not-idempotent", None, {"level": "name", "n": n, "fn": "str_to_pascal_case"}, f"{n!r} -> {pa!r} -> {_safe(u.str_to_pascal_case, pa)!r}")
            sigp = out_ok(pa, False)  # the result class of an operation called n
            if sigp:
                if tw.pascal_bad(n):
                    res.count("inside:trigPascalBad")
                _fail(res, sigp, "trigPascalBad" if tw.pascal_bad(n) else None, {"level": "pascal", "n": n},
                      f"str_to_pascal_case({n!r}) = {pa!r} (class name of an operation called {n!r})")
        for k, cfg in enumerate(CFGS):
            out = impl["proc"][k]
            inp = {"level": "name", "n": n, "cfg": k}
            t_digit, t_trimkw, t_notfixed, t_fires = trig[k]
            region = "trigDigitLead" if t_digit else "trigTrimToKeyword" if t_trimkw else None
            if any(trig[k][:3]):
                res.count("inside:" + ",".join(nm for nm, on in zip(TRIG1[:3], trig[k]) if on))
            sig = out_ok(out, cfg[2])
            if sig:
                _fail(res, sig, region, inp, f"process_name({n!r}, snake={cfg[0]}, trim={cfg[1]}, reserved={cfg[2]}) = {out!r}")
                continue
            if real_process(u, n, cfg) != out:
                _fail(res, "not-deterministic", None, inp, f"{n!r}: two calls differ")
            again = real_process(u, out, cfg)
            if again != out:
                reg2 = "trigFallbackNotFixed" if t_notfixed else region
                _fail(res, "not-idempotent", reg2, inp, f"{n!r} -> {out!r} -> {again!r}")
            if not m_all_underscore(n):  # an all-underscore name has no letter or digit to keep
                want = alnum_of(n).lower() if cfg[0] else alnum_of(n)
                if alnum_of(out) != want:
                    _fail(res, "letters-not-preserved", None, inp, f"{n!r} -> {out!r}")
    if label == "exhaustive" and model is not None:
        for n in ("fooBar", "HTTPResponse2xx"):
            res.sample({"n": n, "impl": observe_name(u, n), "model_tokens": common.run_driver(ctx.prop, [{"op": "name", "n": n}])[0]["tokens"]})


def judge_hooks(ctx: Ctx, st: Optional[LeanStatus], names: Sequence[str], res: Result) -> None:
    """process_name with a real PluginManager: no plugin (what every real run does) and plugins that
    rewrite the name - pins WHERE the hook is called (after trimming, before the fallback test)."""
    u = utils_mod()
    try:
        from graphql import build_schema

        from ariadne_codegen.plugins.base import Plugin
        from ariadne_codegen.plugins.manager import PluginManager
    except Exception as e:  # noqa: BLE001
        res.mismatches.append(Mismatch("hook", {"level": "hook"}, f"observer: {e!r}", None))
        return
    schema = build_schema("type Query { a: Int }")

    def mk(fn: Callable[[str], str]) -> Any:
        class P(Plugin):  # type: ignore[misc]
            def process_name(self, name: str, node: Any = None) -> str:
                return fn(name)

        return _safe(PluginManager, schema=schema, config_dict={}, plugins_types=[P])

    hooks = [
        ({"k": "id"}, _safe(PluginManager, schema=schema, config_dict={}, plugins_types=[])),
        ({"k": "prefix", "s": "p_"}, mk(lambda s: "p_" + s)),
        ({"k": "const", "s": ""}, mk(lambda s: "")),
        ({"k": "const", "s": "zz"}, mk(lambda s: "zz")),
        ({"k": "strip"}, mk(lambda s: s.replace("_", ""))),
    ]
    lines, impl = [], []
    for n in names:
        for k, cfg in enumerate(CFGS):
            for hj, pm in hooks:
                lines.append({"op": "hook", "n": n, "cfg": k, "hook": hj})
                impl.append(real_process(u, n, cfg, pm) if not isinstance(pm, dict) else pm)
    if st is None or not st.driver_ok:
        return
    model = common.run_driver(ctx.prop, lines, chunk=50000)
    bad = 0
    for line, a, b in zip(lines, impl, model):
        res.count("hook-cases")
        if a != b and bad < 10:
            bad += 1
            res.mismatches.append(Mismatch("hook", {"level": "hook", **line}, a, b))
    res.evaluations += len(lines)


def judge_groups(ctx: Ctx, st: Optional[LeanStatus], groups: List[Dict[str, List[str]]], res: Result, rng: Any,
                 per_group: int, non_colliding: int, all_names: Sequence[str]) -> None:
    """pairs: every group of GraphQL names with the same real output is a set of merged names;
    each sampled pair must lie in a listed trigger region (else: unknown merge).  Random pairs with
    different outputs must lie in none (the triggers are exact)."""
    u = utils_mod()
    tw = twin()
    pairs: List[Tuple[int, str, str, bool]] = []
    for k, g in enumerate(groups):
        for out, members in g.items():
            members = sorted(set(members))
            if len(members) < 2:
                continue
            res.count(f"merged-groups:cfg{k}")
            cand = list(itertools.combinations(members, 2))
            if len(cand) > per_group:
                cand = rng.sample(cand, per_group)
            pairs += [(k, a, b, True) for a, b in cand]
    gn = [n for n in all_names if GNAME_RE.match(n)]
    for _ in range(non_colliding):
        a, b = rng.choice(gn), rng.choice(gn)
        if a != b:
            k = rng.randrange(8)
            pairs.append((k, a, b, real_process(u, a, CFGS[k]) == real_process(u, b, CFGS[k])))
    model = None
    if st is not None and st.driver_ok:
        uniq = sorted({(a, b) for _, a, b, _ in pairs})
        out = common.run_driver(ctx.prop, [{"op": "pair", "a": a, "b": b} for a, b in uniq], chunk=50000)
        model = dict(zip(uniq, out))
    bad = 0
    for k, a, b, merged in pairs:
        cfg = CFGS[k]
        t = tw.pair(cfg, a, b)
        res.seen(["pair", k, a, b], nontrivial=merged)
        res.count("pairs:merged" if merged else "pairs:distinct")
        if model is not None:
            want = model[(a, b)]["cfgs"][k]
            got = [merged] + t
            if got != want and bad < 15:
                bad += 1
                res.mismatches.append(Mismatch("pair", {"level": "pair", "a": a, "b": b, "cfg": k}, got, want))
        trig = tw.pair_trigger(cfg, a, b)
        if merged:
            res.count(f"inside:{trig}")
            _fail(res, "names-merged", trig, {"level": "pair", "a": a, "b": b, "cfg": k},
                  f"process_name gives {real_process(u, a, cfg)!r} for both {a!r} and {b!r} (snake={cfg[0]}, trim={cfg[1]}, reserved={cfg[2]})")
        elif trig is not None and bad < 15:
            bad += 1
            res.mismatches.append(Mismatch("pair-trigger-too-wide", {"level": "pair", "a": a, "b": b, "cfg": k}, "distinct outputs", trig))


# --------------------------------------------------------------------------------------------
# L2: what the real generators emit per scope (runs in forked children)
# --------------------------------------------------------------------------------------------


def _field_rows(class_def: ast.ClassDef) -> List[List[Any]]:
    rows = []
    for stmt in class_def.body:
        if isinstance(stmt, ast.AnnAssign) and isinstance(stmt.target, ast.Name):
            alias = None
            if isinstance(stmt.value, ast.Call):
                for kw in stmt.value.keywords:
                    if kw.arg == "alias" and isinstance(kw.value, ast.Constant):
                        alias = kw.value.value
            rows.append([stmt.target.id, alias])
    return rows


def emit_scope(scope: str, snake: bool, names: List[str]) -> Any:
    """CHILD: run the real generator of one scope on `names`; returns rows [py, alias, wire] in source order."""
    from graphql import build_ast_schema, parse

    if scope == "resultField":
        from ariadne_codegen.client_generators.result_types import ResultTypesGenerator

        # response keys: half as plain field names, half as aliases
        plain = [n for i, n in enumerate(names) if i % 2 == 0 and not n.startswith("__")]
        base = "f"
        while base in names:
            base += "q"
        # an aliased key selects, where possible, a field whose own name is what the key is expected to
        # become (`fooBar: foo_bar`): the alias= keyword must then still carry the key, not the field name
        target: Dict[str, str] = {}
        for n in names:
            if n not in plain:
                guess = m_snake(n) if snake else n.lstrip("_")
                target[n] = guess if (GNAME_RE.match(guess) and not guess.startswith("__") and guess != n) else base
        fields = sorted(set(plain) | set(target.values()) | {base})
        schema = build_ast_schema(parse("type Query { " + " ".join(f"{n}: Int" for n in fields) + " }"))
        sel = " ".join(n if n in plain else f"{n}: {target[n]}" for n in names)
        op = parse("query Q { " + sel + " }").definitions[0]
        g = ResultTypesGenerator(schema=schema, operation_definition=op, enums_module_name="enums", convert_to_snake_case=snake)
        rows = _field_rows(g.get_classes()[0])
        return [[py, al, al if al is not None else py] for py, al in rows]
    if scope == "inputField":
        from ariadne_codegen.client_generators.input_types import InputTypesGenerator

        schema = build_ast_schema(parse("type Query { f(i: I): Int } input I { " + " ".join(f"{n}: Int" for n in names) + " }"))
        g = InputTypesGenerator(schema=schema, enums_module="enums", convert_to_snake_case=snake)
        cls = [c for c in g.generate().body if isinstance(c, ast.ClassDef) and c.name == "I"][0]
        return [[py, al, al if al is not None else py] for py, al in _field_rows(cls)]
    if scope == "variable":
        from ariadne_codegen.client_generators.arguments import ArgumentsGenerator

        schema = build_ast_schema(parse("type Query { f: Int }"))
        op = parse("query Q(" + ", ".join(f"${n}: Int" for n in names) + ") { f }").definitions[0]
        args, dict_ = ArgumentsGenerator(schema=schema, convert_to_snake_case=snake).generate(op.variable_definitions)
        params = [a.arg for a in args.args[1:]]
        rows = []
        for i, (k, v) in enumerate(zip(dict_.keys, dict_.values)):
            ref = v.id if isinstance(v, ast.Name) else ast.unparse(v)
            rows.append([params[i] if i < len(params) else None, None, k.value, ref])
        # the parameter and the value sent under the wire key must be the same python name
        return [[py, None, wire] if py == ref else [py, "param/dict disagree:" + str(ref), wire] for py, _, wire, ref in rows]
    if scope == "enumValue":
        from ariadne_codegen.client_generators.enums import EnumsGenerator

        schema = build_ast_schema(parse("type Query { e: E } enum E { " + " ".join(names) + " }"))
        cls = [c for c in EnumsGenerator(schema=schema).generate().body if isinstance(c, ast.ClassDef) and c.name == "E"][0]
        rows = []
        for stmt in cls.body:
            if isinstance(stmt, ast.Assign):
                rows.append([stmt.targets[0].id, None, stmt.value.value])
        return rows
    if scope == "operation":
        return emit_operations(snake, names, FIXED_MODULES)["rows"]
    raise ValueError(scope)


@engine.with_scratch
def _emit_operations(root: Any, snake: bool, names: List[str]) -> Any:
    from graphql import build_ast_schema, parse

    from ariadne_codegen.client_generators.package import get_package_generator
    from ariadne_codegen.plugins.manager import PluginManager
    from ariadne_codegen.settings import ClientSettings

    (root / "schema.graphql").write_text("type Query { f: Int }")
    (root / "q.graphql").write_text("query Q { f }")
    settings = ClientSettings(schema_path=str(root / "schema.graphql"), queries_path=str(root / "q.graphql"),
                              target_package_path=str(root), convert_to_snake_case=snake)
    schema = build_ast_schema(parse("type Query { f: Int }"))
    pg = get_package_generator(schema=schema, fragments=[], settings=settings, plugin_manager=PluginManager(schema=schema))
    rows = []
    for n in names:
        before = len(pg.client_generator._class_def.body)
        pg.add_operation(parse(f"query {n} {{ f }}").definitions[0])
        m = pg.client_generator._class_def.body[before]
        opname = None
        for node in ast.walk(m):
            if isinstance(node, ast.keyword) and node.arg == "operation_name" and isinstance(node.value, ast.Constant):
                opname = node.value.value
        ret = ast.unparse(m.returns) if m.returns is not None else None
        rows.append([m.name, None, opname, ret])
    files = sorted(pg._result_types_files.keys())
    refused = None
    try:
        pg._include_exceptions()
        pg._validate_unique_file_names()
    except Exception as e:  # noqa: BLE001
        refused = type(e).__name__
    return {"rows": [[a, b, c] for a, b, c, _ in rows], "classes": [r[3] for r in rows], "files": files, "refused": refused}


def emit_operations(snake: bool, names: List[str], fixed: List[str]) -> Any:
    return _emit_operations(snake, names)


def _emit_task(scope: str, snake: bool, names: List[str]) -> Any:
    try:
        if scope == "operation":
            return {"ok": emit_operations(snake, names, FIXED_MODULES)}
        return {"ok": {"rows": emit_scope(scope, snake, names)}}
    except (AttributeError, ImportError, TypeError) as e:
        return {"observer": f"{type(e).__name__}: {e}"}
    except Exception as e:  # noqa: BLE001 - the generator itself refused these names
        return {"raised": type(e).__name__, "msg": str(e)[:200]}


GRAPHQL_ENUM_FORBIDDEN = {"true", "false", "null"}


def scope_batches(rng: Any, names: Sequence[str], batch: int, count: int) -> List[Tuple[str, bool, List[str]]]:
    gn = [n for n in names if GNAME_RE.match(n)]
    out = []
    for i in range(count):
        scope = SCOPES[i % len(SCOPES)]
        snake = bool((i // len(SCOPES)) % 2)
        chosen = sorted(set(rng.sample(gn, min(batch, len(gn)))), key=lambda n: rng.random())
        if scope == "enumValue":
            chosen = [n for n in chosen if n not in GRAPHQL_ENUM_FORBIDDEN]
        if scope == "resultField" and i % 3 == 0 and TYPENAME not in chosen:
            chosen.insert(rng.randrange(len(chosen) + 1), TYPENAME)
        out.append((scope, snake, chosen))
    return out


def judge_scopes(ctx: Ctx, st: Optional[LeanStatus], batches: List[Tuple[str, bool, List[str]]], res: Result) -> None:
    tw = twin()
    outs = _pmap(_emit_task, [(s, sn, ns) for s, sn, ns in batches], 300.0)
    # the model's answer for every (name) in one go
    model: Dict[str, Any] = {}
    model_pascal: Dict[str, str] = {}
    scope_model: List[Any] = []
    if st is not None and st.driver_ok:
        uniq = sorted({n for _, _, ns in batches for n in ns})
        for n, m in zip(uniq, common.run_driver(ctx.prop, [{"op": "name", "n": n} for n in uniq], chunk=50000)):
            model[n] = m["scopes"]
            model_pascal[n] = m["pascal"]
        scope_model = common.run_driver(ctx.prop, [{"op": "scope", "scope": s, "snake": sn, "names": ns, "fixed": FIXED_MODULES}
                                                  for s, sn, ns in batches])
    bad = 0
    pair_checks: List[Tuple[str, bool, str, str, bool]] = []
    for bi, ((scope, snake, names), (status, val)) in enumerate(zip(batches, outs)):
        inp = {"level": "scope", "scope": scope, "snake": snake, "names": names}
        res.count(f"scope-batches:{scope}")
        if status != "ok" or "ok" not in val:
            what = val if status == "ok" else {"child": status, "info": str(val)[:300]}
            res.mismatches.append(Mismatch("scope:" + scope, inp, f"observer: {json.dumps(what, default=str)[:300]}", "rows"))
            continue
        rows = val["ok"]["rows"]
        if len(rows) != len(names):
            res.mismatches.append(Mismatch("scope:" + scope, inp, f"{len(rows)} rows for {len(names)} names", "one row per name"))
            continue
        si = SCOPES.index(scope)
        cfg = SCOPE_CFG[scope](snake)
        by_py: Dict[str, List[str]] = {}
        for n, row in zip(names, rows):
            res.seen(["scope", scope, snake, n], nontrivial=True)
            if model and bad < 15 and row != model[n][1 if snake else 0][si]:
                bad += 1
                res.mismatches.append(Mismatch("scope:" + scope, {"level": "scope", "scope": scope, "snake": snake, "names": [n]},
                                               row, model[n][1 if snake else 0][si]))
            py, alias, wire = row
            one = {"level": "scope", "scope": scope, "snake": snake, "names": [n]}
            if wire != n:
                _fail(res, "wire-name-lost", None, one, f"{scope} {n!r}: python name {py!r}, alias {alias!r}, travels as {wire!r}")
            sig = out_ok(py, cfg[2])
            trig1 = tw.scope_single_trigger(scope, snake, n)
            if sig:
                _fail(res, sig, trig1, one, f"{scope} {n!r} (snake={snake}) becomes {py!r}")
            if isinstance(py, str):
                by_py.setdefault(py, []).append(n)
        for py, members in by_py.items():
            if len(members) > 1:
                for a, b in list(itertools.combinations(members, 2))[:6]:
                    trig = tw.scope_pair_trigger(scope, snake, a, b)
                    pair_checks.append((scope, snake, a, b, True))
                    _fail(res, "names-merged", trig, {"level": "scope", "scope": scope, "snake": snake, "names": [a, b]},
                          f"{scope}: {a!r} and {b!r} both become {py!r} and nothing refuses them")
        # a few pairs that did NOT merge: the scope-level triggers must be silent on them
        py_of = {n: r[0] for n, r in zip(names, rows)}
        for a, b in zip(names[::7], names[3::7]):
            if a != b and py_of[a] != py_of[b]:
                pair_checks.append((scope, snake, a, b, False))
        if scope == "operation":
            for n, cname in zip(names, val["ok"].get("classes", [])):
                if model and bad < 15 and cname != model_pascal.get(n):
                    bad += 1
                    res.mismatches.append(Mismatch("scope:operation-class", {"level": "scope", "scope": scope, "snake": snake, "names": [n]}, cname, model_pascal.get(n)))
                sigp = out_ok(cname, False)
                if sigp:
                    _fail(res, sigp, "trigPascalBad" if tw.pascal_bad(n) else None, {"level": "scope", "scope": scope, "snake": snake, "names": [n]},
                          f"operation {n!r}: result class is named {cname!r}")
        if scope_model:
            sm = scope_model[bi]
            if sm["names"] != [r[0] for r in rows] and bad < 15:
                bad += 1
                res.mismatches.append(Mismatch("scope-names:" + scope, inp, [r[0] for r in rows], sm["names"]))
            if scope == "operation" and bool(val["ok"].get("refused")) != sm["refused"] and bad < 15:
                bad += 1
                res.mismatches.append(Mismatch("scope-refusal", inp, val["ok"].get("refused"), sm["refused"]))


    # real merged / not merged + twin trigger vs the model's pyName equality and trigScopeMerge
    if st is not None and st.driver_ok and pair_checks:
        uniq = sorted({(a, b) for _, _, a, b, _ in pair_checks})
        pm = dict(zip(uniq, common.run_driver(ctx.prop, [{"op": "pair", "a": a, "b": b} for a, b in uniq], chunk=50000)))
        for scope, snake, a, b, merged in pair_checks:
            want = pm[(a, b)]["scopes"][1 if snake else 0][SCOPES.index(scope)]
            got = [merged, tw.scope_pair_trigger(scope, snake, a, b) is not None]
            res.count("scope-pairs:merged" if merged else "scope-pairs:distinct")
            if got != want and bad < 15:
                bad += 1
                res.mismatches.append(Mismatch("scope-pair", {"level": "scope", "scope": scope, "snake": snake, "names": [a, b]}, got, want))


# --------------------------------------------------------------------------------------------
# L3: whole packages for pairs of names in one scope (forked; real generator, real import, real use)
# --------------------------------------------------------------------------------------------


def _pair_sources(scope: str, a: str, b: str) -> Tuple[str, str]:
    if scope == "resultField":
        plain = not (a.startswith("__") or b.startswith("__"))
        if plain:
            return f"type Query {{ {a}: Int {b}: Int }}", f"query Q {{ {a} {b} }}"
        return "type Query { f: Int g: Int }", f"query Q {{ {a}: f {b}: g }}"
    if scope == "inputField":
        return f"type Query {{ f(i: I): Int }} input I {{ {a}: Int {b}: Int }}", "query Q($i: I) { f(i: $i) }"
    if scope == "variable":
        return "type Query { f(x: Int, y: Int): Int }", f"query Q(${a}: Int, ${b}: Int) {{ f(x: ${a}, y: ${b}) }}"
    if scope == "operation":
        return "type Query { f: Int g: Int }", f"query {a} {{ f }} query {b} {{ g }}"
    if scope == "enumValue":
        return f"type Query {{ e: E }} enum E {{ {a} {b} }}", "query Q { e }"
    raise ValueError(scope)


def package_case(scope: str, snake: bool, a: str, b: str) -> Dict[str, Any]:
    """CHILD: generate a package in which `a` and `b` share one scope; import it; use both names.
    On every verdict but ok the python names the real generator of that scope gives the two names
    are attached (`emitted`), so that the parent can tell a naming matter from anything else."""
    out = _package_case(scope, snake, a, b)
    if out.get("verdict") != "ok":
        try:
            out["emitted"] = [r[0] for r in emit_scope(scope, snake, [a, b])]
        except Exception as e:  # noqa: BLE001
            out["emitted"] = f"{type(e).__name__}: {e}"
    return out


@engine.with_scratch
def _package_case(root: Any, scope: str, snake: bool, a: str, b: str) -> Dict[str, Any]:
    import asyncio
    import warnings

    schema, queries = _pair_sources(scope, a, b)
    try:
        gen = engine.generate_client(root, schema, queries, {"convert_to_snake_case": snake})
    except BaseException as e:  # noqa: BLE001 - "generation fails with an error"
        return {"verdict": "generation-error", "cls": type(e).__name__, "msg": str(e)[:200]}
    try:
        with warnings.catch_warnings():
            warnings.simplefilter("ignore")
            pkg = engine.import_package(gen)
    except BaseException as e:  # noqa: BLE001
        return {"verdict": "broken-output", "cls": type(e).__name__, "msg": str(e)[:200]}
    import httpx

    try:
        if scope in ("resultField", "inputField"):
            model = pkg.Q if scope == "resultField" else pkg.I
            wires = {(f.alias or k): k for k, f in model.model_fields.items()}
            missing = [n for n in (a, b) if n not in wires]
            if missing:
                return {"verdict": "silently-merged", "msg": f"{model.__name__}.model_fields = {sorted(model.model_fields)}; no field for {missing}"}
            m = model.model_validate({a: 1, b: 2})
            back = m.model_dump(by_alias=True, exclude_unset=True)
            va, vb = getattr(m, wires[a]), getattr(m, wires[b])
            if back != {a: 1, b: 2} or (va, vb) != (1, 2):
                return {"verdict": "silently-merged", "msg": f"validate/dump gives {back}; attributes {wires[a]}={va!r} {wires[b]}={vb!r}"}
            return {"verdict": "ok", "py": [wires[a], wires[b]]}
        if scope == "enumValue":
            E = pkg.E
            ma, mb = E(a), E(b)
            if ma is mb or ma.name == mb.name:
                return {"verdict": "silently-merged", "msg": f"E({a!r}) and E({b!r}) are the same member {ma!r}"}
            return {"verdict": "ok", "py": [ma.name, mb.name]}
        captured: List[Dict[str, Any]] = []

        def handler(request: Any) -> Any:
            body = json.loads(request.content)
            captured.append(body)
            return httpx.Response(200, json={"data": {"f": 1, "g": 2}})

        client = engine.make_generated_client(pkg, handler)
        tree = ast.parse(gen.read("client.py"))
        if scope == "variable":
            mapping: Dict[str, str] = {}
            for node in ast.walk(tree):
                if isinstance(node, ast.AnnAssign) and isinstance(node.target, ast.Name) and node.target.id == "variables" and isinstance(node.value, ast.Dict):
                    for k, v in zip(node.value.keys, node.value.values):
                        mapping[k.value] = ast.unparse(v)
            if mapping.get(a) == mapping.get(b):
                return {"verdict": "silently-merged", "msg": f"both variables read the parameter {mapping.get(a)!r}"}
            asyncio.run(client.q(**{mapping[a]: 1, mapping[b]: 2}))
            sent = captured[-1].get("variables")
            if sent != {a: 1, b: 2}:
                return {"verdict": "silently-merged", "msg": f"sent variables {sent}"}
            return {"verdict": "ok", "py": [mapping[a], mapping[b]]}
        if scope == "operation":
            methods: Dict[str, List[str]] = {}
            cls = [c for c in tree.body if isinstance(c, ast.ClassDef)][0]
            for fn in cls.body:
                if isinstance(fn, (ast.FunctionDef, ast.AsyncFunctionDef)):
                    for node in ast.walk(fn):
                        if isinstance(node, ast.keyword) and node.arg == "operation_name" and isinstance(node.value, ast.Constant):
                            methods.setdefault(node.value.value, []).append(fn.name)
            if a not in methods or b not in methods:
                return {"verdict": "silently-merged", "msg": f"methods per operation: {methods}"}
            sent = []
            for op in (a, b):
                r = asyncio.run(getattr(client, methods[op][0])())
                sent.append((captured[-1].get("operationName"), sorted(r.model_dump(by_alias=True))))
            want = [(a, ["f"]), (b, ["g"])]
            if sent != want:
                return {"verdict": "silently-merged", "msg": f"calling {methods[a][0]}() and {methods[b][0]}() sent/returned {sent}, wanted {want}"}
            return {"verdict": "ok", "py": [methods[a][0], methods[b][0]]}
    except BaseException as e:  # noqa: BLE001 - the package imports but one of the two names cannot be used
        return {"verdict": "unusable", "cls": type(e).__name__, "msg": str(e)[:300]}
    return {"verdict": "ok"}


def judge_packages(ctx: Ctx, cases: List[Tuple[str, bool, str, str]], res: Result, label: str) -> List[Dict[str, Any]]:
    tw = twin()
    outs = _pmap(package_case, cases, 240.0)
    verdicts = []
    for (scope, snake, a, b), (status, val) in zip(cases, outs):
        inp = {"level": "package", "scope": scope, "snake": snake, "a": a, "b": b}
        res.seen(["package", scope, snake, a, b], nontrivial=True)
        if status != "ok":
            raise common.Infra(f"package case {inp} did not finish: {status} {str(val)[:300]}")
        v = val["verdict"]
        res.count(f"package:{label}:{scope}:{v}")
        verdicts.append({**inp, **val})
        if v in ("ok", "generation-error"):
            continue
        # The package was emitted but does not load / one of the names cannot be used.  That is C18's
        # business when the two names were given ONE python name, or a name that is no usable
        # identifier; anything else (e.g. Enum's own `_sunder_` rule) belongs to C04, not here.
        cfg = SCOPE_CFG[scope](snake)
        py = val.get("emitted")
        sig = "silently-merged" if v in ("silently-merged", "unusable") else "broken-output"
        if not (isinstance(py, list) and len(py) == 2):
            res.mismatches.append(Mismatch("package-emitted", inp, f"observer: {py!r}", "two python names"))
        elif py[0] == py[1]:
            _fail(res, sig, tw.scope_pair_trigger(scope, snake, a, b), inp, f"{scope} {a!r}/{b!r} snake={snake} both become {py[0]!r}: {v}: {val.get('cls', '')} {val.get('msg', '')}")
        elif any(out_ok(o, cfg[2]) for o in py):
            trig = None
            for n, o in zip((a, b), py):
                if out_ok(o, cfg[2]):
                    trig = trig or tw.scope_single_trigger(scope, snake, n)
            _fail(res, "broken-output", trig, inp, f"{scope} {a!r}/{b!r} snake={snake} become {py}: {v}: {val.get('cls', '')} {val.get('msg', '')}")
        elif scope == "operation" and any(tw.pascal_bad(n) for n in (a, b)):
            _fail(res, "broken-output", "trigPascalBad", inp, f"operation {a!r}/{b!r}: result class names {[_safe(utils_mod().str_to_pascal_case, n) for n in (a, b)]}: {v}: {val.get('cls', '')} {val.get('msg', '')}")
        else:
            res.count(f"package:{label}:{scope}:not-a-naming-matter")
    return verdicts


def random_package_cases(rng: Any, names: Sequence[str], count: int) -> List[Tuple[str, bool, str, str]]:
    """pairs that do NOT merge according to the twin must both be usable; a share of pairs that do"""
    tw = twin()
    gn = [n for n in names if GNAME_RE.match(n) and len(n) <= 8 and n not in GRAPHQL_ENUM_FORBIDDEN and n != "__typename"]
    out: List[Tuple[str, bool, str, str]] = []
    tries = 0
    while len(out) < count and tries < count * 200:
        tries += 1
        scope = SCOPES[len(out) % len(SCOPES)]
        snake = rng.random() < 0.5
        a = rng.choice(gn)
        want_merge = rng.random() < 0.35
        cfg = SCOPE_CFG[scope](snake)
        if want_merge:
            variants = [a + "_", "_" + a, a[:1].swapcase() + a[1:], a.replace("_", ""), "_".join(m_tokens(a)) or a, a.upper(), a.lower()]
            b = rng.choice(variants)
        else:
            b = rng.choice(gn)
        if a == b or not GNAME_RE.match(b) or b in GRAPHQL_ENUM_FORBIDDEN:
            continue
        if scope in ("resultField", "inputField", "enumValue") and (a.startswith("__") or b.startswith("__")):
            continue  # refused by schema validation (reserved prefix) - nothing to observe
        single_bad = any(any(tw.single(cfg, n)[:2]) for n in (a, b))
        if single_bad and rng.random() < 0.8:
            continue
        out.append((scope, snake, a, b))
    return out


# --------------------------------------------------------------------------------------------
# M: the scope of a client method (real ArgumentsGenerator + ClientGenerator.add_method, compiled
#    by CPython and called against a fake base client)
# --------------------------------------------------------------------------------------------

METHOD_KINDS = ["sync", "async", "subscription"]
METHOD_RET = "Q"  # the result class of the operation `Q` (str_to_pascal_case of the operation name)
METHOD_OP_TEXT = "OPTEXT"
METHOD_SERIALIZE = "serialize_dt"  # serialize function of the custom scalar DT (Model/NameScopes.lean serName)
METHOD_SIGS = ("broken-output", "caller-value-lost", "method-unusable")


def method_pool(full: bool) -> List[str]:
    """names that stress the fixed names of a method: its own parameters, the helper locals in
    both spellings, the two module globals the body reads - with case and underscore affixes"""
    out: List[str] = []
    for b in ["self", "kwargs", "query", "gql", METHOD_RET]:
        other_case = b.capitalize() if b.islower() else b.lower()
        out += [b, "_" + b, other_case, b + "_"]
        if full:
            out += [b.upper() if b.islower() else "_" + other_case, "__" + b, "_" + b + "_"]
    for b in ["variables", "response", "data"]:
        out += [b, "_" + b]
        if full:
            out += [b.capitalize(), b + "_"]
    out += ["x", "fooBar", "foo_bar", "createdAfter", "class", METHOD_SERIALIZE]
    seen: List[str] = []
    for n in out:
        if n not in seen and GNAME_RE.match(n):
            seen.append(n)
    return seen


def method_cases(rng: Any, full: bool, triples: int) -> List[Dict[str, Any]]:
    """EVERY variable list of length 1 and 2 over the pool (ordered, distinct names; the default
    patterns that change the parameter order), both snake settings, the three method kinds; the same lists with
    the first variable typed as a custom scalar WITH a serialize function (third element of a variable: the dict
    value is then `serialize_dt(<name>)`); plus seeded random lists of length 3-4 with random serialize marks"""
    pool = method_pool(full)
    lists: List[List[List[Any]]] = [[]]
    for a in pool:
        lists += [[[a, False]], [[a, True]], [[a, False, True]], [[a, True, True]]]
    for a in pool:
        for b in pool:
            if a != b:
                lists += [[[a, False], [b, False]], [[a, True], [b, False]], [[a, False, True], [b, False]]]
    for _ in range(triples):
        k = rng.choice([3, 3, 4])
        names = rng.sample(pool, k)
        lists.append([[n, rng.random() < 0.5] + ([True] if rng.random() < 0.3 else []) for n in names])
    return [{"level": "method", "snake": sn, "kind": kind, "vars": vs}
            for vs in lists for sn in (False, True) for kind in METHOD_KINDS]


class _Arg:
    def __init__(self, i: int) -> None:
        self.i = i


class _Resp:
    def __init__(self, q: Any, v: Any) -> None:
        self.q, self.v = q, v


class _Data:
    def __init__(self, r: Any) -> None:
        self.r = r


class _Parsed:
    def __init__(self, d: Any) -> None:
        self.d = d


class _Ser:
    def __init__(self, v: Any) -> None:
        self.v = v


class _FakeBase:
    """what a generated method needs of its base client; records what it is handed"""

    def __init__(self, is_async: bool) -> None:
        self.sent: Optional[Dict[str, Any]] = None
        if is_async:
            async def execute(query: Any = None, operation_name: Any = None, variables: Any = None, **kwargs: Any) -> Any:
                self.sent = {"query": query, "operation_name": operation_name, "variables": variables, "kwargs": kwargs}
                return _Resp(query, variables)
        else:
            def execute(query: Any = None, operation_name: Any = None, variables: Any = None, **kwargs: Any) -> Any:  # type: ignore[misc]
                self.sent = {"query": query, "operation_name": operation_name, "variables": variables, "kwargs": kwargs}
                return _Resp(query, variables)
        self.execute = execute

    async def execute_ws(self, query: Any = None, operation_name: Any = None, variables: Any = None, **kwargs: Any) -> Any:
        self.sent = {"query": query, "operation_name": operation_name, "variables": variables, "kwargs": kwargs}
        yield _Data(_Resp(query, variables))

    def get_data(self, r: Any) -> Any:
        return _Data(r)


def _enc_val(v: Any, fake: Any) -> Any:
    if isinstance(v, _Arg):
        return {"arg": v.i}
    if v is fake:
        return "self"
    if isinstance(v, str) and v == METHOD_OP_TEXT + "\n":
        return "text"
    if isinstance(v, dict):
        return {"dict": [[k, _enc_val(x, fake)] for k, x in v.items()]}
    if isinstance(v, _Resp):
        return {"resp": [_enc_val(v.q, fake), _enc_val(v.v, fake)]}
    if isinstance(v, _Data):
        return {"data": _enc_val(v.r, fake)}
    if isinstance(v, _Parsed):
        return {"parsed": _enc_val(v.d, fake)}
    if isinstance(v, _Ser):
        return {"ser": _enc_val(v.v, fake)}
    return {"other": repr(v)[:80]}


def _drive(awaitable: Any) -> Any:
    """run a coroutine that never really suspends (the fake base client awaits nothing)"""
    try:
        awaitable.send(None)
    except StopIteration as e:
        return e.value
    raise RuntimeError("the generated method suspended on something that is not the fake base client")


_METHOD_SCHEMA: Dict[str, Any] = {}


def observe_method(case: Dict[str, Any]) -> Dict[str, Any]:
    """CHILD: emit the method with the real generators, compile it, call it with one marked value per variable."""
    import typing

    try:
        from graphql import build_ast_schema, parse

        from ariadne_codegen.client_generators.arguments import ArgumentsGenerator
        from ariadne_codegen.client_generators.client import ClientGenerator
        from ariadne_codegen.codegen import generate_import_from

        snake, kind, vars_ = case["snake"], case["kind"], case["vars"]
        schema = _METHOD_SCHEMA.get("s")
        if schema is None:  # the generators only read it
            schema = _METHOD_SCHEMA["s"] = build_ast_schema(parse("scalar DT type Query { f: Int } type Subscription { f: Int }"))
        from ariadne_codegen.client_generators.scalars import ScalarData

        optype = "subscription" if kind == "subscription" else "query"
        vd = ", ".join(f"${v[0]}: " + ("DT" if len(v) > 2 and v[2] else "Int") + ("" if v[1] else "!") for v in vars_)
        op = parse(f"{optype} {METHOD_RET}" + (f"({vd})" if vd else "") + " { f }").definitions[0]
        scalars = {"DT": ScalarData(type_="str", serialize=METHOD_SERIALIZE, graphql_name="DT")}
        ag = ArgumentsGenerator(schema=schema, convert_to_snake_case=snake, custom_scalars=scalars)
        cg = ClientGenerator(base_client_import=generate_import_from(["AsyncBaseClient"], "async_base_client", 1), arguments_generator=ag,
                             custom_scalars=scalars)
        try:
            cg.add_method(op, name="m", return_type=METHOD_RET, return_type_module="q", operation_str=METHOD_OP_TEXT, async_=(kind != "sync"))
        except (AttributeError, ImportError, TypeError):
            raise
        except Exception as e:  # noqa: BLE001 - "generation fails with an error"
            return {"raised": type(e).__name__, "msg": str(e)[:200]}
        m = cg._class_def.body[-1]
        params = [a.arg for a in m.args.args]
        kwarg = m.args.kwarg.arg if m.args.kwarg else None
        body = m.body
        loc: Dict[str, Any] = {"q": body[0].targets[0].id, "v": body[1].target.id}
        if kind == "subscription":
            loc["d"] = body[2].target.id
        else:
            loc["r"] = body[2].targets[0].id
            loc["d"] = body[3].targets[0].id
        src = ast.unparse(ast.fix_missing_locations(ast.Module(body=[m], type_ignores=[])))
    except (AttributeError, ImportError, TypeError, IndexError, KeyError) as e:
        return {"observer": f"{type(e).__name__}: {e}"[:300]}
    out: Dict[str, Any] = {"params": params, "kwarg": kwarg, "locals": loc, "src": src}
    try:
        code = compile(src, "<generated method>", "exec")
    except SyntaxError as e:
        out["compiles"] = False
        out["outcome"] = {"err": "SyntaxError", "msg": str(e.msg)}
        return out
    out["compiles"] = True

    class Ret:
        @staticmethod
        def model_validate(d: Any) -> Any:
            return _Parsed(d)

    g: Dict[str, Any] = {"gql": (lambda q: q), METHOD_RET: Ret, "UNSET": object(), "UnsetType": type(None), METHOD_SERIALIZE: _Ser}
    for nm in ("Dict", "Any", "Optional", "Union", "List", "AsyncIterator"):
        g[nm] = getattr(typing, nm)
    exec(code, g)
    fn = g["m"]
    fake = _FakeBase(is_async=(kind != "sync"))
    # the caller passes one value per variable POSITIONALLY: required variables first, then the optional
    # ones, each group in document order (the documented signature convention)
    order = [i for i, v in enumerate(vars_) if not v[1]] + [i for i, v in enumerate(vars_) if v[1]]
    args = [_Arg(i) for i in order]
    try:
        if kind == "sync":
            result = fn(fake, *args)
        elif kind == "async":
            result = _drive(fn(fake, *args))
        else:
            result = _drive(fn(fake, *args).__anext__())
        out["outcome"] = {"query": _enc_val(fake.sent["query"], fake) if fake.sent else None,
                          "variables": _enc_val(fake.sent["variables"], fake) if fake.sent else None,
                          "result": _enc_val(result, fake)}
    except Exception as e:  # noqa: BLE001 - what the caller of the generated method sees
        cls = "NameError" if isinstance(e, NameError) else type(e).__name__
        out["outcome"] = {"err": cls, "msg": str(e)[:160]}
    if fake.sent is not None:
        out["sent"] = {"query": _enc_val(fake.sent["query"], fake), "variables": _enc_val(fake.sent["variables"], fake),
                       "operation_name": fake.sent["operation_name"]}
    return out


def method_batch(cases: List[Dict[str, Any]]) -> List[Dict[str, Any]]:
    return [observe_method(c) for c in cases]


def method_verdict(case: Dict[str, Any], obs: Dict[str, Any]) -> Optional[Tuple[str, str]]:
    """the property, on what the real method did - stated without the Lean model:
    generation refused, or the def compiles AND a call hands the base client the operation text and every
    caller's value under its GraphQL name AND returns the parsed data"""
    if "raised" in obs:
        return None
    oc = obs.get("outcome", {})
    if oc.get("err") == "SyntaxError":
        return "broken-output", f"the emitted method does not compile ({oc.get('msg')}): {obs.get('src', '').splitlines()[0][:200]}"
    want_vars = {"dict": [[v[0], {"ser": {"arg": i}} if len(v) > 2 and v[2] else {"arg": i}] for i, v in enumerate(case["vars"])]}
    sent = obs.get("sent")
    if sent is not None and (sent["variables"] != want_vars or sent["query"] != "text"):
        return "caller-value-lost", f"sent query={json.dumps(sent['query'])} variables={json.dumps(sent['variables'])}, wanted the operation text and {json.dumps(want_vars)}"
    if "err" in oc:
        return "method-unusable", f"calling the method raises {oc['err']}: {oc.get('msg')}"
    if sent is None or sent.get("operation_name") != METHOD_RET:
        return "caller-value-lost", f"nothing / the wrong operation was handed to the base client: {sent}"
    if oc.get("result") != {"parsed": {"data": {"resp": ["text", want_vars]}}}:
        return "caller-value-lost", f"returned {json.dumps(oc.get('result'))[:300]}"
    return None


def _method_line(case: Dict[str, Any]) -> Dict[str, Any]:
    return {"op": "method", "snake": case["snake"], "sub": case["kind"] == "subscription", "ret": METHOD_RET, "vars": case["vars"]}


def judge_methods(ctx: Ctx, st: Optional[LeanStatus], cases: List[Dict[str, Any]], res: Result, label: str) -> None:
    tw = twin()
    chunk = 300
    chunks = [cases[i:i + chunk] for i in range(0, len(cases), chunk)]
    outs = _pmap(method_batch, [(c,) for c in chunks], 600.0)
    obs_all: List[Any] = []
    for c, (status, val) in zip(chunks, outs):
        if status != "ok":
            raise common.Infra(f"method batch did not finish: {status} {str(val)[:300]}")
        obs_all += val
    model: Optional[List[Any]] = None
    if st is not None and st.driver_ok:
        model = common.run_driver(ctx.prop, [_method_line(c) for c in cases], chunk=50000)
    bad = 0
    for i, (case, obs) in enumerate(zip(cases, obs_all)):
        names = [v[0] for v in case["vars"]]
        ser_any = any(len(v) > 2 and v[2] for v in case["vars"])
        inp = {"level": "method", "snake": case["snake"], "kind": case["kind"], "vars": case["vars"]}
        res.seen(["method", case["snake"], case["kind"], case["vars"]], nontrivial=True)
        res.count(f"methods:{label}:{case['kind']}")
        if "observer" in obs:
            if bad < 15:
                bad += 1
                res.mismatches.append(Mismatch("method", inp, f"observer: {obs['observer']}", "an emitted method"))
            continue
        ttrig = tw.method_triggers(case["snake"], METHOD_RET, names, ser_any)
        tscope = (all(tw.scope_single_trigger("variable", case["snake"], n) is None for n in names)
                  and all(tw.scope_pair_trigger("variable", case["snake"], a, b) is None for a, b in itertools.combinations(names, 2)))
        if model is not None and "raised" not in obs:
            m = model[i]
            oc = obs["outcome"]
            got = {"params": obs["params"], "kwarg": obs["kwarg"], "compiles": obs["compiles"],
                   "outcome": {"err": oc["err"]} if "err" in oc else oc, "trig": ttrig, "scope_supported": tscope}
            mo = m["outcome"]
            lq, lv, lr, ld = m["locals"]
            want = {"params": m["params"], "kwarg": "kwargs", "compiles": m["compiles"],
                    "outcome": {"err": mo["err"]} if "err" in mo else mo, "trig": m["trig"], "scope_supported": m["scope_supported"]}
            got["locals"] = obs["locals"]
            want["locals"] = {"q": lq, "v": lv, "d": ld} if case["kind"] == "subscription" else {"q": lq, "v": lv, "r": lr, "d": ld}
            if got != want and bad < 15:
                bad += 1
                diff = [k for k in got if got[k] != want[k]]
                res.mismatches.append(Mismatch("method:" + ",".join(diff), inp, {k: got[k] for k in diff}, {k: want[k] for k in diff}))
        elif model is not None and "raised" in obs and bad < 15:
            bad += 1
            res.mismatches.append(Mismatch("method:refusal", inp, obs, "the model has no refusal in add_method"))
        v = method_verdict(case, obs)
        supported = tscope and not any(ttrig)
        if v is None:
            res.count("method-oracle:lawful")
            if not supported and "raised" not in obs and bad < 15:
                bad += 1
                res.mismatches.append(Mismatch("method-trigger-too-wide", inp, "the real method is lawful",
                                               {"trig": ttrig, "scope_supported": tscope}))
        else:
            sig, detail = v
            region = tw.method_region(case["snake"], METHOD_RET, names, sig, ser_any)
            res.count(f"inside:{region}" if region else "method-oracle:unknown-failure")
            _fail(res, sig, region, inp, f"method for {case['kind']} operation with variables {case['vars']} (snake={case['snake']}): {detail}")
    if cases and label in ("exhaustive", "search"):
        res.sample({"method_case": cases[min(len(cases) - 1, 7)], "impl": {k: v for k, v in obs_all[min(len(cases) - 1, 7)].items() if k != "src"}})


# --------------------------------------------------------------------------------------------
# K: the scope of a result class fed by several selection sources
# --------------------------------------------------------------------------------------------

CLASS_SCHEMA = """
interface Node { id: ID! name: String avatar(size: Int): String }
type User implements Node { id: ID! name: String avatar(size: Int): String email: String nick: String }
type Bot implements Node { id: ID! name: String avatar(size: Int): String vendor: String }
union Actor = User | Bot
type Query { user: User node: Node actor: Actor }
"""
CLASS_ENV = {"objects": [["User", ["Node"]], ["Bot", ["Node"]], ["Query", []]],
             "abstracts": [["Node", ["User", "Bot"]], ["Actor", ["User", "Bot"]]], "unions": ["Actor"]}
# response key -> (schema field, arguments); ONE binding per key, so every document is valid (fields in a set can merge)
CLASS_KEYS: Dict[str, Tuple[str, str]] = {
    "id": ("id", ""), "name": ("name", ""), "email": ("email", ""), "nick": ("nick", ""), "avatar": ("avatar", ""),
    "small": ("avatar", "(size: 32)"), "large": ("avatar", "(size: 256)"), "tiny": ("avatar", "(size: 8)"),
    "userName": ("name", ""), "user_name": ("nick", ""), "fooBar": ("email", ""), "foo_bar": ("nick", ""),
    "FooBar": ("name", ""), "_x": ("email", ""), "x": ("nick", ""), "copy": ("name", ""), "copy_": ("email", ""),
    "label": ("name", ""), "title": ("name", ""), "mail": ("email", ""), "mail2": ("email", ""),
}
NODE_FIELDS = {"id", "name", "avatar"}
CLASS_PLAIN = ["id", "name", "email", "nick", "avatar", "small", "large", "tiny", "label", "title", "mail", "mail2"]
CLASS_RISKY = ["userName", "user_name", "fooBar", "foo_bar", "FooBar", "_x", "x", "copy", "copy_"]


def _keys_for(vctx: str, risky: bool) -> List[str]:
    ks = CLASS_PLAIN + (CLASS_RISKY if risky else [])
    return [k for k in ks if vctx == "User" or CLASS_KEYS[k][0] in NODE_FIELDS]


def gen_sels(rng: Any, vctx: str, root: str, depth: int, risky: bool, counter: List[int]) -> List[Any]:
    """a selection list that is valid GraphQL inside a selection on `vctx` and stays inside the region
    where `_resolve_selection_set`'s type tests agree with GraphQL for runtime type User (resolution root `root`)"""
    out: List[Any] = []
    for _ in range(rng.randint(1, 4 if depth else 3)):
        r = rng.random()
        if depth == 0 or r < 0.55:
            k = rng.choice(_keys_for(vctx, risky))
            f = CLASS_KEYS[k][0]
            out.append({"f": [None if k == f and not CLASS_KEYS[k][1] else k, f]})
        elif r < 0.78:
            cond = rng.choice(["User", "Node"]) if root == "User" else "Node"
            out.append({"i": [cond, gen_sels(rng, cond, cond, depth - 1, risky, counter)]})
        else:
            cond = rng.choice(["User", "User", "Node"]) if root == "User" else "Node"
            counter[0] += 1
            out.append({"s": [f"frag{counter[0]}", cond, gen_sels(rng, cond, root, depth - 1, risky, counter)]})
    return out


def seeded_shapes() -> List[List[Any]]:
    """the same schema field under two response keys, the second one behind a fragment boundary"""
    f = lambda k: {"f": [None if k == CLASS_KEYS[k][0] and not CLASS_KEYS[k][1] else k, CLASS_KEYS[k][0]]}  # noqa: E731
    return [
        [f("small"), {"i": ["User", [f("large")]]}],
        [f("small"), {"i": ["Node", [f("large"), f("tiny")]]}],
        [f("name"), {"s": ["fragA", "Node", [f("label"), f("title")]]}],
        [f("mail"), {"s": ["fragB", "User", [{"i": ["User", [f("mail2"), f("email")]]}]]}],
        [f("avatar"), {"s": ["fragC", "User", [f("small")]]}, {"i": ["User", [f("large"), f("avatar")]]}],
        [{"i": ["User", [f("label")]]}, {"i": ["Node", [f("title"), f("name")]]}, f("copy")],
        [f("fooBar"), {"i": ["User", [f("foo_bar")]]}],
        [f("id"), {"s": ["fragD", "Node", [f("id"), {"i": ["User", [f("mail"), f("mail2")]]}]]}],
    ]


def render_sels(sels: List[Any], frags: Dict[str, str]) -> str:
    parts = []
    for s in sels:
        if "f" in s:
            alias, name = s["f"]
            key = alias or name
            parts.append((f"{key}: " if alias else "") + name + CLASS_KEYS[key][1])
        elif "i" in s:
            parts.append(f"... on {s['i'][0]} {{ {render_sels(s['i'][1], frags)} }}")
        else:
            fr, cond, sub = s["s"]
            frags[fr] = f"fragment {fr} on {cond} {{ {render_sels(sub, frags)} }}"
            parts.append(f"...{fr}")
    return " ".join(parts)


def class_doc(sels: List[Any]) -> str:
    frags: Dict[str, str] = {}
    q = f"query Q {{ user {{ {render_sels(sels, frags)} }} }}"
    return q + "".join("\n" + frags[k] for k in sorted(frags))


def collected_keys(sels: List[Any]) -> List[str]:
    """GraphQL CollectFields for an object of runtime type User (every type condition used here applies to it)"""
    out: List[str] = []
    for s in sels:
        if "f" in s:
            out.append(s["f"][0] or s["f"][1])
        elif "i" in s:
            out += collected_keys(s["i"][1])
        else:
            out += collected_keys(s["s"][2])
    return out


def observe_class(snake: bool, sels: List[Any]) -> Dict[str, Any]:
    """CHILD: the class the real ResultTypesGenerator emits for the `user` position"""
    try:
        from graphql import build_ast_schema, parse

        from ariadne_codegen.client_generators.result_types import ResultTypesGenerator

        schema = build_ast_schema(parse(CLASS_SCHEMA))
        doc = parse(class_doc(sels))
        op = doc.definitions[0]
        frags = {d.name.value: d for d in doc.definitions[1:]}
        try:
            g = ResultTypesGenerator(schema=schema, operation_definition=op, enums_module_name="enums",
                                     fragments_definitions=frags, convert_to_snake_case=snake)
            classes = g.get_classes()
        except (AttributeError, ImportError, TypeError):
            raise
        except Exception as e:  # noqa: BLE001
            return {"raised": type(e).__name__, "msg": str(e)[:200]}
        cls = [c for c in classes if c.name == "QUser"][0]
        rows = [[py, al, al if al is not None else py] for py, al in _field_rows(cls)]
        bases = sorted(b for b in (ast.unparse(x) for x in cls.bases) if b != "BaseModel")
        return {"rows": rows, "bases": bases}
    except (AttributeError, ImportError, TypeError, IndexError, KeyError) as e:
        return {"observer": f"{type(e).__name__}: {e}"[:300]}


def class_batch(cases: List[Tuple[bool, List[Any]]]) -> List[Dict[str, Any]]:
    return [observe_class(sn, sels) for sn, sels in cases]


@engine.with_scratch
def class_package_case(root: Any, snake: bool, sels: List[Any]) -> Dict[str, Any]:
    """CHILD: whole package; the model of the `user` position must keep a distinct value under every
    response key GraphQL collects for a User"""
    import warnings as _w

    keys: List[str] = []
    for k in collected_keys(sels):
        if k not in keys:
            keys.append(k)
    try:
        gen = engine.generate_client(root, CLASS_SCHEMA, class_doc(sels), {"convert_to_snake_case": snake})
    except BaseException as e:  # noqa: BLE001 - "generation fails with an error"
        return {"verdict": "generation-error", "cls": type(e).__name__, "msg": str(e)[:200]}
    try:
        with _w.catch_warnings():
            _w.simplefilter("ignore")
            pkg = engine.import_package(gen)
            model = pkg.QUser
    except BaseException as e:  # noqa: BLE001
        return {"verdict": "broken-output", "cls": type(e).__name__, "msg": str(e)[:200]}
    try:
        wires = {(f.alias or k): k for k, f in model.model_fields.items()}
        missing = [k for k in keys if k not in wires]
        if missing:
            return {"verdict": "response-key-lost", "missing": missing,
                    "msg": f"QUser.model_fields = {sorted(model.model_fields)} (aliases {sorted(wires)}); no attribute for the selected response key(s) {missing}"}
        resp = {k: f"v{i}" for i, k in enumerate(keys)}
        m = model.model_validate(resp)
        back = m.model_dump(by_alias=True, exclude_unset=True)
        vals = {k: getattr(m, wires[k]) for k in keys}
        if back != resp or vals != resp:
            lost = [k for k in keys if vals.get(k) != resp[k] or back.get(k) != resp[k]]
            return {"verdict": "response-key-lost", "missing": lost, "msg": f"validate/dump of {resp} gives {back}; attributes {vals}"}
    except BaseException as e:  # noqa: BLE001
        return {"verdict": "unusable", "cls": type(e).__name__, "msg": str(e)[:300]}
    return {"verdict": "ok", "keys": keys}


def _class_line(snake: bool, sels: List[Any]) -> Dict[str, Any]:
    return {"op": "class", "snake": snake, "root": "User", "T": "User", "addT": False, "env": CLASS_ENV, "sels": sels}


def class_cases(rng: Any, count: int) -> List[Tuple[bool, List[Any]]]:
    out: List[Tuple[bool, List[Any]]] = [(sn, sh) for sh in seeded_shapes() for sn in (True, False)]
    while len(out) < count:
        counter = [0]
        risky = rng.random() < 0.25
        out.append((rng.random() < 0.5, gen_sels(rng, "User", "User", rng.choice([1, 2, 2, 3]), risky, counter)))
    return out


def _class_region(tw: Twin, snake: bool, keys: List[str], missing: Sequence[str]) -> Optional[str]:
    """the merge / single-name region a lost response key lies in (None: it was lost for another reason)"""
    for k in missing:
        t1 = tw.scope_single_trigger("resultField", snake, k)
        if t1:
            return t1
        for o in keys:
            if o != k:
                t2 = tw.scope_pair_trigger("resultField", snake, k, o)
                if t2:
                    return t2
    return None


def judge_classes(ctx: Ctx, st: Optional[LeanStatus], cases: List[Tuple[bool, List[Any]]], res: Result, label: str) -> None:
    """correspondence: rows / bases of the real class vs the model; what the class and the fragments it
    inherits from carry vs GraphQL's collected keys (python-side CollectFields vs the model's)"""
    chunk = 40
    chunks = [cases[i:i + chunk] for i in range(0, len(cases), chunk)]
    outs = _pmap(class_batch, [(c,) for c in chunks], 600.0)
    obs_all: List[Any] = []
    for c, (status, val) in zip(chunks, outs):
        if status != "ok":
            raise common.Infra(f"class batch did not finish: {status} {str(val)[:300]}")
        obs_all += val
    model: Optional[List[Any]] = None
    if st is not None and st.driver_ok:
        model = common.run_driver(ctx.prop, [_class_line(sn, sels) for sn, sels in cases])
    bad = 0
    for i, ((snake, sels), obs) in enumerate(zip(cases, obs_all)):
        inp = {"level": "class", "snake": snake, "sels": sels}
        res.seen(["class", snake, sels], nontrivial=True)
        res.count(f"classes:{label}")
        if "observer" in obs or "raised" in obs:
            if bad < 10:
                bad += 1
                res.mismatches.append(Mismatch("class", inp, json.dumps(obs)[:300], "a class for the user position"))
            continue
        if len(obs["bases"]):
            res.count("classes:with-base-fragments")
        if model is None:
            continue
        m = model[i]
        if not m["noDrop"] and bad < 10:
            bad += 1
            res.mismatches.append(Mismatch("class-generator-left-the-noDrop-region", inp, class_doc(sels), m))
        mc = m["class"]
        # rows as a SET: order and repeated identical declarations of one response key do not matter to C18
        uniq = lambda rows: sorted({json.dumps(r) for r in (rows or [])})  # noqa: E731
        want = {"rows": uniq(mc.get("rows")), "bases": sorted(mc.get("bases", [])), "collect": m["collect"], "effective": m["effective"]}
        got = {"rows": uniq(obs["rows"]), "bases": obs["bases"], "collect": collected_keys(sels), "effective": collected_keys(sels)}
        if got != want and bad < 10:
            bad += 1
            diff = [k for k in got if got[k] != want[k]]
            res.mismatches.append(Mismatch("class:" + ",".join(diff), inp, {k: got[k] for k in diff}, {k: want[k] for k in diff}))
    if cases:
        res.sample({"class_doc": class_doc(cases[0][1]), "impl": obs_all[0]})


def judge_class_packages(ctx: Ctx, cases: List[Tuple[bool, List[Any]]], res: Result, label: str) -> None:
    tw = twin()
    outs = _pmap(class_package_case, list(cases), 240.0)
    for (snake, sels), (status, val) in zip(cases, outs):
        inp = {"level": "class", "snake": snake, "sels": sels}
        res.seen(["class-package", snake, sels], nontrivial=True)
        if status != "ok":
            raise common.Infra(f"class package case {inp} did not finish: {status} {str(val)[:300]}")
        v = val["verdict"]
        res.count(f"class-package:{label}:{v}")
        if v in ("ok", "generation-error"):
            continue
        keys = list(dict.fromkeys(collected_keys(sels)))
        if v == "response-key-lost":
            region = _class_region(tw, snake, keys, val.get("missing", []))
            sig = "silently-merged" if region else "response-key-lost"
        else:
            region = _class_region(tw, snake, keys, keys)
            sig = "broken-output" if v == "broken-output" else "silently-merged"
        if region:
            res.count(f"inside:{region}")
        _fail(res, sig, region, inp, f"{class_doc(sels)!r} snake={snake}: {v}: {val.get('cls', '')} {val.get('msg', '')}")


# --------------------------------------------------------------------------------------------
# S: process_name is history-free - RUNS of calls with different flags in ONE fresh interpreter
# --------------------------------------------------------------------------------------------

_FRESH_SCRIPT = r"""
import json, sys
sys.path.insert(0, sys.argv[1])
from ariadne_codegen.utils import process_name
calls = json.load(sys.stdin)
out = []
for k, n in calls:
    try:
        out.append(process_name(n, convert_to_snake_case=bool(k & 4), trim_leading_underscore=bool(k & 2),
                                handle_pydantic_resrved_field_names=bool(k & 1)))
    except Exception as e:
        out.append({"raised": type(e).__name__})
json.dump(out, sys.stdout)
"""


def fresh_run(calls: List[List[Any]]) -> List[Any]:
    """the calls [[flag combination k, name], ...] made in order by ONE new interpreter that has done
    nothing else with /repo (not a fork of this process: nothing any earlier call left behind is inherited)"""
    import subprocess
    import sys as _sys

    p = subprocess.run([_sys.executable, "-c", _FRESH_SCRIPT, str(common.REPO)], input=json.dumps(calls), capture_output=True,
                       text=True, timeout=600, cwd="/")
    if p.returncode != 0:
        if any(x in p.stderr for x in ("AttributeError", "ImportError", "TypeError")):
            return [{"observer": p.stderr.strip().splitlines()[-1][:200]}] * len(calls)
        raise common.Infra(f"fresh interpreter failed: {p.stderr[-400:]}")
    return json.loads(p.stdout)


def fresh_runs(many: List[List[List[Any]]]) -> List[List[Any]]:
    from concurrent.futures import ThreadPoolExecutor
    import os as _os

    with ThreadPoolExecutor(max_workers=max(1, min(6, int(_os.environ.get("VERIF_PROCS", "14"))))) as ex:
        return list(ex.map(fresh_run, many))


def sequence_names(rng: Any, specials: Sequence[str], count: int) -> List[str]:
    fixed = ["json", "copy", "schema", "class", "_class", "_copy", "__rank", "_x", "__x", "x", "fooBar", "foo_bar", "_", "__", "_1",
             "model_dump", "modelDump", "query", "_query", "self", "None", "_None", "id", "Id", "ID"]
    base = [n for n in words_upto(ALPHABET, 3) if GNAME_RE.match(n)]
    sp = [n for n in specials if GNAME_RE.match(n)]
    picked = rng.sample(sp, min(len(sp), count)) + rng.sample(base, min(len(base), count))
    out: List[str] = []
    for n in fixed + picked:
        if n not in out:
            out.append(n)
    return out


def _history_failure(res: Result, k: int, n: str, got: Any, alone: Any, prefix: List[List[Any]]) -> None:
    """report the shortest run found on which the call answers differently than alone"""
    same = [c for c in prefix if c[1] == n]
    cands = [[c, [k, n]] for c in same[:3]] + ([same + [[k, n]]] if len(same) > 1 else [])
    for cand in cands:
        if fresh_run(cand)[-1] != alone:
            run_ = cand
            break
    else:
        run_ = (prefix + [[k, n]])[-400:]
    cfg = CFGS[k]
    _fail(res, "history-dependent", None, {"level": "calls", "calls": run_},
          f"process_name({n!r}, snake={cfg[0]}, trim={cfg[1]}, reserved={cfg[2]}) returns {got!r} after {len(run_) - 1} earlier call(s) "
          f"{run_[:-1][:4]} in the same process, but {alone!r} when it is the only call")


def judge_sequences(ctx: Ctx, st: Optional[LeanStatus], res: Result, names: List[str], runs: int, label: str) -> None:
    """reference: eight fresh interpreters, each making every call under ONE flag combination (so no call is preceded by a
    call with other flags); runs: fresh interpreters making all (flags, name) calls interleaved in a seeded random order.
    Oracle (no Lean): every answer inside a run equals the reference answer.  Correspondence: runs vs the driver's `calls`."""
    rng = ctx.sub_rng("sequences:" + label)
    ref_calls = [[[k, n] for n in names] for k in range(8)]
    seqs: List[List[List[Any]]] = []
    for r in range(runs):
        calls = [[k, n] for n in names for k in range(8)]
        if r == 0:
            pass  # per name: the flag combinations in index order
        elif r == 1:
            calls = [[k, n] for n in names for k in reversed(range(8))]
        else:
            rng.shuffle(calls)
        seqs.append(calls)
    outs = fresh_runs(ref_calls + seqs)
    ref = {(k, n): o for k in range(8) for n, o in zip(names, outs[k])}
    model: Optional[List[Any]] = None
    if st is not None and st.driver_ok:
        model = common.run_driver(ctx.prop, [{"op": "calls", "calls": c} for c in seqs])
    bad = 0
    reported = 0
    for si, (calls, out) in enumerate(zip(seqs, outs[8:])):
        res.count(f"runs:{label}")
        for i, ((k, n), o) in enumerate(zip(calls, out)):
            res.seen(["call-in-run", si, i, k, n], nontrivial=i > 0)
            if isinstance(o, dict) and "observer" in o:
                if bad < 5:
                    bad += 1
                    res.mismatches.append(Mismatch("calls", {"level": "calls", "calls": calls[: i + 1][-5:]}, f"observer: {o['observer']}", "a name"))
                break
            if model is not None and o != model[si][i] and bad < 10:
                bad += 1
                res.mismatches.append(Mismatch("calls", {"level": "calls", "calls": [c for c in calls[:i] if c[1] == n] + [[k, n]]}, o, model[si][i]))
            if o != ref[(k, n)] and reported < 6:
                reported += 1
                _history_failure(res, k, n, o, ref[(k, n)], calls[:i])
    res.extra["run_names"] = len(names)
    res.extra["run_length"] = len(names) * 8


# --------------------------------------------------------------------------------------------
# findings: witnesses replayed on the real code in every run
# --------------------------------------------------------------------------------------------


def replay_witness(ctx: Ctx, w: Dict[str, Any]) -> Tuple[bool, str]:
    """True when the witness still fails on the real code."""
    level = w.get("level")
    u = utils_mod()
    if level == "name":
        cfg = CFGS[w["cfg"]]
        out = real_process(u, w["n"], cfg)
        if w.get("law") == "idempotent":
            again = real_process(u, out, cfg)
            return again != out, f"{w['n']!r} -> {out!r} -> {again!r}"
        return out_ok(out, cfg[2]) is not None, f"{w['n']!r} -> {out!r}"
    if level == "pascal":
        pa = _safe(u.str_to_pascal_case, w["n"])
        return out_ok(pa, False) is not None, f"{w['n']!r} -> {pa!r}"
    if level == "pair":
        cfg = CFGS[w["cfg"]]
        oa, ob = real_process(u, w["a"], cfg), real_process(u, w["b"], cfg)
        return oa == ob, f"{w['a']!r} -> {oa!r}, {w['b']!r} -> {ob!r}"
    if level == "package":
        status, val = engine.forked(package_case, w["scope"], w["snake"], w["a"], w["b"], timeout=240.0)
        if status != "ok":
            raise common.Infra(f"witness {w} did not finish: {status}")
        return val["verdict"] not in ("ok", "generation-error"), f"{val['verdict']}: {val.get('cls', '')} {val.get('msg', '')}"[:300]
    if level == "method":
        case = {"snake": w["snake"], "kind": w["kind"], "vars": w["vars"]}
        status, val = engine.forked(observe_method, case, timeout=120.0)
        if status != "ok":
            raise common.Infra(f"witness {w} did not finish: {status} {str(val)[:200]}")
        if "observer" in val:
            return True, f"observer: {val['observer']}"
        v = method_verdict(case, val)
        return v is not None, (f"{v[0]}: {v[1]}" if v else "lawful")[:300]
    if level == "calls":
        got = fresh_run(w["calls"])
        alone = [fresh_run([c])[0] for c in w["calls"]]
        return got != alone, f"in one run: {got[-4:]}, each call alone: {alone[-4:]}"
    if level == "class":
        status, val = engine.forked(class_package_case, w["snake"], w["sels"], timeout=240.0)
        if status != "ok":
            raise common.Infra(f"witness {w} did not finish: {status} {str(val)[:200]}")
        return val["verdict"] not in ("ok", "generation-error"), f"{val['verdict']}: {val.get('cls', '')} {val.get('msg', '')}"[:300]
    raise common.Infra(f"unknown witness level {level}")


def replay_findings(ctx: Ctx, res: Result) -> None:
    tw = twin()
    for f in common.load_findings(ctx.prop):
        ws = f.get("witness")
        ws = ws if isinstance(ws, list) else [ws]
        still = []
        for w in ws:
            fails, detail = replay_witness(ctx, w)
            still.append(fails)
            res.count(f"witness:{f['id']}:{'fails' if fails else 'passes'}")
            if fails and f.get("status") == "fixed":
                res.failures.append(Failure("fixed-finding-returned", None, w, f"{f['id']}: {detail}"))
            elif fails and w.get("level") in ("package", "class"):
                sig = "broken-output" if detail.startswith("broken-output") else "silently-merged"
                res.failures.append(Failure(sig, f.get("trigger"), w, f"{f['id']}: {detail}"))
            elif fails and w.get("level") == "method":
                sig = detail.split(":", 1)[0]
                res.failures.append(Failure(sig if sig in METHOD_SIGS else "method-unusable", f.get("trigger"), w, f"{f['id']}: {detail}"))
        res.witness_status[f["id"]] = "reproduces" if any(still) else "gone"
    # minimised past failures / extra corpus files
    cdir = common.CORPUS / ctx.prop
    if cdir.exists():
        for p in sorted(cdir.glob("*.json")):
            payload = json.loads(p.read_text())
            for w in payload.get("cases", []):
                fails, detail = replay_witness(ctx, w)
                res.count(f"corpus:{p.stem}:{'fails' if fails else 'passes'}")
                want = w.get("expect", "fails")
                if (want == "passes") and fails:
                    res.failures.append(Failure("corpus-case-fails", None, w, f"{p.name}: {detail}"))


# --------------------------------------------------------------------------------------------
# entry points
# --------------------------------------------------------------------------------------------


def budget3(ctx: Ctx, quick: int, boosted: int, thorough: int) -> int:
    """quick tier / quick tier after a changed fingerprint or a broken tie / thorough tier"""
    if ctx.tier == "thorough":
        return thorough
    return boosted if ctx.boost else quick


def name_space(ctx: Ctx, res: Result) -> Tuple[List[str], int]:
    bound = 7 if ctx.tier == "thorough" else 6
    exhaustive = list(words_upto(ALPHABET, bound))  # every word string, GraphQL names and the rest (digit-led, empty)
    res.extra["exhaustive_alphabet"] = ALPHABET
    res.extra["exhaustive_length_bound"] = bound
    res.extra["exhaustive_words"] = len(exhaustive)
    res.extra["exhaustive_gnames"] = sum(1 for n in exhaustive if GNAME_RE.match(n))
    return exhaustive, bound


def run(ctx: Ctx, st: Optional[LeanStatus]) -> Result:
    res = Result()
    res.extra["fingerprints"] = common.fingerprints(ctx, fingerprint_items())
    exhaustive, bound = name_space(ctx, res)
    res.exhaustive = True
    res.rule = (
        "L1: every string over {a,b,A,B,1,_} up to length %d (exhaustive; GraphQL names judged by the laws, all word strings "
        "compared with the model), every keyword/soft keyword/pydantic attribute with affixes, seeded random long names; "
        "pairs = all groups of names with equal real output (sampled inside large groups) + random pairs. "
        "L2: batches of names through the real generators of the five scopes. L3: whole packages for pairs per scope. "
        "S: runs of process_name calls (all 8 flag combinations x a few hundred names, interleaved in index / reversed / seeded random order) in "
        "fresh interpreters vs the same calls made with one flag combination per interpreter (a call counts as non-trivial when it is not the first of its run). "
        "M: every variable list of length <= 2 over the method pool (see method_pool) x defaults x snake x kind, emitted by the real "
        "ArgumentsGenerator/ClientGenerator.add_method, compiled and called; random lists of length 3-4. "
        "K: generated selection trees (fields, aliases of one schema field, inline fragments, unpacked / base-class spreads) through the "
        "real ResultTypesGenerator + whole packages for a sample. "
        "Every case is non-trivial except random pairs whose outputs differ; distinct = distinct (level, input)" % bound
    )
    replay_findings(ctx, res)
    ctx.log("finding witnesses replayed")
    snames = sequence_names(ctx.sub_rng("sequence-names"), special_names(), budget3(ctx, 150, 400, 1200))
    judge_sequences(ctx, st, res, snames, budget3(ctx, 4, 8, 16), "runs")
    ctx.log(f"S runs done ({len(snames)} names x 8 flag combinations per run)")
    groups: List[Dict[str, List[str]]] = [dict() for _ in CFGS]
    judge_names(ctx, st, exhaustive, res, "exhaustive", groups)
    ctx.log(f"L1 exhaustive: {len(exhaustive)} names")
    specials = special_names()
    judge_names(ctx, st, specials, res, "keywords-and-reserved", groups)
    rnd = random_names(ctx.sub_rng("names"), budget3(ctx, 20000, 60000, 200000))
    judge_names(ctx, st, rnd, res, "random-long", groups)
    judge_hooks(ctx, st, list(words_upto(ALPHABET, 3)) + specials[:: max(1, len(specials) // 300)], res)
    ctx.log(f"L1 specials {len(specials)}, random {len(rnd)}, hooks done")
    pool = [n for n in exhaustive if len(n) <= 5] + specials + rnd[:3000]
    judge_groups(ctx, st, groups, res, ctx.sub_rng("pairs"), per_group=budget3(ctx, 3, 5, 12),
                 non_colliding=budget3(ctx, 20000, 40000, 200000), all_names=pool)
    ctx.log("L1 pairs done")
    judge_scopes(ctx, st, scope_batches(ctx.sub_rng("scopes"), pool, batch=budget3(ctx, 60, 100, 120), count=budget3(ctx, 60, 200, 400)), res)
    ctx.log("L2 scopes done")
    verdicts = judge_packages(ctx, random_package_cases(ctx.sub_rng("packages"), pool, budget3(ctx, 40, 120, 400)), res, "random")
    res.extra["package_samples"] = verdicts[:6]
    ctx.log("L3 packages done")
    full_pool = ctx.tier == "thorough"
    mcases = method_cases(ctx.sub_rng("methods"), full_pool, budget3(ctx, 500, 3000, 4000))
    res.extra["method_pool"] = method_pool(full_pool)
    res.extra["method_lists_exhaustive"] = "every ordered list of 0, 1 and 2 distinct pool names x default patterns x snake on/off x sync/async/subscription"
    judge_methods(ctx, st, mcases, res, "exhaustive")
    ctx.log(f"M methods done ({len(mcases)} emitted, compiled and called)")
    ccases = class_cases(ctx.sub_rng("classes"), budget3(ctx, 400, 1200, 2500))
    judge_classes(ctx, st, ccases, res, "generated")
    pk = budget3(ctx, 40, 120, 200)
    judge_class_packages(ctx, ccases[:16] + ccases[16:][:: max(1, (len(ccases) - 16) // max(1, pk - 16))][: pk - 16], res, "generated")
    ctx.log(f"K classes done ({len(ccases)} selection trees)")
    res.extra.pop("_failure_keys", None)
    res.oracle_only += [
        "re.findall semantics: the tokenizer is tied to the real regex by exhaustive comparison, not derived from a regex semantics in Lean",
        "pydantic's treatment of duplicate annotations / Enum's duplicate-member check are observed through real packages (L3, K), not modelled",
        "CPython's duplicate-parameter check and name binding (parameters, rebinding by assignment, shadowing of module globals) are an explicit environment semantics in the method model, validated by compiling and calling every emitted method (M), not derived from a CPython semantics",
        "GraphQL's CollectFields (directives aside) in the class model is validated against a python-side reading of the generated documents and by whole packages (K); which classes an abstract position gets is C01's model",
        "names that are not word strings (Unicode) are outside the domain: GraphQL names are ASCII",
    ]
    res.assumptions += [
        "keyword.kwlist and dir(pydantic.BaseModel) of the interpreter running the generator (regenerated into Tables.lean on every run)",
        "the plugin hook is the identity unless a plugin overrides process_name (hook position checked with test plugins)",
        "method scope: variables are Int / Int! or one custom scalar DT with a serialize function (what serialize does to an omitted / None argument is C03's business); the caller passes non-callable values positionally",
    ]
    return res


def search(ctx: Ctx) -> Result:
    """after a broken proof / correspondence: judge the real code only, with the thorough budget"""
    res = Result()
    judge_sequences(ctx, None, res, sequence_names(ctx.sub_rng("search-sequence-names"), special_names(), 600), 8, "search")
    groups: List[Dict[str, List[str]]] = [dict() for _ in CFGS]
    exhaustive = list(words_upto(ALPHABET, 6))
    judge_names(ctx, None, exhaustive, res, "search-exhaustive", groups)
    specials = special_names()
    judge_names(ctx, None, specials, res, "search-specials", groups)
    rnd = random_names(ctx.sub_rng("search-names"), 60000)
    judge_names(ctx, None, rnd, res, "search-random", groups)
    pool = [n for n in exhaustive if len(n) <= 5] + specials + rnd[:3000]
    judge_groups(ctx, None, groups, res, ctx.sub_rng("search-pairs"), per_group=6, non_colliding=1000, all_names=pool)
    judge_scopes(ctx, None, scope_batches(ctx.sub_rng("search-scopes"), pool, batch=120, count=300), res)
    judge_packages(ctx, random_package_cases(ctx.sub_rng("search-packages"), pool, 150), res, "search")
    judge_methods(ctx, None, method_cases(ctx.sub_rng("search-methods"), True, 6000), res, "search")
    ccases = class_cases(ctx.sub_rng("search-classes"), 200)
    judge_class_packages(ctx, ccases, res, "search")
    res.extra.pop("_failure_keys", None)
    return res


def replay(ctx: Ctx, payload: Dict[str, Any]) -> int:
    inp = payload.get("input")
    if not inp:
        print(json.dumps(payload, indent=1)[:3000])
        return 1
    res = Result()
    level = inp.get("level")
    if level in ("name", "pascal"):
        judge_names(ctx, None, [inp["n"]], res, "replay")
    elif level == "pair":
        g: List[Dict[str, List[str]]] = [dict() for _ in CFGS]
        judge_names(ctx, None, [inp["a"], inp["b"]], res, "replay", g)
        judge_groups(ctx, None, g, res, ctx.sub_rng("replay"), per_group=10, non_colliding=0, all_names=[inp["a"], inp["b"]])
    elif level == "scope":
        judge_scopes(ctx, None, [(inp["scope"], inp["snake"], inp["names"])], res)
    elif level == "package":
        judge_packages(ctx, [(inp["scope"], inp["snake"], inp["a"], inp["b"])], res, "replay")
    elif level == "calls":
        fails, detail = replay_witness(ctx, inp)
        print(("history-dependent: " if fails else "history-free: ") + detail)
        return 1 if fails else 0
    elif level == "method":
        judge_methods(ctx, None, [{"level": "method", "snake": inp["snake"], "kind": inp["kind"], "vars": inp["vars"]}], res, "replay")
    elif level == "class":
        judge_class_packages(ctx, [(inp["snake"], inp["sels"])], res, "replay")
    else:
        print(json.dumps(payload, indent=1)[:3000])
        return 1
    for f in res.failures:
        print(f"{f.signature} [{f.trigger}] {f.detail}")
    for m in res.mismatches:
        print(f"mismatch {m.observation}: impl={m.impl} model={m.model}")
    return 1 if res.failures or res.mismatches else 0
