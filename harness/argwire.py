"""Shared pieces of the C03 / C07 checks (twin of lean/AriadneModel/Driver/ArgWire.lean).

  * the instrumented custom-scalar module that is copied into generated packages
    (`files_to_include`) and records every parse/serialize call,
  * the seeded generator of cases: schema (enums, recursive input types, custom scalars in seven
    configuration families) + operations whose variables exercise every wrapper shape, defaults,
    and a name pool that stresses the naming code,
  * canonicalisers: real `ast` of emitted methods / input classes / result classes -> the IR the
    Lean drivers print,
  * caller values: a JSON "value spec" from which the child builds REAL Python arguments (enum
    members, generated input-model instances, scalar objects) and the parent builds the Lean `AV`,
  * the independent statement of what the resolver must receive (`py_intended`).

Nothing here imports ariadne_codegen at module level: generator calls happen in forked children.
"""
from __future__ import annotations

import ast
import json
import random
import re
from typing import Any, Dict, List, Optional, Tuple

from . import wire

# --------------------------------------------------------------------------------------------
# instrumented user code (copied into the generated package as custom_scalars.py)
# --------------------------------------------------------------------------------------------

SCALAR_MODULE = "custom_scalars"

SCALARS_SRC = '''
"""Instrumented custom scalars of the /verif checks: every parse/serialize call is recorded."""
LOG = []


def _wire(x):
    if isinstance(x, dict):
        return {"o": [[str(k), _wire(v)] for k, v in x.items()]}
    if isinstance(x, (list, tuple)):
        return [_wire(v) for v in x]
    return x


class Scalar:
    def __init__(self, raw):
        self.raw = raw

    def __repr__(self):
        return f"{type(self).__name__}({self.raw!r})"

    def __eq__(self, other):
        return type(other) is type(self) and other.raw == self.raw

    def __hash__(self):
        return hash(type(self).__name__)


class TA(Scalar):
    pass


class TB(Scalar):
    pass


class TF(Scalar):
    pass


def _kind(v):
    if v is None:
        return "None"
    if type(v).__name__ == "UnsetType":
        return "UNSET"
    if isinstance(v, bool):
        return "bool"
    if isinstance(v, (int, float)):
        return "number"
    if isinstance(v, str):
        return "str"
    if isinstance(v, (list, tuple)):
        return "list"
    if isinstance(v, dict):
        return "dict"
    if hasattr(v, "model_dump"):
        return "model"
    if isinstance(v, Scalar):
        return "scalar"
    return "object"


def canon(v):
    """the argument of a recorded call, in the encoding of Driver/ArgWire.lean `encPV`"""
    if v is None or isinstance(v, (bool, int, float)):
        return v
    if type(v).__name__ == "UnsetType":
        return {"$unset": True}
    if isinstance(v, Scalar):
        return {"$leaf": _wire(v.raw)}
    if isinstance(v, str):
        return v
    if isinstance(v, (list, tuple)):
        return [canon(x) for x in v]
    if isinstance(v, dict):
        return {"$dict": [[k, canon(x)] for k, x in v.items()]}
    return {"$opaque": True}


def _serialize(name, v):
    LOG.append(["serialize", name, canon(v)])
    if isinstance(v, Scalar):
        return {"$ser": name, "v": v.raw}
    return {"$ser": name, "other": _kind(v)}


def _parse(name, cls, raw):
    LOG.append(["parse", name, _wire(raw)])
    return cls(raw)


def parse_a(raw):
    return _parse("parse_a", TA, raw)


def serialize_a(v):
    return _serialize("serialize_a", v)


def parse_b(raw):
    return _parse("parse_b", TB, raw)


def serialize_b(v):
    return _serialize("serialize_b", v)


def parse_e(raw):
    LOG.append(["parse", "parse_e", _wire(raw)])
    return raw if isinstance(raw, str) else json_text(raw)


def serialize_f(v):
    return _serialize("serialize_f", v)


def json_text(x):
    import json

    return json.dumps(x, sort_keys=True)


class TZ(Scalar):
    """a scalar type whose instances can be FALSY although present (like Decimal("0"), timedelta(0), an empty
    collection-like value): truthiness and length follow the raw value"""

    def __bool__(self):
        return bool(self.raw)


def parse_z(raw):
    return _parse("parse_z", TZ, raw)


def serialize_z(v):
    return _serialize("serialize_z", v)


def _canon_n(v):
    if isinstance(v, (int, float)) and not isinstance(v, bool):
        return {"$leaf": v}
    if isinstance(v, (list, tuple)):
        return [_canon_n(x) for x in v]
    return canon(v)


def serialize_n(v):
    """serialize of a scalar whose Python values are plain numbers (JSON-able as they are; 0 is a present value)"""
    LOG.append(["serialize", "serialize_n", _canon_n(v)])
    if isinstance(v, (int, float)) and not isinstance(v, bool):
        return {"$ser": "serialize_n", "v": v}
    return {"$ser": "serialize_n", "other": _kind(v)}
'''

# configuration families (DESIGN.md C07 quantifier): how a scalar is configured and which Python
# values stand at its positions.  "cls" = instances of the instrumented class; "str" / "datetime" /
# "any" = natively JSON-able values.
FAMILIES: Dict[str, Dict[str, Any]] = {
    # relative dotted paths, type + parse + serialize
    "A": {"cfg": {"type": ".custom_scalars.TA", "parse": ".custom_scalars.parse_a", "serialize": ".custom_scalars.serialize_a"},
          "py": "cls", "cls": "TA", "parse": "parse_a", "serialize": "serialize_a"},
    # deprecated `import` key with bare names
    "B": {"cfg": {"type": "TB", "parse": "parse_b", "serialize": "serialize_b", "import": ".custom_scalars"},
          "py": "cls", "cls": "TB", "parse": "parse_b", "serialize": "serialize_b"},
    # pydantic-native type only (builtin: no import at all)
    "C": {"cfg": {"type": "str"}, "py": "str", "parse": None, "serialize": None},
    # pydantic-native type only, dotted stdlib path
    "D": {"cfg": {"type": "datetime.datetime"}, "py": "datetime", "parse": None, "serialize": None},
    # type + parse only
    "E": {"cfg": {"type": "str", "parse": ".custom_scalars.parse_e"}, "py": "str", "parse": "parse_e", "serialize": None},
    # type + serialize only, absolute dotted path
    # (a class type without `parse` cannot receive response values: such scalars are not selected in results)
    "F": {"cfg": {"type": "gen_pkg.custom_scalars.TF", "serialize": "gen_pkg.custom_scalars.serialize_f"},
          "py": "cls", "cls": "TF", "parse": None, "serialize": "serialize_f", "results": False},
    # not configured at all -> Any
    "G": {"cfg": None, "py": "any", "parse": None, "serialize": None},
}

# families that are only used when a caller of gen_case names them in `families=` (the default draw is over FAMILIES)
EXTRA_FAMILIES: Dict[str, Dict[str, Any]] = {
    # type + parse + serialize like A, but the Python values are falsy whenever the raw value is ("", 0, [], {}):
    # a present value that `if value:` would take for absent
    "H": {"cfg": {"type": ".custom_scalars.TZ", "parse": ".custom_scalars.parse_z", "serialize": ".custom_scalars.serialize_z"},
          "py": "cls", "cls": "TZ", "parse": "parse_z", "serialize": "serialize_z",
          "raws": ["", 0, [], {}, "r1", 7, 0.0, False, ["l", 1], {"a": 1}]},
    # serialize only (absolute dotted path), falsy values
    "I": {"cfg": {"type": "gen_pkg.custom_scalars.TZ", "serialize": "gen_pkg.custom_scalars.serialize_z"},
          "py": "cls", "cls": "TZ", "parse": None, "serialize": "serialize_z", "results": False,
          "raws": ["", 0, [], "r2", 5, {}]},
    # builtin type + serialize: the Python values are plain numbers, JSON-able even when serialize is skipped; 0 is falsy
    "J": {"cfg": {"type": "int", "serialize": ".custom_scalars.serialize_n"},
          "py": "int", "parse": None, "serialize": "serialize_n", "results": False, "raws": [0, 5, 0, -3, 1000]},
}

BUILTIN_SCALARS = ["String", "Int", "Float", "Boolean", "ID"]


def result_scalars(case: Dict[str, Any]) -> List[str]:
    """the custom scalars of a case whose configuration can receive response values"""
    return [s for s in case["scalars"] if family_of(case, s).get("results", True)]


def family_of(case: Dict[str, Any], scalar: str) -> Dict[str, Any]:
    """the configuration family of a scalar of a case: a key of FAMILIES or an inline family dict"""
    f = case["scalars"][scalar]
    if isinstance(f, str):
        return FAMILIES[f] if f in FAMILIES else EXTRA_FAMILIES[f]
    return f

# --------------------------------------------------------------------------------------------
# types
# --------------------------------------------------------------------------------------------


def named(n: str) -> List[Any]:
    return ["named", n]


def type_str(t: List[Any]) -> str:
    if t[0] == "named":
        return t[1]
    if t[0] == "list":
        return "[" + type_str(t[1]) + "]"
    return type_str(t[1]) + "!"


def base_of(t: List[Any]) -> str:
    while t[0] != "named":
        t = t[1]
    return t[1]


def to_gt(t: List[Any], nn: bool = False) -> List[Any]:
    """TypeRef -> normal form ["named", n, nonNull] | ["list", item, nonNull]"""
    if t[0] == "nonnull":
        return to_gt(t[1], True)
    if t[0] == "list":
        return ["list", to_gt(t[1], False), nn]
    return ["named", t[1], nn]


def gt_of_graphql(t: Any) -> List[Any]:
    from graphql import GraphQLList, GraphQLNonNull

    nn = False
    if isinstance(t, GraphQLNonNull):
        nn, t = True, t.of_type
    if isinstance(t, GraphQLList):
        return ["list", gt_of_graphql(t.of_type), nn]
    return ["named", t.name, nn]


def typeref_of_node(node: Any) -> List[Any]:
    from graphql import ListTypeNode, NonNullTypeNode

    if isinstance(node, NonNullTypeNode):
        return ["nonnull", typeref_of_node(node.type)]
    if isinstance(node, ListTypeNode):
        return ["list", typeref_of_node(node.type)]
    return ["named", node.name.value]


def is_list_type(t: List[Any]) -> bool:
    return t[0] == "list" or (t[0] == "nonnull" and is_list_type(t[1]))


# --------------------------------------------------------------------------------------------
# case generator
# --------------------------------------------------------------------------------------------

VAR_NAMES_PLAIN = ["id", "first", "after", "filter", "role", "ids", "q", "userId", "limit", "input", "name", "x1", "createdAt",
                   "HTTPCode", "page_size", "orderBy", "tags"]
# keywords, soft keywords, pydantic names, the method's own locals, module-level names of client.py
VAR_NAMES_HARMLESS = ["class", "from", "None", "import", "lambda", "type", "match", "copy", "json", "dict", "schema",
                      "model_config", "variables", "response", "data", "_variables", "_response", "_data", "Any", "UNSET",
                      "Dict", "Optional", "List", "Union", "Client", "URLPath", "operation_name", "execute", "async", "await"]
# names inside the finding regions of C03
VAR_NAMES_TRIGGER = ["query", "_query", "self", "kwargs", "gql", "fooBar", "foo_bar", "FooBar", "_x", "x", "__x", "_", "__",
                     "urlPath", "url_path", "serialize_a", "serialize_f"]
INPUT_FIELD_NAMES = ["id", "name", "fooBar", "createdAt", "class", "copy", "json", "from", "_hidden", "count", "tags", "nested",
                     "items", "URLPath", "model_config", "schema", "None", "code", "when", "anything"]
ENUM_NAMES = ["Role", "Color"]
ENUM_VALUES = ["ADMIN", "USER", "RED", "green", "Mixed_Case", "from", "None", "V1"]
INPUT_NAMES = ["Filter", "UserInput", "Paging"]


def _wrap(rng: random.Random, base: List[Any], depth_max: int = 2) -> List[Any]:
    t = base
    if rng.random() < 0.45:
        t = ["nonnull", t]
    depth = 0
    while depth < depth_max and rng.random() < (0.4 if depth == 0 else 0.3):
        t = ["list", t]
        if rng.random() < 0.45:
            t = ["nonnull", t]
        depth += 1
    return t


def _default_for(rng: random.Random, t: List[Any], enums: Dict[str, List[str]]) -> Optional[str]:
    """a GraphQL literal usable as default for the type, or None"""
    b = base_of(t)
    nullable = t[0] != "nonnull"
    if nullable and rng.random() < 0.15:
        return "null"
    lit = None
    if b == "Int":
        lit = rng.choice(["5", "0", "-3"])
    elif b == "Float":
        lit = rng.choice(["1.5", "2"])
    elif b == "String":
        lit = rng.choice(['"d"', '""'])
    elif b == "Boolean":
        lit = rng.choice(["true", "false"])
    elif b == "ID":
        lit = '"id0"'
    elif b in enums:
        import keyword

        # a default that is a Python keyword makes the generator emit `Color.from` (generation dies in black):
        # C06's subject, not C03's
        ok = [v for v in enums[b] if not keyword.iskeyword(v)]
        lit = rng.choice(ok) if ok else None
    if lit is None:
        return None
    depth = 0
    tt = t
    while tt[0] != "named":
        if tt[0] == "list":
            depth += 1
        tt = tt[1]
    for _ in range(depth):
        lit = "[" + lit + "]" if rng.random() < 0.7 else "[]"
    return lit


def gen_case(rng: random.Random, *, trigger_names: float = 0.12, harmless_names: float = 0.3, n_ops: Optional[int] = None,
             families: Optional[List[str]] = None, want_results: bool = True) -> Dict[str, Any]:
    """One generated (schema, operations, configuration) with everything the checks need."""
    snake = rng.random() < 0.6
    is_async = rng.random() < 0.5
    enums = {n: rng.sample(ENUM_VALUES, rng.randint(1, 4)) for n in rng.sample(ENUM_NAMES, rng.randint(1, 2))}
    fams = families if families is not None else rng.sample(list(FAMILIES), rng.randint(1, 4))
    scalars = {"Sc" + f: f for f in fams}
    input_names = rng.sample(INPUT_NAMES, rng.randint(1, 3))
    leaf_pool = BUILTIN_SCALARS + list(enums) + list(scalars)
    inputs: Dict[str, List[Dict[str, Any]]] = {}
    for n in input_names:
        fields = []
        for fn in rng.sample(INPUT_FIELD_NAMES, rng.randint(1, 5)):
            if rng.random() < 0.3:
                base = rng.choice(input_names)
                t = _wrap(rng, named(base), 1)
                if t[0] == "nonnull" and t[1][0] == "named":
                    t = t[1]  # a required self-reference would make the type uninhabited
            else:
                t = _wrap(rng, named(rng.choice(leaf_pool)))
            dflt = _default_for(rng, t, enums) if rng.random() < 0.3 else None
            fields.append({"name": fn, "type": t, "default": dflt})
        inputs[n] = fields
    all_types = leaf_pool + input_names
    ops = []
    used_op_names: set = set()
    for i in range(n_ops if n_ops is not None else rng.randint(1, 3)):
        kind = "mutation" if rng.random() < 0.25 else "query"
        oname = rng.choice(["GetThing", "listItems", "Q", "search_all", "DoIt"]) + str(i)
        nvars = rng.choice([0, 1, 1, 2, 2, 3, 4, 6])
        names: List[str] = []
        for _ in range(nvars):
            r = rng.random()
            pool = VAR_NAMES_TRIGGER if r < trigger_names else VAR_NAMES_HARMLESS if r < trigger_names + harmless_names else VAR_NAMES_PLAIN
            cand = [n for n in pool if n not in names]
            if cand:
                names.append(rng.choice(cand))
        defs = []
        for vn in names:
            t = _wrap(rng, named(rng.choice(all_types)))
            dflt = _default_for(rng, t, enums) if rng.random() < 0.25 else None
            defs.append({"name": vn, "type": t, "default": dflt})
        ops.append({"kind": kind, "name": oname, "defs": defs, "field": f"f{i}"})
    case: Dict[str, Any] = {"snake": snake, "async": is_async, "enums": enums, "scalars": scalars, "inputs": inputs, "ops": ops,
                            "want_results": want_results}
    finish_case(case)
    return case


# ---- opt-in (C07): abstract result positions.  case["abstract"] = {"fields": [{"name", "type": TypeRef over Animal | Pet,
#      "frags": [member type names selected with inline fragments], "iface": bool (the interface-level scalar fields are
#      selected - on the interface itself, or inside every fragment for the union), "nest": bool (Cat.friend: Animal below)}]}
ABSTRACT_POSSIBLE = {"Animal": ["Cat", "Dog", "Bird"], "Pet": ["Cat", "Dog"]}


def abstract_iface_fields(case: Dict[str, Any]) -> List[Tuple[str, str]]:
    out: List[Tuple[str, str]] = []
    for s in result_scalars(case):
        p = s.lower()
        out += [(p + "Stamp", s + "!"), (p + "Opt", s), (p + "Items", "[" + s + "]")]
    return out


def abstract_sdl(case: Dict[str, Any]) -> List[str]:
    common = "id: ID! " + " ".join(f"{n}: {t}" for n, t in abstract_iface_fields(case))
    cat = " ".join(f"{s.lower()}Cat: {s}" for s in result_scalars(case))
    dog = " ".join(f"{s.lower()}Dog: [{s}!]" for s in result_scalars(case))
    return [f"interface Animal {{ {common} }}",
            f"type Cat implements Animal {{ {common} {cat} lives: Int friend: Animal }}",
            f"type Dog implements Animal {{ {common} {dog} barks: Boolean }}",
            f"type Bird implements Animal {{ {common} }}",
            "union Pet = Cat | Dog"]


def abstract_member_selection(case: Dict[str, Any], member: str, iface: bool, nest: bool) -> str:
    if member == "Cat":
        sel = " ".join(f"{s.lower()}Cat" for s in result_scalars(case)) + " lives"
        if nest:
            inner = (" ".join(n for n, _ in abstract_iface_fields(case)) if iface else "")
            sel += " friend { " + (inner + " ... on Dog { " + abstract_member_selection(case, "Dog", False, False) + " }").strip() + " }"
        return sel.strip()
    if member == "Dog":
        return (" ".join(f"{s.lower()}Dog" for s in result_scalars(case)) + " barks").strip()
    return "id"


def abstract_selection(case: Dict[str, Any]) -> str:
    parts = []
    for f in case["abstract"]["fields"]:
        base = base_of(f["type"])
        ifs = " ".join(n for n, _ in abstract_iface_fields(case)) if f.get("iface") else ""
        if base == "Animal":
            frs = " ".join(f"... on {m} {{ {abstract_member_selection(case, m, bool(f.get('iface')), bool(f.get('nest')))} }}" for m in f["frags"])
            body = (ifs + " " + frs).strip() or "id"
        else:
            body = " ".join(f"... on {m} {{ {(ifs + ' ' + abstract_member_selection(case, m, bool(f.get('iface')), bool(f.get('nest')))).strip()} }}"
                            for m in f["frags"])
        parts.append(f"{f['name']} {{ {body} }}")
    return " ".join(parts)


def finish_case(case: Dict[str, Any]) -> None:
    """derive SDL, operation documents and the generator configuration from the structural part"""
    lines: List[str] = []
    for s in case["scalars"]:
        lines.append(f"scalar {s}")
    for e, vals in case["enums"].items():
        lines.append(f"enum {e} {{ {' '.join(vals)} }}")
    for n, fields in case["inputs"].items():
        fs = " ".join(f"{f['name']}: {type_str(f['type'])}" + (f" = {f['default']}" if f.get("default") is not None else "") for f in fields)
        lines.append(f"input {n} {{ {fs} }}")
    # result type: one field per custom scalar in several wrapper shapes (C07 parse side)
    rfields = ["ok: Boolean"]
    for s in case["scalars"]:
        rfields += [f"{s.lower()}Plain: {s}", f"{s.lower()}Req: {s}!", f"{s.lower()}List: [{s}]", f"{s.lower()}Deep: [[{s}!]]!"]
    if case.get("abstract"):
        lines += abstract_sdl(case)
        rfields += [f"{f['name']}: {type_str(f['type'])}" for f in case["abstract"]["fields"]]
    lines.append("type R { " + " ".join(rfields) + " child: R kids: [R!] }")
    roots: Dict[str, List[str]] = {"query": ["noop: Boolean"], "mutation": []}
    docs = []
    for op in case["ops"]:
        args = ", ".join(f"a{i}: {type_str(d['type'])}" for i, d in enumerate(op["defs"]))
        roots[op["kind"]].append(f"{op['field']}" + (f"({args})" if args else "") + ": R")
        vars_ = ", ".join(f"${d['name']}: {type_str(d['type'])}" + (f" = {d['default']}" if d.get("default") is not None else "")
                          for d in op["defs"])
        call = ", ".join(f"a{i}: ${d['name']}" for i, d in enumerate(op["defs"]))
        sel = "ok"
        if case.get("want_results", True):
            scal = " ".join(f"{s.lower()}Plain {s.lower()}Req {s.lower()}List {s.lower()}Deep" for s in result_scalars(case))
            sel = f"ok {scal} child {{ ok {scal} }} kids {{ {scal or 'ok'} }}"
            if case.get("fragments") and scal:
                # opt-in: the scalar fields of `child` come through a fragment spread (a class of fragments.py as base)
                sel = f"ok {scal} child {{ ...RScalars ok }} kids {{ {scal} }}"
            if case.get("abstract"):
                sel += " " + abstract_selection(case)
        docs.append(f"{op['kind']} {op['name']}" + (f"({vars_})" if vars_ else "") + " { " + op["field"] + (f"({call})" if call else "")
                    + " { " + sel + " } }")
    lines.append("type Query { " + " ".join(roots["query"]) + " }")
    if roots["mutation"]:
        lines.append("type Mutation { " + " ".join(roots["mutation"]) + " }")
    case["sdl"] = "\n".join(lines) + "\n"
    if case.get("fragments") and case.get("want_results", True) and result_scalars(case):
        docs.append("fragment RScalars on R { " + " ".join(f"{s.lower()}Plain {s.lower()}Req {s.lower()}List {s.lower()}Deep"
                                                           for s in result_scalars(case)) + " }")
    case["queries"] = "\n".join(docs) + "\n"
    cfg: Dict[str, Any] = {"convert_to_snake_case": case["snake"], "async_client": case["async"]}
    sc = {s: dict(family_of(case, s)["cfg"]) for s in case["scalars"] if family_of(case, s)["cfg"] is not None}
    if sc:
        cfg["scalars"] = sc
    if any(family_of(case, s)["py"] == "cls" or family_of(case, s)["parse"] or family_of(case, s)["serialize"] for s in case["scalars"]):
        cfg["files_to_include"] = [SCALAR_MODULE + ".py"]
    # additional generator settings of a case (include_all_inputs, include_all_enums, ...): absent = the defaults
    cfg.update(case.get("extra_config") or {})
    case["config"] = cfg


def scalars_cfg_json(case: Dict[str, Any]) -> List[Dict[str, Any]]:
    out = []
    for s in case["scalars"]:
        c = family_of(case, s)["cfg"]
        if c is not None:
            out.append({"name": s, "type": c["type"], "serialize": c.get("serialize"), "parse": c.get("parse"), "import": c.get("import")})
    return out


# --------------------------------------------------------------------------------------------
# schema views for the Lean side (computed with graphql-core from the SDL)
# --------------------------------------------------------------------------------------------


def jsonable_default(v: Any) -> Any:
    """a coerced default value (graphql-core internal values) as plain JSON"""
    import enum

    if isinstance(v, enum.Enum):
        return v.value
    if isinstance(v, dict):
        return {k: jsonable_default(x) for k, x in v.items()}
    if isinstance(v, (list, tuple)):
        return [jsonable_default(x) for x in v]
    return v


def ischema_json(schema: Any) -> Dict[str, Any]:
    """the coercion view of a graphql-core schema (Spec.Coerce.ISchema): user types only"""
    from graphql import (GraphQLEnumType, GraphQLInputObjectType, GraphQLScalarType, Undefined, specified_scalar_types)

    std = set(specified_scalar_types) if isinstance(specified_scalar_types, dict) else {t.name for t in specified_scalar_types}
    types = []
    for name, t in schema.type_map.items():
        if name.startswith("__") or name in std:
            continue
        if isinstance(t, GraphQLScalarType):
            types.append({"name": name, "kind": "scalar"})
        elif isinstance(t, GraphQLEnumType):
            types.append({"name": name, "kind": "enum", "values": list(t.values.keys())})
        elif isinstance(t, GraphQLInputObjectType):
            fs = []
            for fname, f in t.fields.items():
                d: Dict[str, Any] = {"name": fname, "type": gt_of_graphql(f.type)}
                if f.default_value is not Undefined:
                    d["default"] = wire.enc(jsonable_default(f.default_value))
                fs.append(d)
            types.append({"name": name, "kind": "input", "fields": fs})
        else:
            types.append({"name": name, "kind": "output"})
    return {"types": types}


def kinds_json(schema: Any) -> List[List[str]]:
    """schema.type_map as the generators' isinstance tests see it"""
    from graphql import (GraphQLEnumType, GraphQLInputObjectType, GraphQLInterfaceType, GraphQLObjectType, GraphQLScalarType,
                         GraphQLUnionType)

    out = []
    for name, t in schema.type_map.items():
        k = ("scalar" if isinstance(t, GraphQLScalarType) else "enum" if isinstance(t, GraphQLEnumType)
             else "input" if isinstance(t, GraphQLInputObjectType) else "object" if isinstance(t, GraphQLObjectType)
             else "interface" if isinstance(t, GraphQLInterfaceType) else "union" if isinstance(t, GraphQLUnionType) else None)
        if k:
            out.append([name, k])
    return out


def var_defs_json(schema: Any, op_node: Any) -> List[Dict[str, Any]]:
    """variable definitions of a parsed operation: name, TypeRef, GT, coerced default (by graphql-core)"""
    from graphql import type_from_ast, value_from_ast

    out = []
    for vd in op_node.variable_definitions or ():
        d: Dict[str, Any] = {"name": vd.variable.name.value, "type": typeref_of_node(vd.type)}
        d["gt"] = to_gt(d["type"])
        if vd.default_value is not None:
            t = type_from_ast(schema, vd.type)
            d["default"] = wire.enc(jsonable_default(value_from_ast(vd.default_value, t)))
        out.append(d)
    return out


# --------------------------------------------------------------------------------------------
# canonicalisers: real ast -> IR
# --------------------------------------------------------------------------------------------


class CanonError(Exception):
    pass


def _is_name(node: Any, id_: str) -> bool:
    return isinstance(node, ast.Name) and node.id == id_


def ann_to_nann(node: Any) -> Dict[str, Any]:
    """annotation ast -> NAnn (normal form); raises CanonError on any shape the generators are not known to emit"""
    if isinstance(node, ast.Constant) and isinstance(node.value, str):  # a quoted forward reference after a source round trip
        return {"k": "leaf", "l": {"k": "fwd", "cls": node.value}, "opt": False}
    if isinstance(node, ast.Name):
        if node.id.startswith('"') and node.id.endswith('"') and len(node.id) >= 2:
            return {"k": "leaf", "l": {"k": "fwd", "cls": node.id[1:-1]}, "opt": False}
        return {"k": "leaf", "l": {"k": "name", "n": node.id}, "opt": False}
    if isinstance(node, ast.Attribute):
        return {"k": "leaf", "l": {"k": "name", "n": ast.unparse(node)}, "opt": False}
    if isinstance(node, ast.Subscript) and isinstance(node.value, ast.Name):
        head = node.value.id
        if head == "Optional":
            inner = ann_to_nann(node.slice)
            if inner["opt"]:
                raise CanonError("Optional[Optional[...]]")
            inner = dict(inner)
            inner["opt"] = True
            return inner
        if head == "List":
            return {"k": "list", "item": ann_to_nann(node.slice), "opt": False}
        if head == "Annotated" and isinstance(node.slice, ast.Tuple) and len(node.slice.elts) == 2:
            t, c = node.slice.elts
            if isinstance(t, ast.Name) and isinstance(c, ast.Call) and isinstance(c.func, ast.Name) and len(c.args) == 1 \
                    and isinstance(c.args[0], ast.Name) and not c.keywords:
                if c.func.id == "BeforeValidator":
                    return {"k": "leaf", "l": {"k": "before", "type": t.id, "parse": c.args[0].id}, "opt": False}
                if c.func.id == "PlainSerializer":
                    return {"k": "leaf", "l": {"k": "ser", "type": t.id, "fn": c.args[0].id}, "opt": False}
    raise CanonError("annotation " + ast.unparse(node)[:80])


def method_ir(fn: Any) -> Dict[str, Any]:
    """(Async)FunctionDef of a generated client method -> the IR of Driver/C03.lean op `signature`"""
    args = fn.args
    if args.posonlyargs or args.kwonlyargs or args.vararg is not None:
        raise CanonError("unexpected parameter kinds")
    pos = args.args
    if not pos or pos[0].arg != "self" or pos[0].annotation is not None:
        raise CanonError("first parameter is not a bare self")
    params = pos[1:]
    n_opt = len(args.defaults)
    out_args = []
    for i, a in enumerate(params):
        has_default = i >= len(params) - n_opt
        ann = a.annotation
        if has_default:
            d = args.defaults[i - (len(params) - n_opt)]
            if not _is_name(d, "UNSET"):
                raise CanonError("default is not UNSET")
            if not (isinstance(ann, ast.Subscript) and _is_name(ann.value, "Union") and isinstance(ann.slice, ast.Tuple)
                    and len(ann.slice.elts) == 2 and _is_name(ann.slice.elts[1], "UnsetType")):
                raise CanonError("optional parameter is not Union[..., UnsetType]")
            ann = ann.slice.elts[0]
        out_args.append({"py": a.arg, "ann": ann_to_nann(ann), "optional": has_default})
    if args.kwarg is None or args.kwarg.annotation is None or not _is_name(args.kwarg.annotation, "Any"):
        raise CanonError("**kwargs: Any missing")
    body = fn.body
    if len(body) < 3:
        raise CanonError("short body")
    st_q, st_v = body[0], body[1]
    if not (isinstance(st_q, ast.Assign) and len(st_q.targets) == 1 and isinstance(st_q.targets[0], ast.Name)
            and isinstance(st_q.value, ast.Call) and _is_name(st_q.value.func, "gql")):
        raise CanonError("first statement is not <query> = gql(...)")
    if not (isinstance(st_v, ast.AnnAssign) and isinstance(st_v.target, ast.Name) and isinstance(st_v.value, ast.Dict)):
        raise CanonError("second statement is not <variables>: Dict = {...}")
    d_items = []
    for k, v in zip(st_v.value.keys, st_v.value.values):
        if not (isinstance(k, ast.Constant) and isinstance(k.value, str)):
            raise CanonError("dict key")
        if isinstance(v, ast.Name):
            d_items.append([k.value, {"k": "name", "py": v.id}])
        elif isinstance(v, ast.Call) and isinstance(v.func, ast.Name) and len(v.args) == 1 and isinstance(v.args[0], ast.Name) and not v.keywords:
            d_items.append([k.value, {"k": "call", "fn": v.func.id, "py": v.args[0].id}])
        else:
            raise CanonError("dict value " + ast.unparse(v)[:60])
    locals_: Dict[str, str] = {"query": st_q.targets[0].id, "variables": st_v.target.id}
    st3 = body[2]
    call = None
    kind = "async" if isinstance(fn, ast.AsyncFunctionDef) else "sync"
    if isinstance(st3, ast.AsyncFor):
        kind = "subscription"
        if not isinstance(st3.target, ast.Name):
            raise CanonError("async for target")
        locals_["data"] = st3.target.id
        locals_["response"] = None  # type: ignore  (a subscription method has no response local)
        call = st3.iter
        attr = "execute_ws"
    else:
        if not (isinstance(st3, ast.Assign) and len(st3.targets) == 1 and isinstance(st3.targets[0], ast.Name)):
            raise CanonError("third statement")
        locals_["response"] = st3.targets[0].id
        call = st3.value.value if isinstance(st3.value, ast.Await) else st3.value
        if (kind == "async") != isinstance(st3.value, ast.Await):
            raise CanonError("await does not match def kind")
        attr = "execute"
        st4 = body[3] if len(body) > 3 else None
        if not (isinstance(st4, ast.Assign) and len(st4.targets) == 1 and isinstance(st4.targets[0], ast.Name)
                and isinstance(st4.value, ast.Call) and ast.unparse(st4.value.func) == "self.get_data"
                and len(st4.value.args) == 1 and _is_name(st4.value.args[0], locals_["response"])):
            raise CanonError("fourth statement is not <data> = self.get_data(<response>)")
        locals_["data"] = st4.targets[0].id
    if not (isinstance(call, ast.Call) and ast.unparse(call.func) == "self." + attr and not call.args):
        raise CanonError("execute call")
    kws = {kw.arg: kw.value for kw in call.keywords}
    if set(kws) != {"query", "operation_name", "variables", None}:
        raise CanonError("execute keywords " + repr(sorted(map(str, kws))))
    if not (_is_name(kws["query"], locals_["query"]) and _is_name(kws["variables"], locals_["variables"]) and _is_name(kws[None], "kwargs")
            and isinstance(kws["operation_name"], ast.Constant)):
        raise CanonError("execute keyword values")
    return {"name": fn.name, "args": out_args, "dict": d_items, "locals": locals_, "kind": kind, "opName": kws["operation_name"].value}


def loose_method_ir(fn: Any) -> Optional[Dict[str, Any]]:
    """What is needed to CALL a generated client method whose text `method_ir` refused (CanonError): its name, kind,
    operation name and which parameter each variable is taken from.  Not an IR the models are compared with (the
    caller reports the CanonError as a mismatch); it only keeps the oracle able to observe the method."""
    params = [a.arg for a in fn.args.args[1:]]
    op_name = next((kw.value.value for n in ast.walk(fn) if isinstance(n, ast.Call) for kw in n.keywords
                    if kw.arg == "operation_name" and isinstance(kw.value, ast.Constant)), None)
    dict_node = next((st.value for st in fn.body if isinstance(st, ast.AnnAssign) and isinstance(st.value, ast.Dict)), None)
    if op_name is None or dict_node is None:
        return None
    d_items = []
    for k, v in zip(dict_node.keys, dict_node.values):
        if not (isinstance(k, ast.Constant) and isinstance(k.value, str)):
            return None
        used = [n.id for n in ast.walk(v) if isinstance(n, ast.Name) and n.id in params]
        d_items.append([k.value, {"k": "loose", "py": used[0] if used else k.value}])
    return {"name": fn.name, "args": [], "dict": d_items, "locals": {}, "kind": "async" if isinstance(fn, ast.AsyncFunctionDef) else "sync",
            "opName": op_name, "loose": True}


def class_ir(cls: Any) -> List[Dict[str, Any]]:
    """ClassDef of a generated pydantic model -> [{"py", "alias", "ann", "default": required|none|value}]"""
    out = []
    for st in cls.body:
        if not (isinstance(st, ast.AnnAssign) and isinstance(st.target, ast.Name)):
            continue
        alias = None
        default = "required"
        v = st.value
        if v is not None:
            if isinstance(v, ast.Call) and _is_name(v.func, "Field"):
                kws = {kw.arg: kw.value for kw in v.keywords}
                if "alias" in kws and isinstance(kws["alias"], ast.Constant):
                    alias = kws["alias"].value
                if "default" in kws:
                    default = "none" if isinstance(kws["default"], ast.Constant) and kws["default"].value is None else "value"
                elif "default_factory" in kws:
                    default = "value"
            else:
                default = "none" if isinstance(v, ast.Constant) and v.value is None else "value"
        out.append({"py": st.target.id, "alias": alias, "ann": ann_to_nann(st.annotation), "default": default})
    return out


def module_classes(src: str) -> Dict[str, List[Dict[str, Any]]]:
    tree = ast.parse(src)
    return {c.name: class_ir(c) for c in tree.body if isinstance(c, ast.ClassDef)}


def module_bases(src: str) -> Dict[str, List[str]]:
    """class name -> names of its base classes"""
    tree = ast.parse(src)
    return {c.name: [b.id for b in c.bases if isinstance(b, ast.Name)] for c in tree.body if isinstance(c, ast.ClassDef)}


def module_imports(src: str) -> List[Dict[str, Any]]:
    tree = ast.parse(src)
    return [{"module": ("." * n.level) + (n.module or ""), "names": [a.name for a in n.names]} for n in tree.body if isinstance(n, ast.ImportFrom)]


# --------------------------------------------------------------------------------------------
# caller values
# --------------------------------------------------------------------------------------------


def py_nullable_flags(gt: List[Any], inherited: bool = True) -> bool:
    return False if gt[2] else inherited


def gen_value(rng: random.Random, case: Dict[str, Any], gt: List[Any], *, top: bool, inherited: bool = True, depth: int = 0,
              null_p: float = 0.2) -> Any:
    """a schema-valid value spec for the normalised type `gt`.
    `top`: a top-level argument (annotations are not enforced, every GraphQL-nullable position may be None);
    inside input models a position may be None only where the generated annotation says Optional
    (the inherited-nullability rule of parse_input_field_type; `[T]!` items are C06-F1 territory)."""
    nullable_gql = not gt[2]
    nullable_py = py_nullable_flags(gt, inherited)
    if nullable_gql and (top or nullable_py) and rng.random() < null_p:
        return None
    if gt[0] == "list":
        n = rng.choice([0, 1, 2, 3]) if depth < 3 else 0
        return {"k": "list", "xs": [gen_value(rng, case, gt[1], top=top, inherited=nullable_py, depth=depth + 1, null_p=null_p) for _ in range(n)]}
    name = gt[1]
    if name == "Int":
        return {"k": "int", "v": rng.choice([0, 3, -5, 1000, 2147483647])}
    if name == "Float":
        return rng.choice([{"k": "float", "v": 0.5}, {"k": "float", "v": -1.25}, {"k": "float", "v": 2.0}, {"k": "int", "v": 7}])
    if name == "String":
        return {"k": "str", "v": rng.choice(["", "s", "two words", "ü", "UNSET"])}
    if name == "Boolean":
        return {"k": "bool", "v": rng.random() < 0.5}
    if name == "ID":
        return {"k": "str", "v": rng.choice(["id1", "42"])}
    if name in case["enums"]:
        return {"k": "enum", "cls": name, "v": rng.choice(case["enums"][name])}
    if name in case["scalars"]:
        fam = family_of(case, name)
        if fam.get("raws"):
            raw = rng.choice(fam["raws"])
        elif fam["py"] == "cls":
            raw = rng.choice(["r1", "r2", 7, ["l", 1], {"a": 1}, "", 0])
        elif fam["py"] == "str":
            raw = rng.choice(["s1", "s2", ""])
        elif fam["py"] == "datetime":
            raw = rng.choice(["2021-02-03T04:05:06", "1999-12-31T23:59:59"])
        else:
            raw = rng.choice(["raw", 12, 1.5, True, ["x", None, 2], {"k": [1, {"z": None}]}])
        return {"k": "custom", "scalar": name, "j": raw}
    if name in case["inputs"]:
        fields = []
        for f in case["inputs"][name]:
            fgt = to_gt(f["type"])
            required = fgt[2] and f.get("default") is None
            if required or (depth < 3 and rng.random() < 0.55):
                v = gen_value(rng, case, fgt, top=False, inherited=True, depth=depth + 1, null_p=null_p if depth < 2 else 0.6)
                if depth >= 3 and fgt[0] == "named" and fgt[1] in case["inputs"] and not fgt[2]:
                    v = None
                fields.append({"name": f["name"], "v": v, "by": rng.choice(["alias", "name"])})
            else:
                fields.append({"name": f["name"], "v": {"k": "unset"}})
        return {"k": "model", "cls": name, "fields": fields}
    raise ValueError(name)


def build_py(spec: Any, pkg: Any, case: Dict[str, Any], trace: Optional[List[Dict[str, Any]]] = None) -> Any:
    """value spec -> the REAL Python argument (runs in the child, after the package is imported).
    `trace` (optional): one record per constructor call of a generated input class, innermost first:
    {"cls", "spec", "keys": the keywords really used, "set": dump keys of model_fields_set in class order}
    or {..., "missing": [...], "other_errors": n, "error": text} when the class refused the keywords."""
    import datetime
    import importlib

    if spec is None:
        return None
    k = spec["k"]
    if k in ("bool", "int", "float", "str"):
        return spec["v"]
    if k == "enum":
        return getattr(pkg, spec["cls"])(spec["v"])
    if k == "custom":
        fam = family_of(case, spec["scalar"])
        if fam["py"] == "cls":
            mod = importlib.import_module(f"{pkg.__name__}.{SCALAR_MODULE}")
            return getattr(mod, fam["cls"])(spec["j"])
        if fam["py"] == "datetime":
            return datetime.datetime.fromisoformat(spec["j"])
        return spec["j"]
    if k == "list":
        return [build_py(x, pkg, case, trace) for x in spec["xs"]]
    if k == "model":
        cls = getattr(pkg, spec["cls"])
        by_graphql: Dict[str, Tuple[str, Optional[str]]] = {}
        for py, f in cls.model_fields.items():
            by_graphql[f.alias or py] = (py, f.alias)
        positional = [(py, f.alias) for py, f in cls.model_fields.items()]
        kwargs = {}
        for i, f in enumerate(spec["fields"]):
            if isinstance(f["v"], dict) and f["v"].get("k") == "unset":
                continue
            # the i-th attribute of the class belongs to the i-th field of the input type; a class that lost an
            # alias can only be addressed by its Python name
            py, alias = by_graphql.get(f["name"]) or positional[i]
            kwargs[py if f.get("by") == "name" or alias is None else alias] = build_py(f["v"], pkg, case, trace)
        for extra_key in spec.get("extra_keys", []):  # keywords that name no field (pydantic ignores them)
            kwargs.setdefault(extra_key, 1)
        if trace is None:
            return cls(**kwargs)
        rec: Dict[str, Any] = {"cls": spec["cls"], "spec": spec, "keys": list(kwargs)}
        trace.append(rec)
        try:
            obj = cls(**kwargs)
        except BaseException as e:  # noqa: BLE001
            errs = e.errors() if hasattr(e, "errors") else []
            rec["missing"] = [str(x["loc"][0]) for x in errs if x.get("type") == "missing" and x.get("loc")]
            rec["other_errors"] = len([x for x in errs if x.get("type") != "missing"]) if errs else 1
            rec["error"] = f"{type(e).__name__}: {str(e)[:200]}"
            raise
        rec["set"] = [(f.alias or py) for py, f in cls.model_fields.items() if py in obj.model_fields_set]
        return obj
    raise ValueError(k)


def leaf_json(x: Any) -> Any:
    """the JSON form of a REAL leaf argument (what json.dumps(default=to_jsonable_python) writes for it): enum members by
    value, instrumented scalar objects by their raw value, datetimes in ISO format"""
    import datetime
    import enum

    if isinstance(x, enum.Enum):
        return x.value
    if hasattr(x, "raw") and type(x).__module__.endswith(SCALAR_MODULE):
        return x.raw
    if isinstance(x, datetime.datetime):
        return x.isoformat()
    return x


def to_av(spec: Any, classes: Dict[str, List[Dict[str, Any]]]) -> Any:
    """value spec -> the AV JSON of Driver/ArgWire.lean; field keys/annotations come from the REAL
    generated input classes (`classes` = module_classes(input_types.py))"""
    if spec is None:
        return None
    k = spec["k"]
    if k == "custom":
        return {"k": "custom", "scalar": spec["scalar"], "j": wire.enc(spec["j"])}
    if k == "list":
        return {"k": "list", "xs": [to_av(x, classes) for x in spec["xs"]]}
    if k == "model":
        decl = classes[spec["cls"]]
        fields = []
        for i, f in enumerate(spec["fields"]):
            d = decl[i]  # class attributes are emitted in the order of the input type's fields
            fields.append({"key": d["alias"] or d["py"], "ann": d["ann"], "v": to_av(f["v"], classes)})
        return {"k": "model", "cls": spec["cls"], "fields": fields}
    if k == "enum":
        return {"k": "enum", "v": spec["v"]}
    return spec


def custom_leaves(spec: Any, case: Dict[str, Any], which: str = "serialize") -> List[Tuple[str, Any]]:
    """(function name, raw) for every non-null custom-scalar leaf whose scalar has `which` configured, in
    depth-first field/list order"""
    out: List[Tuple[str, Any]] = []
    if spec is None:
        return out
    k = spec["k"]
    if k == "custom":
        fn = family_of(case, spec["scalar"])[which]
        if fn:
            out.append((fn, spec["j"]))
    elif k == "list":
        for x in spec["xs"]:
            out += custom_leaves(x, case, which)
    elif k == "model":
        for f in spec["fields"]:
            if not (isinstance(f["v"], dict) and f["v"].get("k") == "unset"):
                out += custom_leaves(f["v"], case, which)
    return out


def py_intended(spec: Any, case: Dict[str, Any], input_defaults: Dict[str, Dict[str, Any]]) -> Any:
    """The property's right-hand side, stated independently of the Lean model: the value the
    resolver must receive for a caller value (original names, unset fields replaced by the schema
    default when there is one and absent otherwise, scalars as `serialize` / JSON encoding makes them)."""
    if spec is None:
        return None
    k = spec["k"]
    if k in ("bool", "int", "float", "str"):
        return spec["v"]
    if k == "enum":
        return spec["v"]
    if k == "custom":
        fn = family_of(case, spec["scalar"])["serialize"]
        return {"$ser": fn, "v": spec["j"]} if fn else spec["j"]
    if k == "list":
        return [py_intended(x, case, input_defaults) for x in spec["xs"]]
    if k == "model":
        out = {}
        dfl = input_defaults.get(spec["cls"], {})
        for f in spec["fields"]:
            if isinstance(f["v"], dict) and f["v"].get("k") == "unset":
                if f["name"] in dfl:
                    out[f["name"]] = dfl[f["name"]]
            else:
                out[f["name"]] = py_intended(f["v"], case, input_defaults)
        return out
    raise ValueError(k)


def absent_paths_ok(spec: Any, sent: Any) -> Optional[str]:
    """unset input fields are absent from the payload at every depth; None travels as null"""
    if spec is None:
        return None if sent is None else "None-not-null"
    k = spec["k"]
    if k == "list":
        if not isinstance(sent, list) or len(sent) != len(spec["xs"]):
            return "list-shape"
        for s, x in zip(spec["xs"], sent):
            r = absent_paths_ok(s, x)
            if r:
                return r
        return None
    if k == "model":
        if not isinstance(sent, dict):
            return "model-not-object"
        for f in spec["fields"]:
            unset = isinstance(f["v"], dict) and f["v"].get("k") == "unset"
            if unset and f["name"] in sent:
                return "unset-field-present"
            if not unset:
                if f["name"] not in sent:
                    return "set-field-absent"
                r = absent_paths_ok(f["v"], sent[f["name"]])
                if r:
                    return r
        extra = set(sent) - {f["name"] for f in spec["fields"]}
        return "unknown-key-sent" if extra else None
    return None
