"""C12 — every HTTP response is classified into exactly one documented outcome.

Tie: model `Ariadne.GetData.getData` (lean/AriadneModel/Model/GetData.lean) vs the real
`get_data` of the four bundled base clients on real `httpx.Response` objects:
  * the complete table  status class x body class  (exhaustive: every cell of the property's
    quantifier, all four clients),
  * seeded random JSON bodies (spec-shaped and not),
and an independent property oracle (the property text as a Python predicate) on the same inputs.
"""
from __future__ import annotations

import json
from typing import Any, Dict, List, Optional, Tuple

import httpx

from . import clients, common, wire
from .common import Ctx, Failure, LeanStatus, Mismatch, Result

STATUSES = [100, 101, 199, 200, 201, 204, 226, 299, 300, 301, 304, 400, 401, 403, 404, 418, 500, 503, 599]

ERR_FULL = {"message": "boom", "locations": [{"line": 1, "column": 2}], "path": ["a", 0, "b"], "extensions": {"code": "X"}}
ERR_MIN = {"message": "m"}
ERR_EXTRA = {"message": "", "foo": [1, 2], "path": None}

# (label, raw body bytes, spec_shaped)
BODY_TABLE: List[Tuple[str, bytes, bool]] = [
    ("empty", b"", True),
    ("not-json", b"<html>502</html>", True),
    ("bad-utf8", b"\xff\xfe{}", True),
    ("truncated", b'{"data": {"a": 1}', True),
    ("json-null", b"null", True),
    ("json-true", b"true", True),
    ("json-number", b"12", True),
    ("json-float", b"1.5", True),
    ("json-string", b'"data"', True),
    ("json-array-empty", b"[]", True),
    ("json-array", b'[{"data": 1}]', True),
    ("empty-object", b"{}", True),
    ("extra-keys-only", b'{"extensions": {"a": 1}, "Data": 1}', True),
    ("data-only", b'{"data": {"a": 1, "b": [1, 2.5, null, "x"]}}', True),
    ("data-null", b'{"data": null}', True),
    ("data-empty-object", b'{"data": {}}', True),
    ("data-scalar", b'{"data": 7}', True),
    ("data-list", b'{"data": [1, 2]}', True),
    ("data-false", b'{"data": false}', True),
    ("data-extra-keys", b'{"data": {"a": 1}, "extensions": {"t": 1}}', True),
    ("errors-empty-no-data", b'{"errors": []}', True),
    ("errors-empty-with-data", b'{"data": {"a": 1}, "errors": []}', True),
    ("errors-one-no-data", json.dumps({"errors": [ERR_MIN]}).encode(), True),
    ("errors-one-data-null", json.dumps({"errors": [ERR_FULL], "data": None}).encode(), True),
    ("errors-one-with-data", json.dumps({"data": {"a": None}, "errors": [ERR_FULL]}).encode(), True),
    ("errors-many-with-data", json.dumps({"errors": [ERR_FULL, ERR_MIN, ERR_EXTRA], "data": {"a": 1}, "extensions": {}}).encode(), True),
    ("errors-message-not-string", json.dumps({"errors": [{"message": {"x": 1}}, {"message": None}]}).encode(), True),
    # outside the hypothesis of the property (errors present but not spec-shaped): compared with
    # the model's `.internal` branch, never judged by the oracle
    ("errors-null", b'{"errors": null}', False),
    ("errors-null-data", b'{"errors": null, "data": {"a": 1}}', False),
    ("errors-string", b'{"errors": "oops"}', False),
    ("errors-empty-string", b'{"errors": "", "data": 1}', False),
    ("errors-object", b'{"errors": {"message": "x"}}', False),
    ("errors-empty-object", b'{"errors": {}}', False),
    ("errors-number", b'{"errors": 5}', False),
    ("errors-zero", b'{"errors": 0, "data": 2}', False),
    ("errors-true", b'{"errors": true}', False),
    ("errors-false", b'{"errors": false}', False),
    ("errors-list-of-strings", b'{"errors": ["x"]}', False),
    ("errors-list-no-message", b'{"errors": [{"msg": "x"}]}', False),
    ("errors-list-mixed", json.dumps({"errors": [ERR_MIN, {}, "x"]}).encode(), False),
    ("errors-list-null-item", b'{"errors": [null]}', False),
    ("errors-list-list-item", b'{"errors": [[]]}', False),
    ("errors-list-number-item", b'{"errors": [{"message": "a"}, 3]}', False),
]


def decode_body(content: bytes) -> Tuple[bool, Any]:
    try:
        return True, json.loads(content)
    except ValueError:
        return False, None


def spec_shaped(body_ok: bool, body: Any) -> bool:
    if not body_ok or not isinstance(body, dict) or "errors" not in body:
        return True
    e = body["errors"]
    return isinstance(e, list) and all(isinstance(x, dict) and "message" in x for x in e)


def observe(client: Any, status: int, content: bytes) -> Dict[str, Any]:
    """Run the REAL get_data on a real httpx.Response and canonicalise what happens."""
    exc = clients.exceptions_module()
    response = httpx.Response(status_code=status, content=content)
    try:
        data = client.get_data(response)
    except exc.GraphQLClientHttpError as e:
        return {"o": "http", "status": e.status_code, "carries_response": e.response is response}
    except exc.GraphQLClientInvalidResponseError as e:
        return {"o": "invalid", "carries_response": e.response is response}
    except exc.GraphQLClientGraphQLMultiError as e:
        return {
            "o": "multi",
            "errors": [
                {"message": g.message, "locations": g.locations, "path": g.path, "extensions": g.extensions, "original": g.original}
                for g in e.errors
            ],
            "data": e.data,
            "all_graphql_errors": all(isinstance(g, exc.GraphQLClientGraphQLError) for g in e.errors),
        }
    except Exception as e:  # anything else escaping
        return {"o": "internal", "exc": type(e).__name__}
    return {"o": "data", "data": data}


def oracle(status: int, body_ok: bool, body: Any, obs: Dict[str, Any]) -> Optional[str]:
    """The property, stated directly (only for spec-shaped responses). Returns a failure signature."""
    if not (200 <= status <= 299):
        if obs["o"] != "http":
            return "non-2xx-not-http-error"
        if obs["status"] != status or not obs.get("carries_response"):
            return "http-error-loses-status-or-response"
        return None
    if obs["o"] == "http":
        return "2xx-raises-http-error"
    invalid = (not body_ok) or (not isinstance(body, dict)) or ("data" not in body and "errors" not in body)
    if invalid:
        if obs["o"] != "invalid":
            return "invalid-body-not-rejected"
        return None if obs.get("carries_response") else "invalid-error-loses-response"
    if obs["o"] == "invalid":
        return "valid-body-rejected"
    errors = body.get("errors")
    if isinstance(errors, list) and errors:
        if obs["o"] == "data":
            return "data-returned-despite-errors"
        if obs["o"] != "multi":
            return "errors-not-raised-as-multi-error"
        if not obs.get("all_graphql_errors") or len(obs["errors"]) != len(errors):
            return "multi-error-drops-errors"
        for g, e in zip(obs["errors"], errors):
            want = {"message": e["message"], "locations": e.get("locations"), "path": e.get("path"),
                    "extensions": e.get("extensions"), "original": e}
            if not common.same_json(g, want):
                return "multi-error-alters-error"
        if not common.same_json(obs["data"], body.get("data")):
            return "multi-error-loses-partial-data"
        return None
    if obs["o"] != "data":
        return "no-errors-but-" + obs["o"]
    if not common.same_json(obs["data"], body.get("data"), ordered=True):
        return "data-altered"
    return None


def strip_obs(obs: Dict[str, Any]) -> Dict[str, Any]:
    return {k: v for k, v in obs.items() if k not in ("carries_response", "all_graphql_errors")}


def model_line(status: int, body_ok: bool, body: Any) -> Dict[str, Any]:
    line: Dict[str, Any] = {"op": "getData", "status": status}
    if body_ok:
        line["body"] = wire.enc(body)
    return line


def decode_model(o: Dict[str, Any]) -> Dict[str, Any]:
    out = dict(o)
    if "data" in out:
        out["data"] = wire.dec(out["data"])
    if "errors" in out:
        out["errors"] = [{k: wire.dec(v) for k, v in e.items()} for e in out["errors"]]
    return out


# --------------------------------------------------------------------------------------------
# random bodies
# --------------------------------------------------------------------------------------------


def rand_json(rng: Any, depth: int = 0) -> Any:
    r = rng.random()
    if depth > 3 or r < 0.45:
        return rng.choice([None, True, False, 0, 1, -3, 2.5, 0.0, "", "x", "data", "errors", 10**20])
    if r < 0.7:
        return [rand_json(rng, depth + 1) for _ in range(rng.randint(0, 3))]
    return {rng.choice(["a", "b", "message", "path", "data", "errors", "locations", "extensions"]): rand_json(rng, depth + 1)
            for _ in range(rng.randint(0, 3))}


def rand_error(rng: Any, shaped: bool) -> Any:
    if not shaped and rng.random() < 0.6:
        return rng.choice([None, "x", 1, [], {}, {"msg": 1}, True])
    e: Dict[str, Any] = {}
    keys = ["message", "locations", "path", "extensions", "extra"]
    rng.shuffle(keys)
    for k in keys:
        if k == "message" or rng.random() < 0.5:
            e[k] = rand_json(rng, 2) if k != "message" or rng.random() < 0.3 else rng.choice(["m", "", "e2"])
    return e


def rand_body(rng: Any) -> bytes:
    r = rng.random()
    if r < 0.08:
        return rng.choice([b"", b"x", b"{", b"nul", b"[1,", b"\xc3\x28"])
    if r < 0.2:
        return json.dumps(rand_json(rng)).encode()
    body: Dict[str, Any] = {}
    members = ["data", "errors", "extensions", "other"]
    rng.shuffle(members)
    for m in members:
        p = rng.random()
        if m == "data" and p < 0.7:
            body["data"] = rand_json(rng, 1)
        elif m == "errors" and p < 0.7:
            q = rng.random()
            if q < 0.15:
                body["errors"] = []
            elif q < 0.8:
                body["errors"] = [rand_error(rng, True) for _ in range(rng.randint(1, 4))]
            elif q < 0.9:
                body["errors"] = [rand_error(rng, False) for _ in range(rng.randint(1, 3))]
            else:
                body["errors"] = rand_json(rng, 2)
        elif m in ("extensions", "other") and p < 0.3:
            body[m] = rand_json(rng, 2)
    return json.dumps(body).encode()


# --------------------------------------------------------------------------------------------


def fingerprint_items() -> List[Tuple[str, Optional[str]]]:
    items: List[Tuple[str, Optional[str]]] = []
    for kind, rel in clients.REL.items():
        cls = [c for k, _, c, _ in clients.CLIENTS if k == kind][0]
        items.append((rel, f"{cls}.get_data"))
    items.append((clients.EXC_REL, "GraphQLClientGraphQLError.from_dict"))
    items.append((clients.EXC_REL, "GraphQLClientGraphQLMultiError.from_errors_dicts"))
    return items


def cases(ctx: Ctx) -> List[Tuple[str, int, bytes]]:
    out: List[Tuple[str, int, bytes]] = []
    for label, content, _ in BODY_TABLE:
        for status in STATUSES:
            out.append((label, status, content))
    rng = ctx.sub_rng("bodies")
    for i in range(ctx.budget(1500, 30000)):
        status = rng.choice(STATUSES) if rng.random() < 0.25 else rng.choice([200, 200, 200, 201, 204, 299])
        out.append(("random", status, rand_body(rng)))
    return out


def judge_cases(ctx: Ctx, st: Optional[LeanStatus], todo: List[Tuple[str, int, bytes]], res: Result) -> None:
    handler = lambda request: httpx.Response(200, json={"data": None})  # noqa: E731  (never called by get_data)
    real = {kind: clients.make(kind, handler) for kind in clients.REL}
    lines = []
    decoded = []
    for label, status, content in todo:
        ok, body = decode_body(content)
        decoded.append((ok, body))
        lines.append(model_line(status, ok, body))
    model_out: Optional[List[Any]] = None
    if st is not None and st.driver_ok:
        model_out = [decode_model(o) for o in common.run_driver(ctx.prop, lines)]
    for i, (label, status, content) in enumerate(todo):
        ok, body = decoded[i]
        shaped = spec_shaped(ok, body)
        case = {"status": status, "body_latin1": content.decode("latin1")}
        res.count("body:" + label)
        res.count("status:2xx" if 200 <= status <= 299 else "status:non-2xx")
        res.count("spec-shaped" if shaped else "not-spec-shaped (outside the claim; model compared only)")
        per_client = {}
        for kind, client in real.items():
            obs = observe(client, status, content)
            per_client[kind] = obs
            res.count("outcome:" + obs["o"])
            if shaped:
                sig = oracle(status, ok, body, obs)
                if sig:
                    res.failures.append(Failure(sig, None, {**case, "client": kind}, f"{kind}.get_data -> {json.dumps(strip_obs(obs), default=repr)[:300]}"))
            if model_out is not None and not common.same_json(strip_obs(obs), model_out[i]):
                res.mismatches.append(Mismatch("getData", {**case, "client": kind}, strip_obs(obs), model_out[i]))
        first = strip_obs(per_client["sync"])
        for kind, obs in per_client.items():
            if not common.same_json(strip_obs(obs), first):
                res.failures.append(Failure("clients-disagree", None, {**case, "client": kind}, f"sync={first} {kind}={strip_obs(obs)}"))
        nontrivial = 200 <= status <= 299 and ok and isinstance(body, dict)
        res.seen([status, content.decode("latin1")], nontrivial=nontrivial or label != "random")
        if label != "random" and status in (200, 503) and len(res.samples) < 6 and label in ("errors-one-with-data", "data-only", "not-json"):
            res.sample({"input": case, "impl": strip_obs(per_client["async"]), "model": model_out[i] if model_out else None})


def run(ctx: Ctx, st: Optional[LeanStatus]) -> Result:
    res = Result()
    res.rule = (
        "exhaustive table: %d statuses x %d body classes x 4 clients, plus seeded random JSON bodies; a case is "
        "non-trivial when it is a table cell or a random 2xx JSON-object body; distinct = distinct (status, body bytes)"
        % (len(STATUSES), len(BODY_TABLE))
    )
    res.exhaustive = True
    fp = common.fingerprints(ctx, fingerprint_items())
    res.extra["fingerprints"] = fp
    div = clients.four_way(["get_data"])
    res.extra["four_way_textual_divergence"] = div
    if div:
        ctx.boost = True
        ctx.log(f"get_data is no longer textually identical in the four clients: {div}")
    todo = cases(ctx)
    judge_cases(ctx, st, todo, res)
    res.extra["table_cells"] = len(STATUSES) * len(BODY_TABLE)
    res.oracle_only.append("httpx.Response.is_success / .json() are httpx's; observed through real Response objects, not modelled")
    res.assumptions.append("response.json() == json.loads(response.content) (httpx 0.28)")
    return res


def search(ctx: Ctx) -> Result:
    """After a broken proof/correspondence: judge the real code with the thorough budget."""
    res = Result()
    rng = ctx.sub_rng("search")
    todo = [("random", rng.choice(STATUSES), rand_body(rng)) for _ in range(40000)]
    judge_cases(ctx, None, todo, res)
    return res


def replay(ctx: Ctx, payload: Dict[str, Any]) -> int:
    inp = payload.get("input")
    if not inp:
        print(json.dumps(payload, indent=1)[:2000])
        return 1
    content = inp["body_latin1"].encode("latin1")
    handler = lambda request: httpx.Response(200)  # noqa: E731
    rc = 0
    for kind in clients.REL:
        obs = observe(clients.make(kind, handler), inp["status"], content)
        ok, body = decode_body(content)
        sig = oracle(inp["status"], ok, body, obs) if spec_shaped(ok, body) else None
        print(kind, json.dumps(strip_obs(obs), default=repr)[:400], "->", sig or "ok")
        rc = rc or (1 if sig else 0)
    return rc
