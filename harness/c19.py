"""C19 - the schema source does not change the generated client.

Tie (DESIGN.md 3/C19):
  * files:    `schema.load_graphql_files_from_path` / `get_graphql_schema_from_path` on random directory trees built on
              disk (nested directories, the three suffixes, ignored files, odd names, creation order shuffled, unparseable
              files, directories that carry a graphql suffix) and `Path.suffix` over a name table
              vs `Ariadne.SchemaLoad` (ops `suffix`, `load`);
  * remote:   `schema.get_graphql_schema_from_url` driven through a transport-level httpx patch over the complete table
              status class x body class + exceptions of the transport (every exception class the installed httpx exports,
              user-defined subclasses, foreign exceptions; each sent to the model as the MRO of its class + `str(exc)`;
              60% of the random picks in the TransportError family, the region of the repaired finding C19-F2)
              + unparseable URLs vs `Ariadne.Introspect.introspect` + `Spec.BuildClientSchema.top` (op `introspect`,
              incl. the twins of `listedFailureExc` / `trigRequestExcUntyped`); oracle-only: the REAL transport on URLs it
              refuses or cannot reach and against a one-shot loopback endpoint that misbehaves (closes, garbage, truncated
              body, undecodable Content-Encoding = finding C19-F6);
  * text:     graphql-core's `Lexer` (tokens as the parser sees them: kind + lexeme; GraphQLSyntaxError / IndexError) on
              templates, rendered SDL, fragment / alphabet compositions and mutated SDL vs `Ariadne.Spec.GqlLexer` (op `lex`),
              and the token stream of `sep.join(texts)` for the separator measured on the real
              `load_graphql_files_from_path` and eight others (the law `joined_text_tokens` states, on the real lexer);
  * settings: the real `main.client` and `main.graphql_schema` (stopped by a sentinel at the first request / at the first
              file read; some configurations twice in one process) over random source configurations with `$ENV` headers -
              including environment values that themselves start with `$` - vs `Ariadne.Introspect.chooseSourceStaged`
              (op `source`); the captured request (URL, headers, `verify`, the introspection query text) is compared too;
              `get_graphql_schema_from_url` / `introspect_remote_schema` called directly with arbitrary header dicts vs
              `Ariadne.Introspect.urlCall` (op `urlcall`: what they are given is what is sent);
  * inputs:   the real `InputTypesGenerator` / `EnumsGenerator` on the SDL-built and on the introspection-built schema
              object of random schemas with defaults of every kind vs `Ariadne.InputGen` (op `inputs`), including the
              trigger predicates.
Oracle (the property itself, independent of the model): for random schemas + operations the real generator produces
the package from (a) one SDL file, (b) a random split into nested directories, (c) introspection served in-process by
graphql-core; the packages are compared module by module (class sets and class texts, method signatures, operation
strings) and the input models are imported and compared field by field on `is_required()` and default values.
"""
from __future__ import annotations

import ast
import contextlib
import importlib
import io
import json
import os
import random
import re
import shutil
import sys
import tempfile
from pathlib import Path, PurePosixPath
from typing import Any, Callable, Dict, Iterator, List, Optional, Tuple

from . import common, engine, wire
from .common import Ctx, Failure, LeanStatus, Mismatch, Result
from .gen import ops_gen, schema_gen

import warnings



def _quiet_fork_warning() -> None:
    """ariadne_codegen/config.py switches DeprecationWarning to "default" at import; CPython 3.12 then prints one warning per
    fork() of an engine.pmap_forked worker (its queue feeder thread).  Re-applied before every parallel section."""
    warnings.filterwarnings("ignore", message=".*multi-threaded, use of fork.*", category=DeprecationWarning)


PROP = "C19"
TRIG_DEFAULT = "inputDefaultIntrospection"  # C19-F1  (Lean: trigDefaultLost)
# C19-F2 ("transportExc": every exception of httpx.post but InvalidURL escaped) was repaired by /repo 23ffd85: it has no
# trigger any more - a TransportError that escapes again is a Failure with trigger None (-> VIOLATION).
TRIG_REJECTED = "dataRejected"  # C19-F3  (Lean: trigDataRejected)
TRIG_REQUEST_EXC = "requestExcNotTransport"  # C19-F6  (Lean: Introspect.trigRequestExcUntyped; twin: trig_request_exc_untyped)
TRIG_DEPRECATED = "deprecatedInputValue"  # C19-F4  (Lean: trigDeprecatedInput)
TRIG_REPEATABLE = "repeatableDirective"  # C19-F5  (no model: graphql-core validation)


def _schema_mod() -> Any:
    return importlib.import_module("ariadne_codegen.schema")


# --------------------------------------------------------------------------------------------
# httpx at transport level (catches httpx.post / httpx.request / httpx.Client alike)
# --------------------------------------------------------------------------------------------


@contextlib.contextmanager
def patched_httpx(handler: Callable[[Any], Any]) -> Iterator[Dict[str, Any]]:
    """Every `httpx.Client` created inside gets a fake default transport that records the `verify` argument and
    answers with `handler(request)` (which may raise)."""
    import httpx
    from httpx import _client

    rec: Dict[str, Any] = {"verify": [], "requests": []}

    class FakeTransport(httpx.BaseTransport):
        def __init__(self, verify: Any = True, **kwargs: Any) -> None:
            rec["verify"].append(verify)

        def handle_request(self, request: Any) -> Any:
            request.read()
            rec["requests"].append(request)
            return handler(request)

    old = _client.HTTPTransport
    _client.HTTPTransport = FakeTransport  # type: ignore
    try:
        with no_proxy_env():
            yield rec
    finally:
        _client.HTTPTransport = old  # type: ignore


@contextlib.contextmanager
def no_proxy_env() -> Iterator[None]:
    saved_env = {k: os.environ.pop(k) for k in list(os.environ) if k.lower() in ("http_proxy", "https_proxy", "all_proxy")}
    try:
        yield
    finally:
        os.environ.update(saved_env)


def graphql_server(sdl: str) -> Callable[[Any], Any]:
    """a spec-conformant endpoint: executes whatever query arrives with graphql-core on `sdl`"""
    import httpx
    from graphql import build_schema, graphql_sync

    server_schema = build_schema(sdl)

    def handler(request: Any) -> Any:
        body = json.loads(request.content)
        res = graphql_sync(server_schema, body["query"], variable_values=body.get("variables"))
        payload: Dict[str, Any] = {"data": res.data}
        if res.errors:
            payload["errors"] = [e.formatted for e in res.errors]
        return httpx.Response(200, json=payload)

    return handler


# --------------------------------------------------------------------------------------------
# 1. files: suffixes and directory trees
# --------------------------------------------------------------------------------------------

SUFFIX_NAMES = [
    "schema.graphql", "schema.graphqls", "schema.gql", "schema.GQL", "schema.Graphql", "schema.graphqlx", "schema.gqls",
    "schema.graphql.bak", "schema.bak.graphql", ".graphql", ".gql", "..gql", "a.", "a..", "a.gql.", ".a.gql", "gql", "graphql",
    "a.b.c.graphqls", "README.md", "notes.txt", "a", "", ".", "..", "a b.gql", "ü.graphql", "x.json", "Makefile", "a.g", "a.gq",
    "a.gqll", ".gitignore", "a.graphql~", "#a.gql#", "a.tar.gz", "-.gql", "$.graphqls", "a.gql ", " .gql",
]


def suffix_names(ctx: Ctx) -> List[str]:
    names = list(SUFFIX_NAMES)
    alpha = ["a", ".", "g", "q", "l"]
    n = 5 if not ctx.thorough else 6
    cur = [""]
    for _ in range(n):
        cur = [p + c for p in cur for c in alpha]
        names += cur
    return sorted(set(x for x in names if "/" not in x and x not in ("", ".", "..")))


def check_suffixes(ctx: Ctx, st: Optional[LeanStatus], res: Result) -> None:
    """`Path.suffix` and membership in `extensions`, observed through the real walk_graphql_files on one flat directory."""
    names = suffix_names(ctx)
    root = Path(tempfile.mkdtemp(prefix=engine.SCRATCH_PREFIX, dir=engine.scratch_root()))
    try:
        for n in names:
            (root / n).write_text("x")
        try:
            yielded = {p.name for p in _schema_mod().walk_graphql_files(root)}
        except (AttributeError, ImportError, TypeError) as e:
            res.mismatches.append(Mismatch("suffix", {"names": len(names)}, f"observer: {e!r}", None))
            return
    finally:
        shutil.rmtree(root, ignore_errors=True)
    model = None
    if st is not None and st.driver_ok:
        model = common.run_driver(PROP, [{"op": "suffix", "name": n} for n in names])
    for i, n in enumerate(names):
        impl = {"suffix": PurePosixPath(n).suffix, "graphql": n in yielded}
        res.seen(["suffix", n], nontrivial="." in n)
        res.count("suffix:" + ("graphql" if impl["graphql"] else "ignored"))
        if model is not None and not common.same_json(impl, model[i]):
            res.mismatches.append(Mismatch("suffix", {"name": n}, impl, model[i]))
        # oracle: exactly the three documented suffixes are picked up
        want = any(n.endswith(e) and len(n) > len(e) and not n[: -len(e)].endswith("/") for e in (".graphql", ".graphqls", ".gql"))
        if impl["graphql"] != want:
            res.failures.append(Failure("suffix-selection", None, {"kind": "suffix", "name": n}, f"walk_graphql_files yields={impl['graphql']} documented={want}"))


FILE_STEMS = ["schema", "a", "b", "types", "inputs", "Z", "_x", "10", "2", "9", "a.b", "query.types", ".hidden", "sch ema", "ü", "A", "aa", "a-b"]
EXTS_OK = [".graphql", ".graphqls", ".gql"]
EXTS_IGNORED = [".txt", ".md", ".graphql.bak", ".GQL", ".Graphql", "", ".graphqlx", ".gqls", ".json", ".", ".gql~"]
DIR_NAMES = ["sub", "a", "b", "nested", "Z", "10", "9", "a.b", ".git", "sub dir", "types", "A", "aa", "a-b", "a.graphql.d"]
DEF_TEMPLATES = [
    "type T{i} {{ x: Int }}",
    "type T{i} {{\n  x: Int\n  y: [String!]!\n}}\n",
    '"""description of T{i}"""\ntype T{i} {{ x: Int }}',
    "enum T{i} {{ A B }}",
    "input T{i} {{ x: Int = 5 }}",
    "scalar T{i}",
    "interface T{i} {{ id: ID }}",
    "type T{i} {{ x: Int }} # trailing comment without newline",
    "﻿type T{i} {{ x: Int }}",
    "type T{i} {{ x: Int }}\r\n",
    "type T{i}",
    "# leading comment\n\ntype T{i} {{ x: Int }}\n\n\n",
]
BAD_TEXTS = ["", "type {", "# only a comment\n", "type T { x: }", "{{", "\"\"\"unterminated", "query {"]


def parsed_ids(text: str) -> Optional[List[int]]:
    """what graphql-core's `parse` makes of one file's text: the model's abstraction of a file"""
    from graphql import GraphQLSyntaxError, parse

    try:
        return def_ids(parse(text))
    except GraphQLSyntaxError:
        return None


def gen_tree(rng: random.Random, counter: List[int], depth: int = 0) -> List[Dict[str, Any]]:
    """children of one directory; every node carries what is written to disk"""
    kids: List[Dict[str, Any]] = []
    used: set = set()
    n = rng.choice([0, 1, 1, 2, 2, 3, 4]) if depth else rng.choice([1, 2, 3, 4, 5])
    for _ in range(n):
        r = rng.random()
        if r < 0.28 and depth < 3:
            name = rng.choice(DIR_NAMES) if rng.random() > 0.04 else rng.choice(["x.gql", "d.graphql"])
            if name in used:
                continue
            used.add(name)
            kids.append({"d": name, "k": gen_tree(rng, counter, depth + 1)})
            continue
        if r < 0.8:
            name = rng.choice(FILE_STEMS) + rng.choice(EXTS_OK)
            if name in used:
                continue
            used.add(name)
            if rng.random() < 0.05:
                kids.append({"f": name, "c": None, "text": rng.choice(BAD_TEXTS)})
            else:
                ids, parts = [], []
                for _ in range(rng.choice([1, 1, 2, 3])):
                    counter[0] += 1
                    ids.append(counter[0])
                    parts.append(rng.choice(DEF_TEMPLATES).format(i=counter[0]))
                text = rng.choice(["\n", "\n\n", " "]).join(parts)
                kids.append({"f": name, "c": parsed_ids(text), "text": text})
        else:
            name = rng.choice(FILE_STEMS) + rng.choice(EXTS_IGNORED)
            if name in used or name in ("", ".", ".."):
                continue
            used.add(name)
            kids.append({"f": name, "c": None, "text": rng.choice(["garbage {", "type T0 { x: Int }", ""])})
    return kids


def strip_tree(kids: List[Dict[str, Any]]) -> List[Dict[str, Any]]:
    return [{"f": k["f"], "c": k["c"]} if "f" in k else {"d": k["d"], "k": strip_tree(k["k"])} for k in kids]


def flatten_tree(kids: List[Dict[str, Any]], pre: Tuple[str, ...] = ()) -> List[Tuple[Tuple[str, ...], Optional[str]]]:
    out: List[Tuple[Tuple[str, ...], Optional[str]]] = []
    for k in kids:
        if "f" in k:
            out.append((pre + (k["f"],), k["text"]))
        else:
            out.append((pre + (k["d"],), None))
            out += flatten_tree(k["k"], pre + (k["d"],))
    return out


def write_tree(root: Path, kids: List[Dict[str, Any]], rng: random.Random) -> None:
    """create the entries in a shuffled order (directory enumeration order must not matter)"""
    entries = flatten_tree(kids)
    rng.shuffle(entries)
    for parts, text in entries:
        p = root.joinpath(*parts)
        if text is None:
            p.mkdir(parents=True, exist_ok=True)
        else:
            p.parent.mkdir(parents=True, exist_ok=True)
            p.write_text(text, encoding="utf-8", newline="")


def def_ids(doc: Any) -> List[int]:
    out = []
    for d in doc.definitions:
        name = getattr(getattr(d, "name", None), "value", "") or ""
        m = re.fullmatch(r"T(\d+)", name)
        out.append(int(m.group(1)) if m else 0)
    return out


def observe_load(root: Path, target: Path) -> Dict[str, Any]:
    """the REAL load_graphql_files_from_path + parse, and get_graphql_schema_from_path, canonicalised"""
    from graphql import GraphQLSyntaxError, parse

    S = _schema_mod()
    from ariadne_codegen.exceptions import InvalidGraphqlSyntax

    def rel(p: str) -> List[str]:
        try:
            return list(Path(p).resolve().relative_to(root.resolve()).parts)
        except ValueError:
            return ["<outside>", p]

    def run(fn: Callable[[], Any]) -> Dict[str, Any]:
        try:
            return {"o": "ok", "value": fn()}
        except InvalidGraphqlSyntax as e:
            m = re.match(r"Invalid graphql syntax in file (.*)$", str(e), re.S)
            return {"o": "refused", "err": "InvalidGraphqlSyntax", "path": rel(m.group(1)) if m else ["<no path in message>"]}
        except IsADirectoryError as e:
            return {"o": "refused", "err": "IsADirectoryError", "path": rel(str(e.filename))}
        except GraphQLSyntaxError:
            return {"o": "syntax"}
        except Exception as e:  # noqa: BLE001
            return {"o": "internal", "exc": type(e).__name__}

    a = run(lambda: S.load_graphql_files_from_path(target))
    if a["o"] == "ok":
        text = a.pop("value")
        try:
            a = {"o": "document", "defs": def_ids(parse(text))}
        except GraphQLSyntaxError:
            a = {"o": "empty"} if text.strip() == "" else {"o": "joined-text-unparseable"}
    b = run(lambda: S.get_graphql_schema_from_path(str(target)))
    if b["o"] == "ok":
        sch = b.pop("value")
        b = {"o": "document", "types": sorted(int(n[1:]) for n in sch.type_map if re.fullmatch(r"T\d+", n))}
    elif b["o"] == "syntax":
        b = {"o": "empty"}
    if target.is_file():  # the model names the file itself by the empty path
        for o in (a, b):
            if o.get("path") is not None:
                o["path"] = []
    return {"load": a, "schema": b}


def check_trees(ctx: Ctx, st: Optional[LeanStatus], res: Result, n: int) -> None:
    rng = ctx.sub_rng("trees")
    lines: List[Dict[str, Any]] = []
    obs: List[Dict[str, Any]] = []
    metas: List[Dict[str, Any]] = []
    counter = [0]
    base = Path(tempfile.mkdtemp(prefix=engine.SCRATCH_PREFIX, dir=engine.scratch_root()))
    try:
        for case in range(n):
            kids = gen_tree(rng, counter)
            root = base / f"t{case}"
            root.mkdir()
            write_tree(root, kids, rng)
            single = None
            if rng.random() < 0.12:
                files = [(p, t) for p, t in flatten_tree(kids) if t is not None]
                if files:
                    single = rng.choice(files)[0]
            try:
                if single is None:
                    o = observe_load(root, root)
                    src: Dict[str, Any] = {"dir": strip_tree(kids)}
                else:
                    o = observe_load(root, root.joinpath(*single))
                    node = kids
                    cur: Any = None
                    for part in single:
                        cur = next(k for k in node if k.get("f") == part or k.get("d") == part)
                        node = cur.get("k", [])
                    good = cur["c"] is not None and PurePosixPath(cur["f"]).suffix in EXTS_OK
                    if not good:  # an ignored file read directly: what matters is whether its text parses
                        from graphql import GraphQLSyntaxError, parse

                        try:
                            ids = def_ids(parse(cur["text"]))
                        except GraphQLSyntaxError:
                            ids = None
                        src = {"file": ids}
                    else:
                        src = {"file": cur["c"]}
            except (AttributeError, ImportError, TypeError) as e:
                res.mismatches.append(Mismatch("load", {"tree": strip_tree(kids)}, f"observer: {e!r}", None))
                continue
            lines.append({"op": "load", "src": src})
            obs.append(o)
            metas.append({"tree": strip_tree(kids), "single": list(single) if single else None})
            shutil.rmtree(root, ignore_errors=True)
    finally:
        shutil.rmtree(base, ignore_errors=True)
    model = common.run_driver(PROP, lines) if (st is not None and st.driver_ok and lines) else None
    for i, o in enumerate(obs):
        load = o["load"]
        res.seen(["tree", metas[i]], nontrivial=load["o"] == "document" and len(load.get("defs", [])) > 1)
        res.count("load:" + load["o"] + (":" + load.get("err", "") if load["o"] == "refused" else ""))
        if metas[i]["single"]:
            res.count("load:single-file")
        if model is not None:
            m = model[i]
            if not common.same_json(load, m):
                res.mismatches.append(Mismatch("load", metas[i], load, m))
            want_schema = {"o": "document", "types": sorted(m["defs"])} if m["o"] == "document" else m
            if not common.same_json(o["schema"], want_schema):
                res.mismatches.append(Mismatch("schemaFromPath", metas[i], o["schema"], want_schema))
        if i < 2:
            res.sample({"observation": "load", "input": metas[i], "impl": load, "model": model[i] if model else None})


# --------------------------------------------------------------------------------------------
# 1b. the text level: graphql-core's lexer (Spec/GqlLexer.lean) and the separator of the joined text
# --------------------------------------------------------------------------------------------

LEX_ALPHABET = list('"\\u{}09afADFdeE.-+#\n\r\t ,_:!$&()=@[]|xyz\'%/bn') + ["\ufeff", "é", "😀", "\x00", "\x7f"]
LEX_FRAGMENTS = ['"""', '""', '"', '\\"""', '\\"', '\\\\', '\\u', '\\u{', '}', 'D83D', '\\uD83D\\uDE00', '\\uD83D', '\\uDE00', '\\u00e9', '\\u00E', '\\uD83D\\u00e9',
                 '\\u{1F600}', '\\u{110000}', '\\u{}', '\\u{D800}', '\\u{000000041}', '\\u{00000041}', '0', '-', '1.5', '1e', 'e+', '-0', '0.0e-1', '12', '-7', '1.5e3', '3E+2', '0e0', '9.99', ' 42 ', '7 ', '...', '..', '.',
                 '#c', '# "', '\n', '\r', '\r\n', 'name', '_x1', '01', '1a', '1.', '.5', '1e5x', ' ', ',', '\\n', '\\q', '\\', 'type', '{', 'x: Int = 5', '\ufeff', "'", '?', 'é']


def real_lex(text: str) -> Dict[str, Any]:
    """graphql-core's Lexer on one text: the tokens the parser sees (kind class, `body[start:end]`), or the exception class"""
    from graphql import GraphQLSyntaxError, Source
    from graphql.language import Lexer, TokenKind

    classes = {TokenKind.NAME: "Name", TokenKind.INT: "Int", TokenKind.FLOAT: "Float", TokenKind.STRING: "String", TokenKind.BLOCK_STRING: "BlockString"}
    lexer = Lexer(Source(text))
    toks: List[List[str]] = []
    try:
        while True:
            t = lexer.advance()  # skips comments, as the parser does
            if t.kind == TokenKind.EOF:
                return {"o": "ok", "toks": toks}
            toks.append([classes.get(t.kind, "punct"), text[t.start:t.end]])
    except GraphQLSyntaxError:
        return {"o": "syntax"}
    except IndexError:
        return {"o": "index"}


def gen_lex_texts(ctx: Ctx, rng: random.Random, n: int) -> List[str]:
    texts = [t.format(i=7) for t in DEF_TEMPLATES] + list(BAD_TEXTS) + LEX_FRAGMENTS
    texts += ['"' + f + '"' for f in LEX_FRAGMENTS] + ['"""' + f + '"""' for f in LEX_FRAGMENTS] + ['"\\u' + h for h in ("", "0", "00", "000", "0000", "Z", "0Z", "00Z", "000Z", "Z0", "Z00", "Z000", "D83D", "D83D\\", "D83D\\u", "D83D\\uDE0", "D83D\\uDE00", "D83D\\uZ", "D83D\\u0041")]
    texts += ['"\\u' + h + '"' for h in ("0041", "D83D\\uDE00", "DE00", "D83D", "D83Dx", "{41}", "{}", "{110000}", "{10FFFF}", "{D800}", "{00000041}", "{000000041}", "{4", "{G}")]
    sdl_pool: List[str] = []
    for _ in range(6):
        schema = schema_gen.gen_schema(rng, size=rng.choice([1, 2]), subscription=False, custom_root_names=0.2)
        decorate_schema(schema, rng, 0.5, 0.1, 0.8)
        sdl_pool += render_defs(schema, True)
    texts += sdl_pool
    while len(texts) < n:
        r = rng.random()
        if r < 0.3:
            texts.append("".join(rng.choice(LEX_ALPHABET) for _ in range(rng.randint(0, 14))))
        elif r < 0.65:
            texts.append("".join(rng.choice(LEX_FRAGMENTS) for _ in range(rng.randint(1, 5))))
        else:
            t = list(rng.choice(sdl_pool))
            for _ in range(rng.choice([1, 1, 2, 3])):
                i = rng.randrange(len(t) + 1)
                op = rng.random()
                if op < 0.4 and i < len(t):
                    del t[i]
                elif op < 0.8:
                    t.insert(i, rng.choice(LEX_ALPHABET))
                elif i < len(t):
                    t[i] = rng.choice(LEX_ALPHABET)
            texts.append("".join(t))
    return texts


def parser_witness() -> Dict[str, Any]:
    """the limit of the token-level assumption `DefinitionWise`: two texts that parse on their own and whose join is ONE
    definition (the second is an executable document, not a type-system one - no split of a schema contains it)"""
    from graphql import parse

    a, b = "type A", "{ x: Int }"
    try:
        return {"texts": [a, b], "definitions": [len(parse(a).definitions), len(parse(b).definitions)],
                "joined_definitions": len(parse(a + "\n" + b).definitions)}
    except Exception as e:  # noqa: BLE001
        return {"texts": [a, b], "error": repr(e)}


def measured_separator() -> Optional[str]:
    """what the REAL load_graphql_files_from_path puts between two files (same measurement as harness/tables_c19.py)"""
    from . import tables_c19

    sep = tables_c19.collect()["schemaJoinSeparator"]
    return None if sep == tables_c19.UNRECOGNISED else sep


def check_lexer(ctx: Ctx, st: Optional[LeanStatus], res: Result, n: int) -> None:
    """Spec/GqlLexer.lean vs graphql-core's Lexer, text by text; and the law the join theorem states, on the real lexer:
    for texts that lex on their own, the tokens of `sep.join(texts)` are the tokens of the parts, in order"""
    rng = ctx.sub_rng("lexer")
    texts = gen_lex_texts(ctx, rng, n)
    try:
        obs = [real_lex(t) for t in texts]
        sep = measured_separator()
    except (AttributeError, ImportError, TypeError) as e:
        res.mismatches.append(Mismatch("lex", {"stage": "observer"}, f"observer: {e!r}", None))
        return
    good = [t for t, o in zip(texts, obs) if o["o"] == "ok"]
    joins: List[Dict[str, Any]] = []
    for _ in range(max(50, n // 4)):
        parts = [rng.choice(good) for _ in range(rng.choice([2, 2, 3, 4]))]
        joins.append({"texts": parts, "sep": rng.choice(["\n", "\n", "\n", "", " ", "\r\n", "\n\n", ",", "\t"])})
    if sep is not None:
        joins += [{"texts": [rng.choice(good) for _ in range(rng.choice([2, 3]))], "sep": None} for _ in range(max(50, n // 4))]
    lines = [{"op": "lex", "text": t} for t in texts]
    lines += [{"op": "lex", "texts": j["texts"], **({"sep": j["sep"]} if j["sep"] is not None else {})} for j in joins]
    model = common.run_driver(PROP, lines) if (st is not None and st.driver_ok) else None
    for i, (t, o) in enumerate(zip(texts, obs)):
        res.seen(["lex", t], nontrivial=len(t) > 1)
        res.count("lex:" + o["o"])
        for k, _ in (o.get("toks") or []):
            res.count("lex:token:" + k)
        if model is not None and not common.same_json(o, model[i]):
            res.mismatches.append(Mismatch("lex", {"text": t}, o, model[i]))
    if len(texts) and len(res.samples) < 12:
        res.sample({"observation": "lex", "input": texts[0], "impl": obs[0], "model": model[0] if model else None})
    for k, j in enumerate(joins):
        used = j["sep"] if j["sep"] is not None else sep
        o = real_lex(used.join(j["texts"]))
        parts_toks = [tok for t in j["texts"] for tok in real_lex(t)["toks"]]
        concat = o["o"] == "ok" and o["toks"] == parts_toks
        res.seen(["lex-join", j], nontrivial=True)
        res.count("lex-join:sep=" + json.dumps(used) + (":concat" if concat else ":differs"))
        if model is not None and not common.same_json(o, model[len(texts) + k]):
            res.mismatches.append(Mismatch("lex-join", j, o, model[len(texts) + k]))
        if not concat and (used[:1] in ("\n", "\r") and all(c in " \t,\ufeff\n\r" for c in used)):
            # the law the theorem `lex_join` states (a separator that starts with a line terminator and is made of ignored
            # characters), violated by the real lexer: the lexer model is wrong, whatever the driver says
            res.mismatches.append(Mismatch("lex-join-law", j, o, {"o": "ok", "toks": parts_toks}))


# --------------------------------------------------------------------------------------------
# 2. remote: the decision chain of introspect_remote_schema / get_graphql_schema_from_url
# --------------------------------------------------------------------------------------------

STATUSES = [100, 101, 199, 200, 201, 204, 226, 299, 300, 301, 302, 304, 307, 399, 400, 401, 403, 404, 418, 500, 502, 503, 599]
TINY_SDL = "type Query { a(i: In): Int }\ninput In { x: Int = 5 }\nenum E { A }"
ERR = {"message": "boom", "locations": [{"line": 1, "column": 2}]}

_VALID_CACHE: Dict[str, Any] = {}


def valid_data() -> Dict[str, Any]:
    if "d" not in _VALID_CACHE:
        from graphql import build_schema, get_introspection_query, graphql_sync

        _VALID_CACHE["d"] = graphql_sync(build_schema(TINY_SDL), get_introspection_query(descriptions=False)).data
    return json.loads(json.dumps(_VALID_CACHE["d"]))


def body_table() -> List[Tuple[str, bytes, bool]]:
    """(label, raw body, judged): judged=False marks shapes outside the property's claim (a non-list `errors`
    member) - compared with the model, never judged by the oracle."""
    v = valid_data()
    J = lambda x: json.dumps(x).encode()  # noqa: E731
    return [
        ("empty", b"", True),
        ("not-json", b"<html>502 Bad Gateway</html>", True),
        ("bad-utf8", b"\xff\xfe{}", True),
        ("truncated", b'{"data": {"__schema"', True),
        ("json-null", b"null", True),
        ("json-true", b"true", True),
        ("json-number", b"12", True),
        ("json-string", b'"data"', True),
        ("json-array-empty", b"[]", True),
        ("json-array", J([{"data": v}]), True),
        ("empty-object", b"{}", True),
        ("errors-only", J({"errors": [ERR]}), True),
        ("extensions-only", J({"extensions": {"a": 1}, "Data": v}), True),
        ("data-null", J({"data": None}), True),
        ("data-null-with-errors", J({"data": None, "errors": [ERR]}), True),
        ("data-list", J({"data": [v]}), True),
        ("data-string", J({"data": "x"}), True),
        ("data-number", J({"data": 0}), True),
        ("data-false", J({"data": False}), True),
        ("data-empty-object", J({"data": {}}), True),
        ("data-other-keys", J({"data": {"schema": v["__schema"]}}), True),
        ("data-schema-null", J({"data": {"__schema": None}}), True),
        ("data-schema-list", J({"data": {"__schema": [1]}}), True),
        ("data-schema-string", J({"data": {"__schema": "x"}}), True),
        ("data-schema-empty", J({"data": {"__schema": {}}}), True),
        ("data-schema-no-types", J({"data": {"__schema": {"queryType": {"name": "Query"}}}}), True),
        ("data-schema-types-null", J({"data": {"__schema": {"types": None}}}), True),
        ("data-schema-types-number", J({"data": {"__schema": {"types": 3}}}), True),
        ("data-schema-types-string", J({"data": {"__schema": {"types": "abc"}}}), True),
        ("data-schema-types-object", J({"data": {"__schema": {"types": {"a": 1}}}}), True),
        ("data-schema-types-empty", J({"data": {"__schema": {"types": []}}}), True),
        ("data-schema-types-bad-item", J({"data": {"__schema": {"types": [{}]}}}), True),
        ("data-schema-types-no-kind", J({"data": {"__schema": {"types": [{"name": "X"}]}}}), True),
        ("valid", J({"data": v}), True),
        ("valid-extensions", J({"data": v, "extensions": {"t": 1}}), True),
        ("valid-errors-empty", J({"data": v, "errors": []}), True),
        ("valid-errors-null", J({"data": v, "errors": None}), True),
        ("valid-with-errors", J({"data": v, "errors": [ERR]}), True),
        ("valid-with-many-errors", J({"errors": [ERR, {"message": "2"}], "data": v}), True),
        ("valid-errors-string", J({"data": v, "errors": "oops"}), False),
        ("valid-errors-empty-string", J({"data": v, "errors": ""}), False),
        ("valid-errors-object", J({"data": v, "errors": {"message": "x"}}), False),
        ("valid-errors-empty-object", J({"data": v, "errors": {}}), False),
        ("valid-errors-zero", J({"data": v, "errors": 0}), False),
        ("valid-errors-true", J({"data": v, "errors": True}), False),
    ]


# URLs that httpx itself refuses to parse (httpx.InvalidURL is raised inside httpx.post, before any transport)
UNPARSEABLE_URLS = ["http://a:b/", "http://[::1", "http://\x00", "http://exa\nmple.com/", "http://[zz]/g"]
# URLs that the REAL transport refuses or cannot reach without any network access (region of the repaired finding C19-F2)
UNREACHABLE_URLS = ["example.com/graphql", "ftp://example.com/graphql", "//example.com/graphql", "http://127.0.0.1:1/graphql",
                    "localhost:1/graphql", "ws://127.0.0.1:1/graphql", "/graphql", "graphql", "https://127.0.0.1:1/graphql",
                    "http://[::1]:1/graphql", "HTTP://127.0.0.1:1/graphql", "file:///etc/hostname", "http:///graphql"]
EXC_MESSAGES = ["simulated", "", "[Errno 111] Connection refused", "with {braces} {0} %s %(x)s", "ünï ✓", "line1\nline2", " padded ",
                "Request URL is missing an 'http://' or 'https://' protocol.", "timed out", "x" * 300, "\"quoted\" 'q'", "\\back\\slash"]


def qualname(cls: type) -> str:
    return f"{cls.__module__}.{cls.__qualname__}"


class TransportError(Exception):
    """a foreign class that merely has the NAME of httpx.TransportError (qualified: harness.c19.TransportError): escapes"""


_EXC_TABLE: Dict[str, Any] = {}


def exception_table() -> List[Tuple[str, type, str]]:
    """(label, class, family): every exception class the INSTALLED httpx exports (enumerated, not hard-coded), user-defined
    subclasses (single and multiple inheritance, both clause orders), and foreign exceptions a custom transport may raise.
    family: invalid-url | transport (the region of the repaired finding C19-F2) | request-other (finding C19-F6) | foreign."""
    if "t" in _EXC_TABLE:
        return _EXC_TABLE["t"]
    import httpx

    classes: List[type] = []
    for n in sorted(dir(httpx)):
        v = getattr(httpx, n)
        if isinstance(v, type) and issubclass(v, BaseException):
            classes.append(v)
    custom = [
        type("VerifSlowConnect", (httpx.ConnectTimeout,), {"__module__": "verifapp"}),
        type("VerifUrlAndConnect", (httpx.InvalidURL, httpx.ConnectError), {"__module__": "verifapp"}),
        type("VerifConnectAndUrl", (httpx.ConnectError, httpx.InvalidURL), {"__module__": "verifapp"}),
        type("VerifTransportAndOSError", (httpx.ReadError, ConnectionResetError), {"__module__": "verifapp"}),
        type("VerifDecodingSub", (httpx.DecodingError,), {"__module__": "verifapp"}),
        type("VerifPlainTransport", (httpx.TransportError,), {"__module__": "verifapp"}),
        TransportError,
        OSError, ConnectionRefusedError, TimeoutError, ValueError, RuntimeError, KeyError, LookupError, Exception,
    ]
    table = [(qualname(c), c, exc_family(c)) for c in classes + custom]
    _EXC_TABLE["t"] = table
    return table


def exc_family(cls: type) -> str:
    import httpx

    if issubclass(cls, httpx.InvalidURL):
        return "invalid-url"
    if issubclass(cls, httpx.TransportError):
        return "transport"
    if issubclass(cls, httpx.RequestError):
        return "request-other"
    return "foreign"


def listed_failure_exc(cls: type) -> bool:
    """twin of Lean `Introspect.listedFailureExc`: the exceptions of httpx.post the property lists as introspection failures"""
    import httpx

    return issubclass(cls, (httpx.InvalidURL, httpx.TransportError, httpx.RequestError))


def trig_request_exc_untyped(cls: type) -> bool:
    """twin of Lean `Introspect.trigRequestExcUntyped` (finding C19-F6)"""
    import httpx

    return issubclass(cls, httpx.RequestError) and not issubclass(cls, (httpx.InvalidURL, httpx.TransportError))


def make_exception(cls: type, message: str) -> BaseException:
    import httpx

    try:
        return cls(message)
    except TypeError:
        pass
    try:  # httpx.HTTPStatusError(message, *, request, response)
        req = httpx.Request("POST", "http://verif.test/graphql")
        return cls(message, request=req, response=httpx.Response(500, request=req))
    except TypeError:
        return cls()  # httpx.StreamConsumed() ...: the message is fixed by the class


def classify_url_outcome(fn: Callable[[], Any]) -> Dict[str, Any]:
    from ariadne_codegen.exceptions import IntrospectionError

    try:
        fn()
        return {"o": "schema"}
    except IntrospectionError as e:
        msg = str(e)
        cause = qualname(type(e.__cause__)) if e.__cause__ is not None else None
        if msg.startswith("Invalid remote schema url"):
            return {"o": "introspectionError", "kind": "invalidUrl", "cause": cause}
        m = re.match(r"Failure of remote schema introspection. HTTP status code: (\d+)", msg)
        if m:
            return {"o": "introspectionError", "kind": "httpStatus", "status": int(m.group(1))}
        if msg.startswith("Failure of remote schema introspection: "):
            return {"o": "introspectionError", "kind": "transport", "text": msg[len("Failure of remote schema introspection: "):], "cause": cause}
        if msg.startswith("Introspection result is not a valid json"):
            return {"o": "introspectionError", "kind": "notJson"}
        if msg.startswith("Invalid introspection result format"):
            return {"o": "introspectionError", "kind": "badFormat"}
        if msg.startswith("Introspection errors:"):
            return {"o": "introspectionError", "kind": "errors", "text": msg[len("Introspection errors: "):]}
        if msg.startswith("Invalid data key"):
            return {"o": "introspectionError", "kind": "badData"}
        return {"o": "introspectionError", "kind": "?" + msg[:60]}
    except Exception as e:  # noqa: BLE001
        return {"o": "other", "exc": type(e).__name__, "qual": qualname(type(e)), "msg": str(e)}


def observe_remote(status: Optional[int], content: Optional[bytes], raised: Optional[Callable[[], BaseException]],
                   url: str = "http://verif.test/graphql", extra_headers: Optional[Dict[str, str]] = None) -> Dict[str, Any]:
    """`raised`: factory of the exception the transport raises instead of answering"""
    import httpx

    S = _schema_mod()

    def handler(request: Any) -> Any:
        if raised is not None:
            raise raised()
        # a 3xx answer points somewhere else: httpx.post must not follow it (follow_redirects is off by default)
        headers = {"location": "http://verif.test/elsewhere"} if status is not None and 300 <= status <= 399 else {}
        headers.update(extra_headers or {})
        return httpx.Response(status, content=content, headers=headers or None)

    with patched_httpx(handler) as rec:
        out = classify_url_outcome(lambda: S.get_graphql_schema_from_url(url))
        out["requests"] = len(rec["requests"])
    return out


def is_failure(status: int, ok: bool, body: Any) -> Optional[str]:
    """the property's list of failing introspections, stated independently; returns the class or None"""
    if not (200 <= status <= 299):
        return "non-2xx"
    if not ok:
        return "non-json"
    if not isinstance(body, dict):
        return "not-an-object"
    if "data" not in body:
        return "no-data"
    if isinstance(body.get("errors"), list) and body["errors"]:
        return "errors"
    if not isinstance(body["data"], dict):
        return "data-not-object"
    from graphql import assert_valid_schema, build_client_schema

    try:
        assert_valid_schema(build_client_schema(body["data"], assume_valid=True))
    except Exception:  # noqa: BLE001
        return "malformed-data"
    return None


def model_remote_equal(impl: Dict[str, Any], model: Dict[str, Any], body: Any = None) -> bool:
    if model["o"] == "proceeds":  # below the top of build_client_schema the answer is graphql-core's
        return impl["o"] in ("schema", "other")
    if model["o"] != impl["o"]:
        return False
    if model["o"] == "other":  # builder exceptions by class name, escaping exceptions of httpx.post by qualified name + str()
        if "msg" in model:
            return model["exc"] == impl.get("qual") and model["msg"] == impl.get("msg")
        return model["exc"] == impl["exc"]
    if model["kind"] != impl["kind"]:
        return False
    if model["kind"] == "httpStatus":
        return model["status"] == impl["status"]
    if model["kind"] == "transport":  # f"Failure of remote schema introspection: {exc}"
        return model["msg"] == impl["text"]
    if model["kind"] == "errors":  # the message is f"Introspection errors: {errors}" of the decoded member
        sent = body.get("errors") if isinstance(body, dict) else None
        return common.same_json(wire.dec(model["errors"]), sent) and impl["text"] == str(sent)
    return True


def check_remote(ctx: Ctx, st: Optional[LeanStatus], res: Result) -> None:
    table = body_table()
    cases: List[Dict[str, Any]] = []
    for label, content, judged in table:
        for status in STATUSES:
            cases.append({"label": label, "status": status, "content": content, "judged": judged})
    rng = ctx.sub_rng("remote")
    for _ in range(ctx.budget(300, 3000)):
        status = rng.choice(STATUSES) if rng.random() < 0.2 else rng.choice([200, 200, 201, 299])
        content = rand_body(rng)
        if rng.random() < 0.3:
            try:
                b = json.loads(content)
                if isinstance(b, dict):
                    b["data"] = rng.choice([valid_data(), {}, {"__schema": {}}, {"__schema": {"types": []}}, None, [], {"__schema": None}])
                    content = json.dumps(b).encode()
            except ValueError:
                pass
        ok, body = _decode(content)
        judged = not (ok and isinstance(body, dict) and "errors" in body and body["errors"] and not isinstance(body["errors"], list))
        cases.append({"label": "random", "status": status, "content": content, "judged": judged})
    lines = []
    for c in cases:
        ok, body = _decode(c["content"])
        c["ok"], c["body"] = ok, body
        line: Dict[str, Any] = {"op": "introspect", "status": c["status"]}
        if ok:
            line["body"] = wire.enc(body)
        lines.append(line)
    raised_cases = gen_raised_cases(ctx, rng)
    lines += [{"op": "introspect", "raised": {"mro": r["mro"], "msg": r["msg"]}} for r in raised_cases]
    url_cases = [{"url": u} for u in UNPARSEABLE_URLS]
    import httpx

    invalid_url_mro = [qualname(c) for c in httpx.InvalidURL.__mro__]
    lines += [{"op": "introspect", "raised": {"mro": invalid_url_mro, "msg": ""}} for _ in url_cases]
    model = common.run_driver(PROP, lines) if (st is not None and st.driver_ok) else None

    def judge(i: int, inp: Dict[str, Any], impl: Dict[str, Any], failure_class: Optional[str], judged: bool, trigger: Optional[str]) -> None:
        if model is not None and not model_remote_equal(impl, model[i], inp.get("_body")):
            res.mismatches.append(Mismatch("introspect", {k: v for k, v in inp.items() if k != "_body"}, impl, model[i]))
        if not judged:
            return
        if failure_class is not None:
            if impl["o"] == "schema":
                res.failures.append(Failure("failed-introspection-accepted", None, inp, f"{failure_class}: a schema was returned"))
            elif impl["o"] == "other":
                if failure_class.startswith("raised:"):
                    sig = "untyped-request-exception" if trigger == TRIG_REQUEST_EXC else "untyped-transport-exception"
                else:
                    sig = "untyped-builder-exception"
                res.failures.append(Failure(sig, trigger, inp, f"{failure_class}: {impl['exc']} escapes instead of IntrospectionError"))
        elif impl["o"] != "schema":
            res.failures.append(Failure("valid-introspection-refused", None, inp, json.dumps(impl)[:200]))

    try:
        for i, c in enumerate(cases):
            impl = observe_remote(c["status"], c["content"], None)
            fc = is_failure(c["status"], c["ok"], c["body"])
            inp = {"kind": "remote", "status": c["status"], "body_latin1": c["content"].decode("latin1"), "_body": c["body"]}
            trig = TRIG_REJECTED if fc == "malformed-data" else None
            judge(i, inp, impl, fc, c["judged"], trig)
            inp.pop("_body")
            res.seen(["remote", c["status"], c["content"].decode("latin1")], nontrivial=c["label"] != "random" or (200 <= c["status"] <= 299 and c["ok"] and isinstance(c["body"], dict)))
            res.count("remote:body:" + c["label"])
            res.count("remote:outcome:" + impl["o"] + (":" + impl.get("kind", impl.get("exc", "")) if impl["o"] != "schema" else ""))
            if fc:
                res.count("remote:failure-class:" + fc)
            if impl.get("requests") != 1:
                res.failures.append(Failure("request-count", None, inp, f"{impl.get('requests')} requests were sent (redirects followed / retried?)"))
            if c["label"] in ("valid", "data-empty-object", "not-json") and c["status"] in (200, 503) and len(res.samples) < 6:
                res.sample({"observation": "introspect", "input": {"status": c["status"], "body": c["label"]}, "impl": impl, "model": model[i] if model else None})
        base = len(cases)
        sampled = set()
        for j, r in enumerate(raised_cases):
            cls = r["cls"]
            impl = observe_remote(None, None, lambda: make_exception(cls, r["msg_arg"]))
            inp = {"kind": "remote-raised", "raised": r["label"], "message": r["msg_arg"]}
            listed = listed_failure_exc(cls)
            trig = TRIG_REQUEST_EXC if trig_request_exc_untyped(cls) else None
            judge(base + j, inp, impl, ("raised:" + r["label"]) if listed else None, listed, trig)
            if model is not None and (model[base + j].get("listed") is not listed or model[base + j].get("trigRequestExcUntyped") is not (trig is not None)):
                res.mismatches.append(Mismatch("introspect-trigger", inp, {"listed": listed, "trigRequestExcUntyped": trig is not None},
                                               {k: model[base + j].get(k) for k in ("listed", "trigRequestExcUntyped")}))
            if impl["o"] == "introspectionError" and impl.get("cause") != r["label"]:
                res.mismatches.append(Mismatch("introspect-cause", inp, impl, {"cause": r["label"]}))
            res.seen(["raised", r["label"], r["msg_arg"]], nontrivial=r["family"] != "foreign")
            res.count("remote:raised:family:" + r["family"])
            res.count("remote:raised:outcome:" + r["family"] + ":" + impl["o"] + (":" + impl.get("kind", "") if impl["o"] == "introspectionError" else ""))
            if r["family"] not in sampled and len(res.samples) < 12:
                sampled.add(r["family"])
                res.sample({"observation": "introspect", "input": inp, "impl": impl, "model": model[base + j] if model else None})
        res.extra["raised_cases"] = len(raised_cases)
        res.extra["raised_cases_in_repaired_F2_region"] = sum(1 for r in raised_cases if r["family"] == "transport")
        res.extra["httpx_transport_error_classes"] = sorted({r["label"] for r in raised_cases if r["family"] == "transport" and r["label"].startswith("httpx.")})
        base += len(raised_cases)
        for j, u in enumerate(url_cases):
            impl = observe_remote(200, json.dumps({"data": valid_data()}).encode(), None, url=u["url"])
            inp = {"kind": "remote-url", "url": u["url"]}
            impl.pop("requests", None)
            judge(base + j, inp, {**impl, "requests": 0}, "bad-url", True, None)
            res.seen(["url", u["url"]])
            res.count("remote:unparseable-url:" + impl["o"])
    except (AttributeError, ImportError, TypeError) as e:
        res.mismatches.append(Mismatch("introspect", {"stage": "observer"}, f"observer: {e!r}", None))


def gen_raised_cases(ctx: Ctx, rng: random.Random) -> List[Dict[str, Any]]:
    """every class of `exception_table()` once with a plain message, then random (class, message) pairs weighted towards
    the TransportError family - the region of the repaired finding C19-F2, where the property is claimed now"""
    table = exception_table()
    by_family: Dict[str, List[Tuple[str, type, str]]] = {}
    for row in table:
        by_family.setdefault(row[2], []).append(row)
    picks: List[Tuple[Tuple[str, type, str], str]] = [(row, "simulated") for row in table]
    weights = [("transport", 0.6), ("invalid-url", 0.1), ("request-other", 0.12), ("foreign", 0.18)]
    for _ in range(ctx.budget(120, 1500)):
        x, fam = rng.random(), "transport"
        for name, w in weights:
            if x < w:
                fam = name
                break
            x -= w
        picks.append((rng.choice(by_family.get(fam) or table), rng.choice(EXC_MESSAGES)))
    out = []
    for (label, cls, family), msg in picks:
        exc = make_exception(cls, msg)
        out.append({"label": label, "cls": cls, "family": family, "msg_arg": msg, "msg": str(exc), "mro": [qualname(c) for c in cls.__mro__]})
    return out


def rand_json(rng: random.Random, depth: int = 0) -> Any:
    r = rng.random()
    if depth > 3 or r < 0.45:
        return rng.choice([None, True, False, 0, 1, -3, 2.5, 0.0, "", "x", "data", "errors", 10**20])
    if r < 0.7:
        return [rand_json(rng, depth + 1) for _ in range(rng.randint(0, 3))]
    return {rng.choice(["a", "b", "message", "path", "data", "errors", "locations", "extensions"]): rand_json(rng, depth + 1)
            for _ in range(rng.randint(0, 3))}


def rand_error(rng: random.Random, shaped: bool) -> Any:
    if not shaped and rng.random() < 0.6:
        return rng.choice([None, "x", 1, [], {}, {"msg": 1}, True])
    e: Dict[str, Any] = {}
    keys = ["message", "locations", "path", "extensions", "extra"]
    rng.shuffle(keys)
    for k in keys:
        if k == "message" or rng.random() < 0.5:
            e[k] = rand_json(rng, 2) if k != "message" or rng.random() < 0.3 else rng.choice(["m", "", "e2"])
    return e


def rand_body(rng: random.Random) -> bytes:
    """random response bodies of the shape family the decision chain looks at (data / errors members); kept here so that
    this check does not move when another property's generators do"""
    r = rng.random()
    if r < 0.08:
        return rng.choice([b"", b"x", b"{", b"nul", b"[1,", b"\xc3\x28"])
    if r < 0.2:
        return json.dumps(rand_json(rng)).encode()
    body: Dict[str, Any] = {}
    members = ["data", "errors", "extensions", "other"]
    rng.shuffle(members)
    for m in members:
        p = rng.random()
        if m == "data" and p < 0.7:
            body["data"] = rand_json(rng, 1)
        elif m == "errors" and p < 0.7:
            q = rng.random()
            if q < 0.15:
                body["errors"] = []
            elif q < 0.8:
                body["errors"] = [rand_error(rng, True) for _ in range(rng.randint(1, 4))]
            elif q < 0.9:
                body["errors"] = [rand_error(rng, False) for _ in range(rng.randint(1, 3))]
            else:
                body["errors"] = rand_json(rng, 2)
        elif m in ("extensions", "other") and p < 0.3:
            body[m] = rand_json(rng, 2)
    return json.dumps(body).encode()


def _decode(content: bytes) -> Tuple[bool, Any]:
    try:
        return True, json.loads(content)
    except ValueError:
        return False, None


def judge_real_transport(inp: Dict[str, Any], impl: Dict[str, Any], res: Result, expect: str = "failure") -> None:
    """oracle for one exchange over the REAL httpx transport. expect: failure (must be an IntrospectionError) | schema"""
    if expect == "schema":
        if impl["o"] != "schema":
            res.failures.append(Failure("valid-introspection-refused", None, inp, json.dumps(impl)[:200]))
        return
    if impl["o"] == "schema":
        res.failures.append(Failure("failed-introspection-accepted", None, inp, "a schema was returned"))
    elif impl["o"] == "other":
        import httpx

        cls = getattr(httpx, impl["exc"], None) if impl.get("qual", "").startswith("httpx.") else None
        if cls is not None and trig_request_exc_untyped(cls):
            res.failures.append(Failure("untyped-request-exception", TRIG_REQUEST_EXC, inp, f"{impl['qual']} escapes instead of IntrospectionError: {impl.get('msg', '')[:120]}"))
        else:  # the repaired finding C19-F2 is back (or something new escapes): no trigger
            res.failures.append(Failure("untyped-transport-exception", None, inp, f"{impl.get('qual', impl['exc'])} escapes instead of IntrospectionError: {impl.get('msg', '')[:120]}"))


def observe_real_url(url: str) -> Dict[str, Any]:
    S = _schema_mod()
    with no_proxy_env():
        return classify_url_outcome(lambda: S.get_graphql_schema_from_url(url))


LOOPBACK_BEHAVIOURS = ["close", "garbage", "truncated-body", "bad-gzip", "bad-deflate", "half-status-line", "status-503", "valid"]


def loopback_response(behaviour: str) -> bytes:
    def http(status: str, body: bytes, extra: str = "", length: Optional[int] = None) -> bytes:
        n = len(body) if length is None else length
        return (f"HTTP/1.1 {status}\r\ncontent-type: application/json\r\n{extra}content-length: {n}\r\nconnection: close\r\n\r\n").encode() + body

    ok = json.dumps({"data": valid_data()}).encode()
    return {
        "close": b"",
        "garbage": b"\x00\x01 THIS IS NOT HTTP\r\n\r\n",
        "half-status-line": b"HTTP/1.1 2",
        "truncated-body": http("200 OK", ok[:20], length=len(ok)),
        "bad-gzip": http("200 OK", b"this is not gzip", "content-encoding: gzip\r\n"),
        "bad-deflate": http("200 OK", b"\xff\xff not deflate either", "content-encoding: deflate\r\n"),
        "status-503": http("503 Service Unavailable", b"{}"),
        "valid": http("200 OK", ok),
    }[behaviour]


@contextlib.contextmanager
def loopback_server(behaviour: str) -> Iterator[str]:
    """one-shot HTTP/1.1 endpoint on 127.0.0.1 (ephemeral port): reads one request, answers with `loopback_response`, closes"""
    import socket
    import threading

    payload = loopback_response(behaviour)
    srv = socket.socket(socket.AF_INET, socket.SOCK_STREAM)
    srv.bind(("127.0.0.1", 0))
    srv.listen(4)
    srv.settimeout(10)

    def serve() -> None:
        try:
            conn, _ = srv.accept()
        except OSError:
            return
        with conn:
            conn.settimeout(10)
            try:
                buf = b""
                while b"\r\n\r\n" not in buf:
                    chunk = conn.recv(65536)
                    if not chunk:
                        break
                    buf += chunk
                head, _, rest = buf.partition(b"\r\n\r\n")
                m = re.search(rb"content-length:\s*(\d+)", head, re.I)
                need = int(m.group(1)) if m else 0
                while len(rest) < need:
                    chunk = conn.recv(65536)
                    if not chunk:
                        break
                    rest += chunk
                if payload:
                    conn.sendall(payload)
            except OSError:
                pass

    t = threading.Thread(target=serve, daemon=True)
    t.start()
    try:
        yield f"http://127.0.0.1:{srv.getsockname()[1]}/graphql"
    finally:
        srv.close()
        t.join(10)


def observe_loopback(behaviour: str) -> Dict[str, Any]:
    with loopback_server(behaviour) as url:
        return observe_real_url(url)


def check_real_transport(res: Result) -> None:
    """the REAL httpx transport, no patch, no network: URLs it refuses or cannot reach (region of the repaired finding C19-F2:
    every one must come out as IntrospectionError now) and a loopback endpoint that misbehaves in each way a transport can see"""
    try:
        for u in UNREACHABLE_URLS:
            impl = observe_real_url(u)
            res.count("remote:real-url:" + impl["o"] + ":" + (impl.get("cause") or impl.get("qual") or impl.get("kind", "")))
            res.seen(["unreachable", u])
            judge_real_transport({"kind": "remote-url-real", "url": u}, impl, res)
        for bh in LOOPBACK_BEHAVIOURS:
            impl = observe_loopback(bh)
            res.count("remote:loopback:" + bh + ":" + impl["o"] + ":" + (impl.get("cause") or impl.get("qual") or impl.get("kind", "")))
            res.seen(["loopback", bh])
            judge_real_transport({"kind": "remote-loopback", "behaviour": bh}, impl, res, expect="schema" if bh == "valid" else "failure")
    except (AttributeError, ImportError, TypeError) as e:
        res.mismatches.append(Mismatch("introspect", {"stage": "real-transport observer"}, f"observer: {e!r}", None))


# --------------------------------------------------------------------------------------------
# 3. settings: which source is used and what is sent
# --------------------------------------------------------------------------------------------

ENV_VALUES = {"VERIF_C19_TOKEN": "secret-1", "VERIF_C19_EMPTY": "", "VERIF_C19_B": "b val", "VERIF_C19_DOLLAR": "$x",
              # values a SECOND get_header_value would not leave alone (Lean: startsWithDollar): a crypt-style secret,
              # the name of another variable, a self-referential value (the one fixed point that starts with `$`)
              "VERIF_C19_CRYPT": "$2y$10$N9qo8uLOickgx2ZMRZoMye", "VERIF_C19_CHAIN": "$VERIF_C19_TOKEN", "VERIF_C19_SELF": "$VERIF_C19_SELF"}
# variables that must NOT exist while a case runs (names a second resolution of the values above would look up)
ENV_ABSENT = ["VERIF_C19_UNSET", "x", "2y$10$N9qo8uLOickgx2ZMRZoMye"]
HEADER_NAMES = ["Authorization", "X-Api-Key", "x-lower", "Accept-Language", "X-Trace"]
HEADER_VALUES = ["Bearer abc", "plain", "", "tok$en", " $VERIF_C19_TOKEN", "Bearer $VERIF_C19_TOKEN", "$VERIF_C19_TOKEN", "$VERIF_C19_B",
                 "$VERIF_C19_DOLLAR", "$VERIF_C19_EMPTY", "$VERIF_C19_UNSET", "$$VERIF_C19_TOKEN", "$", "$$", "$verif_c19_token",
                 "$VERIF_C19_CRYPT", "$VERIF_C19_CHAIN", "$VERIF_C19_SELF"]
STRATEGIES = ["client", "graphqlschema"]


class _Stop(Exception):
    pass


def resolved_value_starts_with_dollar(c: Dict[str, Any]) -> bool:
    """twin of the driver's `resolvedDollar` (Lean `startsWithDollar` on the resolved list): where one resolution and two differ"""
    exp = expected_headers(c)
    return exp is not None and any(v.startswith("$") for _, v in exp)


def gen_source_case(rng: random.Random) -> Dict[str, Any]:
    r = rng.random()
    path_kind = "none" if r < 0.6 else ("bad-file" if r < 0.85 else "missing")
    url = rng.choice(["", "http://verif.test/graphql", "https://api.verif.test/v1/graphql?x=1"]) if rng.random() < 0.85 else ""
    if path_kind == "none" and rng.random() < 0.85:
        url = url or "http://verif.test/graphql"
    headers: List[List[str]] = []
    for name in rng.sample(HEADER_NAMES, rng.choice([0, 1, 1, 2, 3])):
        q = rng.random()
        v = rng.choice(HEADER_VALUES) if q < 0.55 else (rng.choice(HEADER_VALUES[:9]) if q < 0.8 else rng.choice(HEADER_VALUES[-3:] + ["$VERIF_C19_DOLLAR"]))
        headers.append([name, v])
    env = {k: v for k, v in ENV_VALUES.items() if rng.random() < 0.85}
    return {"path_kind": path_kind, "url": url, "headers": headers, "verify": rng.random() < 0.5, "env": env,
            "verify_given": rng.random() < 0.8, "strategy": rng.choice(["client", "client", "client", "graphqlschema"]),
            "repeat": rng.random() < 0.15}


@contextlib.contextmanager
def case_env(env: Dict[str, str]) -> Iterator[None]:
    """exactly the variables of the case (of the ones this check uses) are set while the real code runs"""
    saved = {k: os.environ.get(k) for k in list(ENV_VALUES) + ENV_ABSENT}
    for k in saved:
        os.environ.pop(k, None)
    os.environ.update(env)
    try:
        yield
    finally:
        for k, v in saved.items():
            if v is None:
                os.environ.pop(k, None)
            else:
                os.environ[k] = v


def captured_request(rec: Dict[str, Any], header_names: List[str]) -> Dict[str, Any]:
    req = rec["requests"][0]
    body = json.loads(req.content)
    return {"o": "remote", "url": str(req.url), "headers": [[k, req.headers.get(k)] for k in header_names],
            "verify": rec["verify"][-1] if rec["verify"] else None, "query": body.get("query"),
            "body_keys": sorted(body), "method": req.method, "n_requests": len(rec["requests"])}


def observe_source(case: Dict[str, Any], work: Path) -> Dict[str, Any]:
    """run the REAL main.client / main.graphql_schema up to the first request / first schema file read; with `repeat` the
    same configuration dict is run a second time in the same process (`second` = what that run did)"""
    from ariadne_codegen import main as ac_main
    from ariadne_codegen.exceptions import InvalidConfiguration, InvalidGraphqlSyntax

    bad = work / "bad_schema.graphql"
    bad.write_text("type {")
    q = work / "q.graphql"
    q.write_text("query Q { a }")
    strategy = case.get("strategy", "client")
    schema_path = {"none": "", "bad-file": str(bad), "missing": str(work / "nope.graphql")}[case["path_kind"]]
    cfg: Dict[str, Any] = {"remote_schema_headers": {k: v for k, v in case["headers"]}}
    if strategy == "client":
        cfg.update({"queries_path": str(q), "target_package_path": str(work), "target_package_name": "pkg"})
    else:
        cfg["target_file_path"] = str(work / "schema_out.py")
    if schema_path:
        cfg["schema_path"] = schema_path
    if case["url"]:
        cfg["remote_schema_url"] = case["url"]
    if case["verify_given"]:
        cfg["remote_schema_verify_ssl"] = case["verify"]
    config_dict = {"tool": {"ariadne-codegen": cfg}}
    entry = ac_main.client if strategy == "client" else ac_main.graphql_schema

    def handler(request: Any) -> Any:
        raise _Stop()

    def once() -> Dict[str, Any]:
        out: Dict[str, Any]
        with patched_httpx(handler) as rec, contextlib.redirect_stdout(io.StringIO()):
            try:
                entry(config_dict)
                out = {"o": "completed"}
            except _Stop:
                out = captured_request(rec, [k for k, _ in case["headers"]])
            except InvalidGraphqlSyntax as e:
                m = re.match(r"Invalid graphql syntax in file (.*)$", str(e), re.S)
                out = {"o": "path", "p": m.group(1) if m else "?"}
            except InvalidConfiguration as e:
                msg = str(e)
                m = re.match(r"Environment variable (.*) not found\.$", msg, re.S)
                if m:
                    out = {"o": "err", "kind": "envMissing", "name": m.group(1)}
                elif msg.startswith("Schema source not provided"):
                    out = {"o": "err", "kind": "noSource"}
                elif "doesn't exist" in msg and schema_path and schema_path in msg:
                    out = {"o": "err", "kind": "pathMissing"}
                else:
                    out = {"o": "err", "kind": "?" + msg[:80]}
                out["n_requests"] = len(rec["requests"])
            except Exception as e:  # noqa: BLE001
                out = {"o": "internal", "exc": type(e).__name__, "msg": str(e)[:120]}
        return out

    with case_env(case["env"]):
        out = once()
        if case.get("repeat"):
            out["second"] = once()
    out["_schema_path"] = schema_path
    return out


def expected_headers(c: Dict[str, Any]) -> Optional[List[Tuple[str, str]]]:
    """The property's last sentence read directly off the configuration: what each configured header must be sent as.
    None = the configuration is outside the documented forms (`$$NAME`, a bare `$`) or names a variable that is unset or
    empty - then the property does not say what is sent and nothing is judged."""
    out: List[Tuple[str, str]] = []
    for k, v in c["headers"]:
        if v.startswith("$$") or v == "$":
            return None
        if v.startswith("$"):
            x = c["env"].get(v[1:])
            if not x:
                return None
            out.append((k, x))
        else:
            out.append((k, v))
    return out


def judge_source(c: Dict[str, Any], o: Dict[str, Any], res: Result, which: str = "") -> None:
    """oracle: the property's last sentence, stated without the model"""
    inp = {"kind": "source", **c}
    if o["o"] == "remote":
        for (k, v), (_, sent) in zip(c["headers"], o["headers"]):
            if v.startswith("$$") or v == "$":
                continue  # not a documented form
            want = c["env"].get(v[1:]) if v.startswith("$") else v
            if sent != want:
                res.failures.append(Failure("header-not-sent-as-configured", None, inp, f"{which}{k}: configured {v!r} -> expected {want!r}, sent {sent!r}"))
        want_verify = c["verify"] if c.get("verify_given", True) else True
        if o["verify"] is not want_verify:
            res.failures.append(Failure("verify-flag-not-sent", None, inp, f"{which}configured {want_verify}, transport got {o['verify']!r}"))
        if c["path_kind"] != "none":
            res.failures.append(Failure("remote-used-despite-schema-path", None, inp, which))
        if o["url"] != c["url"]:
            res.failures.append(Failure("request-to-another-url", None, inp, f"{which}configured {c['url']!r}, request went to {o['url']!r}"))
    elif o["o"] in ("completed", "internal"):
        res.failures.append(Failure("source-selection-" + o["o"], None, inp, which + json.dumps(o)[:200]))
    elif c["path_kind"] == "none" and c["url"]:
        exp = expected_headers(c)
        if exp is not None:
            # only the remote source is configured and every header is a plain value or names a set, non-empty variable:
            # the headers "with $ENV substitution ... are what is sent" - so a request has to go out
            res.failures.append(Failure("configured-headers-not-sent", None, inp,
                                        f"{which}no request was sent ({json.dumps({k: v for k, v in o.items() if not k.startswith('_')})[:160]}); "
                                        f"the configuration resolves to {exp!r}"))


def same_remote(m: Dict[str, Any], o: Dict[str, Any]) -> bool:
    from graphql import get_introspection_query

    flags = {k: ast.literal_eval(v) for k, v in m["flags"]}
    return (m["url"] == o["url"] and m["headers"] == o["headers"] and m["verify"] == o["verify"]
            and o["query"] == get_introspection_query(**flags) and o["body_keys"] == ["query"]
            and o["method"] == "POST" and o["n_requests"] == 1)


def same_source(m: Dict[str, Any], o: Dict[str, Any]) -> bool:
    same = m["o"] == o["o"]
    if same and o["o"] == "remote":
        same = same_remote(m, o)
    elif same and o["o"] == "path":
        same = m["p"] == o["p"]
    elif same and o["o"] == "err":
        same = m["kind"] == o["kind"] and m.get("name") == o.get("name") and o.get("n_requests", 0) == 0
    return same


def fixed_source_cases() -> List[Dict[str, Any]]:
    """documented example, both sources configured, nothing configured, an unset variable, and the cells where the
    resolved value itself starts with `$` (one resolution and two differ exactly there), on both strategies"""
    base = {"path_kind": "none", "url": "http://verif.test/graphql", "verify": True, "env": dict(ENV_VALUES), "verify_given": True,
            "strategy": "client", "repeat": False}
    out = [
        {**base, "headers": [["Authorization", "$VERIF_C19_TOKEN"]], "verify": False},
        {**base, "headers": [["Authorization", "Bearer: token"]], "env": {}, "verify_given": False},
        {**base, "path_kind": "bad-file", "headers": [], "env": {}},
        {**base, "url": "", "headers": [], "env": {}},
        {**base, "headers": [["X-Api-Key", "$VERIF_C19_UNSET"]], "env": {}},
    ]
    for strategy in STRATEGIES:
        for v in ("$VERIF_C19_CRYPT", "$VERIF_C19_CHAIN", "$VERIF_C19_DOLLAR", "$VERIF_C19_SELF"):
            out.append({**base, "headers": [["Authorization", v]], "strategy": strategy, "repeat": strategy == "client"})
    out.append({**base, "headers": [["X-Trace", "plain"], ["Authorization", "$VERIF_C19_CRYPT"], ["X-Api-Key", "$VERIF_C19_B"]], "strategy": "graphqlschema"})
    return out


def check_sources(ctx: Ctx, st: Optional[LeanStatus], res: Result, n: int) -> None:
    rng = ctx.sub_rng("sources")
    cases = fixed_source_cases() + [gen_source_case(rng) for _ in range(n)]
    work = Path(tempfile.mkdtemp(prefix=engine.SCRATCH_PREFIX, dir=engine.scratch_root()))
    obs: List[Dict[str, Any]] = []
    lines: List[Dict[str, Any]] = []
    try:
        for c in cases:
            try:
                o = observe_source(c, work)
            except (AttributeError, ImportError, TypeError) as e:
                res.mismatches.append(Mismatch("source", c, f"observer: {e!r}", None))
                o = None
            obs.append(o)  # type: ignore
            sp = o["_schema_path"] if o else ""
            lines.append({"op": "source", "schemaPath": sp, "remoteUrl": c["url"], "headers": c["headers"],
                          "verify": c["verify"] if c["verify_given"] else True,  # dataclass default remote_schema_verify_ssl=True
                          "env": [[k, v] for k, v in c["env"].items()], "pathExists": c["path_kind"] == "bad-file"})
    finally:
        shutil.rmtree(work, ignore_errors=True)
    model = common.run_driver(PROP, lines) if (st is not None and st.driver_ok) else None
    for i, (c, o) in enumerate(zip(cases, obs)):
        if o is None:
            continue
        second = o.pop("second", None)
        res.seen(["source", c], nontrivial=bool(c["headers"]) or o["o"] != "remote")
        res.count("source:" + o["o"] + (":" + o.get("kind", "") if o["o"] == "err" else ""))
        res.count("source:strategy:" + c["strategy"])
        if resolved_value_starts_with_dollar(c):
            res.count("source:resolved-value-starts-with-$")
        if model is not None:
            m = model[i]
            if not same_source(m, o):
                res.mismatches.append(Mismatch("source", c, {k: v for k, v in o.items() if k != "query"}, m))
            if second is not None and not same_source(m, second):
                res.mismatches.append(Mismatch("source-second-run", c, {k: v for k, v in second.items() if k != "query"}, m))
            if m["o"] == "remote" and m.get("resolvedDollar") is not resolved_value_starts_with_dollar(c) and expected_headers(c) is not None:
                res.mismatches.append(Mismatch("source-trigger", c, {"resolvedDollar": resolved_value_starts_with_dollar(c)}, {"resolvedDollar": m.get("resolvedDollar")}))
        judge_source(c, o, res)
        if second is not None:
            res.count("source:run-twice")
            judge_source(c, second, res, which="second run in the same process: ")
        if i < 2:
            res.sample({"observation": "source", "input": c, "impl": {k: v for k, v in o.items() if k not in ("query", "_schema_path")}, "model": model[i] if model else None})


# direct calls of the two functions below `main`: no settings, no environment at this level


def gen_urlcall_case(rng: random.Random) -> Dict[str, Any]:
    headers: Optional[List[List[str]]] = None
    if rng.random() < 0.85:
        headers = [[name, rng.choice(HEADER_VALUES)] for name in rng.sample(HEADER_NAMES, rng.choice([0, 1, 2, 3]))]
    return {"fn": rng.choice(["get_graphql_schema_from_url", "introspect_remote_schema"]),
            "url": rng.choice(["http://verif.test/graphql", "https://api.verif.test/v1/graphql?x=1", "http://verif.test:8080/"]),
            "headers": headers, "headers_given": headers is not None or rng.random() < 0.5,
            "verify": rng.random() < 0.5, "verify_given": rng.random() < 0.7,
            "env": {k: v for k, v in ENV_VALUES.items() if rng.random() < 0.7}}


def observe_urlcall(case: Dict[str, Any]) -> Dict[str, Any]:
    S = _schema_mod()
    fn = getattr(S, case["fn"])
    kwargs: Dict[str, Any] = {"url": case["url"]}
    if case["headers_given"]:
        kwargs["headers"] = {k: v for k, v in case["headers"]} if case["headers"] is not None else None
    if case["verify_given"]:
        kwargs["verify_ssl"] = case["verify"]

    def handler(request: Any) -> Any:
        raise _Stop()

    with case_env(case["env"]), patched_httpx(handler) as rec:
        try:
            fn(**kwargs)
            return {"o": "completed"}
        except _Stop:
            return captured_request(rec, [k for k, _ in (case["headers"] or [])])
        except (AttributeError, ImportError, TypeError):
            raise
        except Exception as e:  # noqa: BLE001
            return {"o": "err", "exc": qualname(type(e)), "msg": str(e)[:160], "n_requests": len(rec["requests"])}


def check_urlcalls(ctx: Ctx, st: Optional[LeanStatus], res: Result, n: int) -> None:
    """`get_graphql_schema_from_url` / `introspect_remote_schema` called directly with arbitrary header dicts (values that
    start with `$` included, variables set and unset): the request carries the arguments unchanged (Lean `urlCall`)"""
    rng = ctx.sub_rng("urlcalls")
    cases = [gen_urlcall_case(rng) for _ in range(n)]
    for fn in ("get_graphql_schema_from_url", "introspect_remote_schema"):
        for v in ("$VERIF_C19_TOKEN", "$VERIF_C19_UNSET", "$VERIF_C19_CRYPT", "$2y$10$N9qo8uLOickgx2ZMRZoMye", "$x"):
            cases.append({"fn": fn, "url": "http://verif.test/graphql", "headers": [["Authorization", v]], "headers_given": True,
                          "verify": False, "verify_given": True, "env": dict(ENV_VALUES)})
    obs: List[Optional[Dict[str, Any]]] = []
    lines = []
    for c in cases:
        try:
            obs.append(observe_urlcall(c))
        except (AttributeError, ImportError, TypeError) as e:
            res.mismatches.append(Mismatch("urlcall", c, f"observer: {e!r}", None))
            obs.append(None)
        lines.append({"op": "urlcall", "url": c["url"], "headers": c["headers"] or [], "verify": c["verify"] if c["verify_given"] else True})
    model = common.run_driver(PROP, lines) if (st is not None and st.driver_ok) else None
    for i, (c, o) in enumerate(zip(cases, obs)):
        if o is None:
            continue
        res.seen(["urlcall", c], nontrivial=bool(c["headers"]))
        res.count("urlcall:" + c["fn"] + ":" + o["o"])
        if model is not None and not (o["o"] == "remote" and same_remote(model[i], o)):
            res.mismatches.append(Mismatch("urlcall", c, {k: v for k, v in o.items() if k != "query"}, model[i]))
        if i < 1:
            res.sample({"observation": "urlcall", "input": c, "impl": {k: v for k, v in o.items() if k != "query"}, "model": model[i] if model else None})


# --------------------------------------------------------------------------------------------
# 4. inputs / enums: SDL-built vs introspection-built schema object
# --------------------------------------------------------------------------------------------

IN_FIELD_NAMES = ["f0", "f1", "f2", "f3", "f4", "f5", "query", "limit", "flag", "items", "nested", "when", "tags", "mode"]
ENUM_VALUE_POOL = ["RED", "GREEN", "BLUE", "ASC", "DESC", "lower", "Mixed_Case", "V1", "class", "None", "import"]
FLOAT_LEXEMES = ["1.5", "-0.25", "1e3", "2.50", "0.0", "1E-2", "3.0e+2", "123456789.125"]
STRINGS = ["", "hi", "two words", "quote\"d", "uni ü ✓", "back\\slash", "line1\nline2", "#not a comment", "$x", "'single'"]


def t_named(n: str) -> List[Any]:
    return ["named", n]


def type_str(t: List[Any]) -> str:
    return schema_gen.type_str(t)


def lit_sdl(l: Dict[str, Any]) -> str:
    k = l["k"]
    if k == "int":
        return str(l["v"])
    if k == "float":
        return l["v"]
    if k == "str":
        s = l["v"]
        if "\n" in s and '"""' not in s and "\\" not in s:
            return '"""' + s + '"""'
        return json.dumps(s, ensure_ascii=False)
    if k == "bool":
        return "true" if l["v"] else "false"
    if k == "null":
        return "null"
    if k == "enum":
        return l["v"]
    if k == "list":
        return "[" + ", ".join(lit_sdl(x) for x in l["v"]) + "]"
    return "{" + ", ".join(f"{kk}: {lit_sdl(v)}" for kk, v in l["v"]) + "}"


class InputSchemaGen:
    """random input-centric schemas: every default kind, nested / recursive inputs, custom scalars, deprecations"""

    def __init__(self, rng: random.Random, p_default: float = 0.45, p_deprecated: float = 0.06) -> None:
        self.rng = rng
        self.p_default = p_default
        self.p_deprecated = p_deprecated
        self.enums: Dict[str, List[str]] = {}
        self.scalars: List[str] = []
        self.inputs: Dict[str, List[Dict[str, Any]]] = {}

    def wrap(self, base: List[Any], depth: int = 0) -> List[Any]:
        rng = self.rng
        t = base
        if rng.random() < 0.4:
            t = ["nonnull", t]
        if depth < 2 and rng.random() < 0.35:
            t = ["list", t]
            if rng.random() < 0.4:
                t = ["nonnull", t]
            if depth < 1 and rng.random() < 0.25:
                t = ["list", t]
                if rng.random() < 0.4:
                    t = ["nonnull", t]
        return t

    def lit(self, t: List[Any], depth: int = 0, nullable: bool = True, max_idx: int = 99) -> Optional[Dict[str, Any]]:
        """a literal of type t; object literals only of input types with index < max_idx (graphql-core cannot build
        a schema whose default values go round a cycle of input types); None = no literal possible"""
        rng = self.rng
        if t[0] == "nonnull":
            return self.lit(t[1], depth, False, max_idx)
        if nullable and rng.random() < 0.12:
            return {"k": "null"}
        if t[0] == "list":
            if rng.random() < 0.12:
                return self.lit(t[1], depth + 1, True, max_idx)  # input coercion of a single item to a list
            items = [self.lit(t[1], depth + 1, True, max_idx) for _ in range(rng.choice([0, 1, 2, 3]) if depth < 3 else 0)]
            if any(x is None for x in items):
                return None
            return {"k": "list", "v": items}
        n = t[1]
        if n == "Int":
            return {"k": "int", "v": rng.choice([0, 5, -3, 42, 2147483647, -2147483648])}
        if n == "Float":
            return {"k": "float", "v": rng.choice(FLOAT_LEXEMES)} if rng.random() < 0.75 else {"k": "int", "v": rng.choice([2, -7, 0])}
        if n == "String":
            return {"k": "str", "v": rng.choice(STRINGS)}
        if n == "ID":
            return {"k": "str", "v": rng.choice(["id-1", "42"])} if rng.random() < 0.7 else {"k": "int", "v": 7}
        if n == "Boolean":
            return {"k": "bool", "v": rng.random() < 0.5}
        if n in self.enums:
            return {"k": "enum", "v": rng.choice(self.enums[n])}
        if n in self.inputs:
            j = list(self.inputs).index(n)
            if j >= max_idx:
                return {"k": "null"} if nullable else None
            fields = []
            for f in self.inputs[n]:
                required = f["type"][0] == "nonnull" and f["default"] is None
                if required or (depth < 2 and rng.random() < 0.5):
                    if depth >= 2 and f["type"][0] != "nonnull":
                        fields.append([f["name"], {"k": "null"}])
                    else:
                        v = self.lit(f["type"], depth + 1, True, j)
                        if v is None:
                            if required:
                                return {"k": "null"} if nullable else None
                            continue
                        fields.append([f["name"], v])
            return {"k": "obj", "v": fields}
        # custom scalar: any scalar-ish literal (no object literal: `globals()[""]` is a different property's defect)
        # (no list literal either: graphql-core's own introspection cannot print such a default back)
        return rng.choice([{"k": "str", "v": "2020-01-01"}, {"k": "int", "v": 12}, {"k": "float", "v": "0.5"}, {"k": "bool", "v": True}])

    def generate(self) -> Dict[str, Any]:
        rng = self.rng
        for n in rng.sample(["Color", "Order", "Mode"], rng.choice([1, 2, 3])):
            self.enums[n] = rng.sample(ENUM_VALUE_POOL, rng.choice([1, 2, 3, 4]))
        self.scalars = rng.sample(["Date", "JSON", "Upload"], rng.choice([0, 1, 2]))
        names = rng.sample(["Filter", "Paging", "UserInput", "RangeInput", "Deep"], rng.choice([1, 2, 3, 4]))
        for idx, n in enumerate(names):
            self.inputs[n] = []
            for fname in rng.sample(IN_FIELD_NAMES, rng.choice([1, 2, 3, 4, 5, 6])):
                pool = ["Int", "Float", "String", "Boolean", "ID"] + list(self.enums) + self.scalars
                base = rng.choice(pool) if rng.random() < 0.75 else rng.choice(names)
                t = self.wrap(t_named(base))
                if base in names and names.index(base) >= idx and t[0] == "nonnull":
                    t = t[1]  # keep required chains acyclic
                self.inputs[n].append({"name": fname, "type": t, "default": None, "deprecated": False})
        # defaults are generated after all inputs exist (object literals need the target's fields)
        for ix, n in enumerate(names):
            for f in self.inputs[n]:
                if rng.random() < self.p_default:
                    f["default"] = self.lit(f["type"], 0, True, ix)
                if rng.random() < self.p_deprecated and (f["type"][0] != "nonnull" or f["default"] is not None):
                    f["deprecated"] = True
        defs: List[Dict[str, Any]] = [{"kind": "enum", "name": n, "values": vs} for n, vs in self.enums.items()]
        defs += [{"kind": "scalar", "name": n} for n in self.scalars]
        defs += [{"kind": "input", "name": n, "fields": fs} for n, fs in self.inputs.items()]
        defs.append({"kind": "composite", "name": "Query"})
        rng.shuffle(defs)
        return {"defs": defs, "sdl": self.sdl(defs)}

    def sdl(self, defs: List[Dict[str, Any]]) -> str:
        out = []
        for d in defs:
            if d["kind"] == "enum":
                out.append(f"enum {d['name']} {{ " + " ".join(d["values"]) + " }")
            elif d["kind"] == "scalar":
                out.append(f"scalar {d['name']}")
            elif d["kind"] == "input":
                fs = []
                for f in d["fields"]:
                    dv = f" = {lit_sdl(f['default'])}" if f["default"] is not None else ""
                    dep = ' @deprecated(reason: "old")' if f["deprecated"] else ""
                    fs.append(f"  {f['name']}: {type_str(f['type'])}{dv}{dep}")
                out.append(f"input {d['name']} {{\n" + "\n".join(fs) + "\n}")
            else:
                args = ", ".join(f"a{i}: {n}" for i, n in enumerate(self.inputs))
                enums = " ".join(f"e{i}: {n}" for i, n in enumerate(self.enums))
                out.append(f"type Query {{ q({args}): Int {enums} }}")
        return "\n\n".join(out) + "\n"


def effective_default(f: Dict[str, Any]) -> bool:
    """Python twin of Lean `InputGen.effectiveDefault`"""
    d = f.get("default")
    if d is None:
        return False
    if d["k"] == "null":
        return f["type"][0] == "nonnull"
    return True


def trig_default_lost(defs: List[Dict[str, Any]]) -> bool:
    return any(effective_default(f) for d in defs if d["kind"] == "input" for f in d["fields"])


def trig_deprecated_input(defs: List[Dict[str, Any]], flag: bool) -> bool:
    return (not flag) and any(f["deprecated"] for d in defs if d["kind"] == "input" for f in d["fields"])


def expr_json(node: Optional[ast.AST]) -> Any:
    """canonical form of the value of an emitted input field (twin of Driver/C19.lean encExpr)"""
    if node is None:
        return None
    if isinstance(node, ast.Constant):
        v = node.value
        if v is None:
            return {"e": "none"}
        if isinstance(v, bool):
            return {"e": "bool", "v": v}
        if isinstance(v, int):
            return {"e": "int", "v": v}
        if isinstance(v, float):
            return {"e": "float", "v": v}
        if isinstance(v, str):
            return {"e": "str", "v": v}
    if isinstance(node, ast.Name):
        return {"e": "name", "v": node.id}
    if isinstance(node, ast.List):
        return {"e": "list", "v": [expr_json(x) for x in node.elts]}
    if isinstance(node, ast.Dict):
        return {"e": "dict", "v": [[k.value if isinstance(k, ast.Constant) else "?", expr_json(v)] for k, v in zip(node.keys, node.values)]}
    if isinstance(node, ast.Call) and isinstance(node.func, ast.Name) and node.func.id == "Field":
        kws = {k.arg: k.value for k in node.keywords}
        if set(kws) == {"default_factory"} and isinstance(kws["default_factory"], ast.Lambda):
            body = kws["default_factory"].body
            if (isinstance(body, ast.Call) and isinstance(body.func, ast.Attribute) and body.func.attr == "model_validate"
                    and isinstance(body.func.value, ast.Subscript) and isinstance(body.func.value.value, ast.Call)
                    and getattr(body.func.value.value.func, "id", "") == "globals" and len(body.args) == 1):
                key = body.func.value.slice
                return {"e": "factoryModel", "t": key.value if isinstance(key, ast.Constant) else "?", "v": expr_json(body.args[0])}
            return {"e": "factory", "v": expr_json(body)}
    return {"e": "?", "v": ast.dump(node)[:200]}


def same_expr(a: Any, b: Any) -> bool:
    """impl expr (floats as values) vs model expr (floats as lexemes)"""
    if a is None or b is None:
        return a is None and b is None
    if a.get("e") != b.get("e"):
        return False
    e = a["e"]
    if e == "float":
        fa = float(a["v"]) if isinstance(a["v"], str) else a["v"]
        fb = float(b["v"]) if isinstance(b["v"], str) else b["v"]
        return fa == fb or (fa != fa and fb != fb)
    if e in ("list",):
        return len(a["v"]) == len(b["v"]) and all(same_expr(x, y) for x, y in zip(a["v"], b["v"]))
    if e == "dict":
        return len(a["v"]) == len(b["v"]) and all(x[0] == y[0] and same_expr(x[1], y[1]) for x, y in zip(a["v"], b["v"]))
    if e == "factory":
        return same_expr(a["v"], b["v"])
    if e == "factoryModel":
        return a["t"] == b["t"] and same_expr(a["v"], b["v"])
    if e == "none":
        return True
    if e == "bool":
        return a["v"] is b["v"]
    return a["v"] == b["v"] and type(a["v"]) is type(b["v"])


def classes_of_module(module: ast.Module) -> Dict[str, Any]:
    out: Dict[str, Any] = {}
    for node in module.body:
        if isinstance(node, ast.ClassDef):
            fields = []
            for st_ in node.body:
                if isinstance(st_, ast.AnnAssign) and isinstance(st_.target, ast.Name):
                    fields.append({"name": st_.target.id, "ann": ast.unparse(st_.annotation), "default": expr_json(st_.value)})
                elif isinstance(st_, ast.Assign) and isinstance(st_.targets[0], ast.Name):
                    fields.append({"name": st_.targets[0].id, "value": expr_json(st_.value)})
            out[node.name] = fields
    return out


def build_both_schemas(root: Path, sdl: str) -> Dict[str, Any]:
    """the two REAL builders of ariadne-codegen on the same SDL: from a file, and from an in-process endpoint"""
    S = _schema_mod()
    p = root / "schema.graphql"
    p.write_text(sdl)
    out: Dict[str, Any] = {"sdl": S.get_graphql_schema_from_path(str(p))}
    with patched_httpx(graphql_server(sdl)):
        out["intro"] = S.get_graphql_schema_from_url("http://verif.test/graphql")
    return out


def _inputs_chunk(root: Path, cases: List[Dict[str, Any]]) -> List[Dict[str, Any]]:
    from ariadne_codegen.client_generators.enums import EnumsGenerator
    from ariadne_codegen.client_generators.input_types import InputTypesGenerator

    outs = []
    for c in cases:
        o: Dict[str, Any] = {}
        try:
            schemas = build_both_schemas(root, c["sdl"])
            for mode, sch in schemas.items():
                try:
                    o[mode] = {"classes": classes_of_module(InputTypesGenerator(schema=sch, convert_to_snake_case=False).generate()),
                               "enums": classes_of_module(EnumsGenerator(schema=sch).generate())}
                except Exception as e:  # noqa: BLE001
                    o[mode] = {"error": type(e).__name__}
        except (AttributeError, ImportError, TypeError) as e:
            o = {"observer": repr(e)}
        except Exception as e:  # noqa: BLE001
            o = {"build_error": f"{type(e).__name__}: {e}"[:300]}
        outs.append(o)
    return outs


inputs_chunk = engine.with_scratch(_inputs_chunk)


def model_classes(m: Dict[str, Any]) -> Any:
    if any(f is None for c in m["classes"] for f in c["fields"]):
        return {"error": "ParsingError"}
    return {"classes": {c["name"]: c["fields"] for c in m["classes"]},
            "enums": {e["name"]: [{"name": py, "value": {"e": "str", "v": v}} for py, v in e["members"]] for e in m["enums"]}}


def same_classes(impl: Dict[str, Any], model: Dict[str, Any]) -> bool:
    if "error" in impl or "error" in model:
        return impl.get("error") == model.get("error")
    if set(impl["classes"]) != set(model["classes"]) or set(impl["enums"]) != set(model["enums"]):
        return False
    for n, fs in impl["classes"].items():
        ms = model["classes"][n]
        if len(fs) != len(ms):
            return False
        for a, b in zip(fs, ms):
            if a["name"] != b["name"] or a["ann"] != b["ann"] or not same_expr(a["default"], b["default"]):
                return False
    for n, fs in impl["enums"].items():
        ms = model["enums"][n]
        if len(fs) != len(ms) or any(a["name"] != b["name"] or not same_expr(a.get("value"), b.get("value")) for a, b in zip(fs, ms)):
            return False
    return True


def mismatch_region(impl: Dict[str, Any], model: Dict[str, Any], defs: List[Dict[str, Any]]) -> Optional[str]:
    """model and implementation differ: is every differing field inside a finding-trigger region (a field with an
    effective default: C19-F1; a deprecated field that is present on one side only: C19-F4)?  Then the name of the region."""
    if "error" in impl or "error" in model or impl["enums"].keys() != model["enums"].keys() or set(impl["classes"]) != set(model["classes"]):
        return None
    if not same_classes({"classes": {}, "enums": impl["enums"]}, {"classes": {}, "enums": model["enums"]}):
        return None
    by_name = {d["name"]: {f["name"]: f for f in d["fields"]} for d in defs if d["kind"] == "input"}
    regions = set()
    for cname, fs in impl["classes"].items():
        a = {f["name"]: f for f in fs}
        b = {f["name"]: f for f in model["classes"][cname]}
        for fname in set(a) | set(b):
            spec = by_name.get(cname, {}).get(fname)
            if spec is None:
                return None
            if fname not in a or fname not in b:
                if not spec["deprecated"]:
                    return None
                regions.add(TRIG_DEPRECATED)
            elif a[fname]["ann"] != b[fname]["ann"]:
                return None
            elif not same_expr(a[fname]["default"], b[fname]["default"]):
                if not effective_default(spec):
                    return None
                regions.add(TRIG_DEFAULT)
    return sorted(regions)[0] if regions else None


def judge_input_pair(sdl_c: Dict[str, Any], intro_c: Dict[str, Any], defs: List[Dict[str, Any]], inp: Any, res: Result) -> None:
    """the property on the generators' output: same enum classes, same input classes field by field; a difference is a
    known finding only on a field that satisfies the finding's trigger"""
    if "error" in sdl_c or "error" in intro_c:
        if sdl_c.get("error") != intro_c.get("error"):
            res.failures.append(Failure("generator-fails-on-one-source", None, inp, f"sdl={sdl_c.get('error')} intro={intro_c.get('error')}"))
        return
    if sdl_c["enums"] != intro_c["enums"]:
        res.failures.append(Failure("enum-classes-differ", None, inp, f"{sdl_c['enums']} vs {intro_c['enums']}"[:300]))
    by_name = {d["name"]: {f["name"]: f for f in d["fields"]} for d in defs if d["kind"] == "input"}
    if set(sdl_c["classes"]) != set(intro_c["classes"]):
        res.failures.append(Failure("input-class-set-differs", None, inp, f"{sorted(sdl_c['classes'])} vs {sorted(intro_c['classes'])}"))
        return
    for cname, sfields in sdl_c["classes"].items():
        ifields = {f["name"]: f for f in intro_c["classes"][cname]}
        for sf in sfields:
            spec = by_name.get(cname, {}).get(sf["name"])
            f2 = ifields.pop(sf["name"], None)
            where = f"{cname}.{sf['name']}"
            if f2 is None:
                trig = TRIG_DEPRECATED if spec is not None and spec["deprecated"] else None
                res.failures.append(Failure("input-field-missing", trig, inp, f"{where} is missing from the introspection-built class"))
                continue
            if sf["ann"] != f2["ann"]:
                res.failures.append(Failure("input-annotation-differs", None, inp, f"{where}: {sf['ann']} vs {f2['ann']}"))
            if not same_expr(sf["default"], f2["default"]):
                trig = TRIG_DEFAULT if spec is not None and effective_default(spec) else None
                sig = "required-flip" if (sf["default"] is None) != (f2["default"] is None) else "default-lost"
                res.failures.append(Failure(sig, trig, inp, f"{where}: sdl {json.dumps(sf['default'])[:80]} vs introspection {json.dumps(f2['default'])[:80]}"))
        for extra in ifields:
            res.failures.append(Failure("input-field-extra", None, inp, f"{cname}.{extra} only in the introspection-built class"))


def check_inputs(ctx: Ctx, st: Optional[LeanStatus], res: Result, n: int) -> None:
    rng = ctx.sub_rng("inputs")
    cases = []
    for i in range(n):
        g = InputSchemaGen(rng, p_default=rng.choice([0.0, 0.0, 0.3, 0.6]), p_deprecated=rng.choice([0.0, 0.0, 0.0, 0.1]))
        cases.append(g.generate())
    chunk = 20
    chunks = [cases[i:i + chunk] for i in range(0, len(cases), chunk)]
    outs: List[Dict[str, Any]] = []
    _quiet_fork_warning()
    for status, val in engine.pmap_forked(inputs_chunk, [(c,) for c in chunks], timeout=300):
        if status != "ok":
            raise common.Infra(f"inputs chunk failed: {status} {val}")
        outs += val
    lines = []
    for c in cases:
        lines.append({"op": "inputs", "mode": "sdl", "defs": c["defs"]})
        lines.append({"op": "inputs", "mode": "intro", "defs": c["defs"]})
    model = common.run_driver(PROP, lines) if (st is not None and st.driver_ok) else None
    for i, (c, o) in enumerate(zip(cases, outs)):
        inp = {"kind": "inputs", "defs": c["defs"], "sdl": c["sdl"]}
        if "observer" in o:
            res.mismatches.append(Mismatch("inputs", inp, "observer: " + o["observer"], None))
            continue
        if "build_error" in o:
            raise common.Infra("generated input schema is not valid: " + o["build_error"] + "\n" + c["sdl"])
        t1, t4 = trig_default_lost(c["defs"]), any(f["deprecated"] for d in c["defs"] if d["kind"] == "input" for f in d["fields"])
        res.seen(["inputs", c["defs"]], nontrivial=True)
        res.count("inputs:schemas")
        res.count("inputs:in-F1-region" if t1 else "inputs:outside-F1-region")
        if t4:
            res.count("inputs:with-deprecated-input-field")
        for d in c["defs"]:
            if d["kind"] == "input":
                for f in d["fields"]:
                    res.count("inputs:default-kind:" + (f["default"]["k"] if f["default"] else "none"))
        if model is not None:
            for j, mode in enumerate(("sdl", "intro")):
                m = model[2 * i + j]
                if not same_classes(o[mode], model_classes(m)):
                    res.mismatches.append(Mismatch("inputs:" + mode, inp, o[mode], model_classes(m), trigger=mismatch_region(o[mode], model_classes(m), c["defs"])))
                if m["trigDefaultLost"] != t1 or m["trigDeprecatedInput"] != trig_deprecated_input(c["defs"], m["inputValueDeprecation"]):
                    res.mismatches.append(Mismatch("triggers", inp, {"trigDefaultLost": t1, "deprecated": t4}, {k: m[k] for k in m if k.startswith("trig")}))
        judge_input_pair(o["sdl"], o["intro"], c["defs"], inp, res)
        if i < 1:
            res.sample({"observation": "inputs", "input": c["sdl"], "impl_sdl": o["sdl"], "impl_intro": o["intro"]})


# --------------------------------------------------------------------------------------------
# 5. oracle: one schema, three sources, three packages
# --------------------------------------------------------------------------------------------

DESCRIPTIONS = ["A thing.", "Multi\nline description", "with \"quotes\"", "ünïcode ✓", "# looks like a comment", "ends with backslash-free text"]


def desc_sdl(d: Optional[str], indent: str = "") -> str:
    if not d:
        return ""
    if "\n" in d:
        return indent + '"""\n' + "\n".join(indent + l for l in d.split("\n")) + "\n" + indent + '"""\n'
    return indent + json.dumps(d, ensure_ascii=False) + "\n"


def decorate_schema(schema: Dict[str, Any], rng: random.Random, p_default: float, p_deprecated_input: float, p_desc: float) -> None:
    """defaults of every kind, descriptions, deprecations on top of a schema_gen schema (in place)"""
    g = InputSchemaGen(rng)
    for t in schema["types"]:
        if t["kind"] == "enum":
            g.enums[t["name"]] = t["values"]
        elif t["kind"] == "scalar":
            g.scalars.append(t["name"])
    inputs = [t for t in schema["types"] if t["kind"] == "input"]
    for t in inputs:
        g.inputs[t["name"]] = [{"name": f["name"], "type": f["type"], "default": None} for f in t["inputFields"]]
    for ix, t in enumerate(inputs):
        for f, gf in zip(t["inputFields"], g.inputs[t["name"]]):
            f["default_lit"], f["deprecated"] = None, False
            base = schema_gen.unwrap(f["type"])
            if rng.random() < p_default:
                lit = g.lit(f["type"], 0, True, ix)
                if lit is not None:
                    f["default_lit"] = lit
                    f["default"] = lit_sdl(lit)
                    gf["default"] = lit
            if rng.random() < p_deprecated_input and (f["type"][0] != "nonnull" or f["default_lit"] is not None):
                f["deprecated"] = True
    for t in schema["types"]:
        if rng.random() < p_desc:
            t["description"] = rng.choice(DESCRIPTIONS)
        t["deprecated_values"] = [v for v in t.get("values", []) if rng.random() < 0.1]
        for f in t.get("fields", []):
            if rng.random() < p_desc:
                f["description"] = rng.choice(DESCRIPTIONS)
            f["deprecated"] = rng.random() < 0.06
            for a in f.get("args", []):
                a["deprecated"] = rng.random() < p_deprecated_input and a["type"][0] != "nonnull"
                if rng.random() < p_desc:
                    a["description"] = rng.choice(DESCRIPTIONS)
        for f in t.get("inputFields", []):
            if rng.random() < p_desc:
                f["description"] = rng.choice(DESCRIPTIONS)
    # the same field name has the same arguments everywhere (schema_gen invariant): keep flags consistent per field name
    seen: Dict[str, Any] = {}
    for t in schema["types"]:
        for f in t.get("fields", []):
            if f["name"] in seen:
                f["args"] = [dict(a) for a in seen[f["name"]]]
            else:
                seen[f["name"]] = f.get("args", [])


def render_defs(schema: Dict[str, Any], descriptions: bool, rng: Optional[random.Random] = None) -> List[str]:
    """one SDL string per definition (schema block, directive, every type; with rng: some types are cut into a
    definition and an `extend`)"""
    D = (lambda d, ind="": desc_sdl(d, ind)) if descriptions else (lambda d, ind="": "")  # noqa: E731
    out: List[str] = []
    roots = [("query", schema.get("query")), ("mutation", schema.get("mutation")), ("subscription", schema.get("subscription"))]
    default = {"query": "Query", "mutation": "Mutation", "subscription": "Subscription"}
    if any(v and v != default[k] for k, v in roots):
        out.append("schema { " + " ".join(f"{k}: {v}" for k, v in roots if v) + " }")
    for d in schema.get("directives", []):
        out.append(d)
    dep = ' @deprecated(reason: "old")'
    for t in schema["types"]:
        k = t["kind"]
        head = D(t.get("description"))
        if k == "scalar":
            out.append(head + f"scalar {t['name']}")
        elif k == "enum":
            vals = [D(None) + v + (dep if v in t.get("deprecated_values", []) else "") for v in t["values"]]
            cut = rng.randint(1, len(vals) - 1) if (rng is not None and len(vals) > 1 and rng.random() < 0.2) else len(vals)
            out.append(head + f"enum {t['name']} {{\n  " + "\n  ".join(vals[:cut]) + "\n}")
            if cut < len(vals):
                out.append(f"extend enum {t['name']} {{\n  " + "\n  ".join(vals[cut:]) + "\n}")
        elif k == "union":
            out.append(head + f"union {t['name']} = " + " | ".join(t["members"]))
        elif k == "input":
            fs = []
            for f in t["inputFields"]:
                dv = f" = {f['default']}" if f.get("default") is not None else ""
                fs.append(D(f.get("description"), "  ") + f"  {f['name']}: {type_str(f['type'])}{dv}" + (dep if f.get("deprecated") else ""))
            cut = rng.randint(1, len(fs) - 1) if (rng is not None and len(fs) > 1 and rng.random() < 0.2) else len(fs)
            out.append(head + f"input {t['name']} {{\n" + "\n".join(fs[:cut]) + "\n}")
            if cut < len(fs):
                out.append(f"extend input {t['name']} {{\n" + "\n".join(fs[cut:]) + "\n}")
        else:
            kw = "type" if k == "object" else "interface"
            impl = (" implements " + " & ".join(t["interfaces"])) if t["interfaces"] else ""
            fs = []
            for f in t["fields"]:
                args = ""
                if f.get("args"):
                    parts = []
                    for a in f["args"]:
                        dv = f" = {a['default']}" if a.get("default") is not None else ""
                        parts.append(f"{a['name']}: {type_str(a['type'])}{dv}" + (dep if a.get("deprecated") else ""))
                    args = "(" + ", ".join(parts) + ")"
                fs.append(D(f.get("description"), "  ") + f"  {f['name']}{args}: {type_str(f['type'])}" + (dep if f.get("deprecated") else ""))
            cut = rng.randint(1, len(fs) - 1) if (rng is not None and len(fs) > 1 and k == "object" and rng.random() < 0.2) else len(fs)
            out.append(head + f"{kw} {t['name']}{impl} {{\n" + "\n".join(fs[:cut]) + "\n}")
            if cut < len(fs):
                out.append(f"extend type {t['name']} {{\n" + "\n".join(fs[cut:]) + "\n}")
    return out


def split_defs(defs: List[str], rng: random.Random) -> Dict[str, str]:
    """random partition of the definitions into files of nested directories (+ files that must be ignored)"""
    order = list(defs)
    rng.shuffle(order)
    n_files = rng.randint(1, min(len(order), 7))
    groups: List[List[str]] = [[] for _ in range(n_files)]
    for i, d in enumerate(order):
        groups[i if i < n_files else rng.randrange(n_files)].append(d)
    dirs = ["", "", "types/", "types/inputs/", "a/b/c/", "Z/", "sub dir/", ".hidden/", "10/", "9/"]
    files: Dict[str, str] = {}
    for g in groups:
        for _ in range(20):
            rel = rng.choice(dirs) + rng.choice(FILE_STEMS) + rng.choice(EXTS_OK)
            if not _path_conflict(rel, files):
                break
        files[rel] = rng.choice(["\n", "\n\n", "\n# ---\n"]).join(g) + rng.choice(["", "\n", "\n\n# end"])
    for _ in range(rng.choice([0, 1, 2, 3])):
        rel = rng.choice(dirs) + rng.choice(FILE_STEMS) + rng.choice(EXTS_IGNORED)
        if not rel.endswith("/") and not _path_conflict(rel, files):
            files[rel] = rng.choice(["type Broken {", "not graphql at all", "type Query { hijacked: Int }"])
    return files


def _path_conflict(rel: str, files: Dict[str, str]) -> bool:
    return any(o == rel or o.startswith(rel + "/") or rel.startswith(o + "/") for o in files)


def spec_defs(schema: Dict[str, Any]) -> List[Dict[str, Any]]:
    """the input types of a schema_gen schema in the shape the trigger predicates read"""
    return [{"kind": "input", "name": t["name"],
             "fields": [{"name": f["name"], "type": f["type"], "default": f.get("default_lit"), "deprecated": bool(f.get("deprecated"))}
                        for f in t["inputFields"]]}
            for t in schema["types"] if t["kind"] == "input"]


def gen_oracle_case(rng: random.Random, idx: int, focus: Optional[str] = None) -> Optional[Dict[str, Any]]:
    from graphql import build_schema, parse, validate

    schema = schema_gen.gen_schema(rng, size=rng.choice([1, 2, 2, 3]), subscription=rng.random() < 0.15,
                                   custom_root_names=0.25)
    p_default = {"defaults": 0.6, "clean": 0.0}.get(focus or "", rng.choice([0.0, 0.0, 0.25, 0.5]))
    p_dep = {"deprecated": 0.25, "clean": 0.0}.get(focus or "", rng.choice([0.0, 0.0, 0.0, 0.08]))
    decorate_schema(schema, rng, p_default, p_dep, p_desc=rng.choice([0.0, 0.3, 0.8]))
    if rng.random() < 0.3:
        schema["directives"] = ["directive @tag(name: String = \"x\", level: Int) on FIELD | QUERY | FRAGMENT_SPREAD"]
    # the single file (and the endpoint's schema) carries `extend type / input / enum` nodes in 40% of the cases: the same
    # cut pattern with and without descriptions (two generators with one seed: descriptions draw nothing)
    ext_seed = rng.random() if rng.random() < 0.4 else None
    defs = render_defs(schema, True, random.Random(ext_seed) if ext_seed is not None else None)
    sdl = "\n\n".join(defs) + "\n"
    sdl_plain = "\n\n".join(render_defs(schema, False, random.Random(ext_seed) if ext_seed is not None else None)) + "\n"
    try:
        built = build_schema(sdl)
        build_schema(sdl_plain)
    except Exception as e:  # noqa: BLE001
        raise common.Infra(f"schema generator produced an invalid schema: {e}\n{sdl}")
    doc = ops_gen.gen_document(schema, rng, n_ops=rng.choice([1, 2, 3]),
                               kinds=("query", "mutation", "subscription") if schema.get("subscription") else ("query", "mutation"))
    if not doc["operations"]:
        return None
    queries = ops_gen.render_document(doc)
    try:
        if validate(built, parse(queries)):
            return None
    except Exception:  # noqa: BLE001  (graphql-core's subscription rule raises on @skip(if: $var) at the root)
        return None
    split_rng = random.Random(rng.random())
    config: Dict[str, Any] = {}
    if rng.random() < 0.3:
        config["include_all_inputs"] = False
        config["include_all_enums"] = False
    if rng.random() < 0.25:
        config["convert_to_snake_case"] = False
    if rng.random() < 0.25:
        config["async_client"] = False
    if rng.random() < 0.2:
        config["include_comments"] = "stable"
    return {"idx": idx, "schema": schema, "sdl": sdl, "sdl_plain": sdl_plain, "queries": queries,
            "split": split_defs(render_defs(schema, True, split_rng), split_rng), "config": config,
            "intro_descriptions": rng.random() < 0.5}


def normalise_literals(tree: ast.AST) -> ast.AST:
    """`Literal["B", "A"]` and `Literal["A", "B"]` are the same type (the member order comes out of a Python set: C10's matter)"""
    for node in ast.walk(tree):
        if isinstance(node, ast.Subscript) and isinstance(node.value, ast.Name) and node.value.id == "Literal" and isinstance(node.slice, ast.Tuple):
            node.slice.elts.sort(key=ast.dump)
    return tree


def canon_module(text: str) -> Dict[str, Any]:
    tree = normalise_literals(ast.parse(text))
    out: Dict[str, Any] = {"classes": {}, "functions": {}, "assigns": {}, "exprs": [], "imports": []}
    for node in tree.body:  # type: ignore
        if isinstance(node, ast.ClassDef):
            out["classes"][node.name] = ast.unparse(node)
        elif isinstance(node, (ast.FunctionDef, ast.AsyncFunctionDef)):
            out["functions"][node.name] = ast.unparse(node)
        elif isinstance(node, ast.Assign) and isinstance(node.targets[0], ast.Name):
            if node.targets[0].id == "__all__" and isinstance(node.value, ast.List):
                out["assigns"]["__all__"] = sorted(ast.unparse(e) for e in node.value.elts)
            else:
                out["assigns"][node.targets[0].id] = ast.unparse(node.value)
        elif isinstance(node, ast.ImportFrom):
            out["imports"] += [[node.level, node.module or "", a.name, a.asname or ""] for a in node.names]
        elif isinstance(node, ast.Import):
            out["imports"] += [[0, a.name, "", a.asname or ""] for a in node.names]
        else:
            out["exprs"].append(ast.unparse(node))
    out["imports"].sort()
    out["exprs"].sort()
    return out


def input_classes_of_text(text: str) -> Dict[str, Any]:
    """input_types.py -> {class: [{name, gql, ann, default}]}; `gql` = the alias when the generator renamed the field"""
    tree = ast.parse(text)
    out: Dict[str, Any] = {}
    for node in tree.body:
        if not isinstance(node, ast.ClassDef):
            continue
        fields = []
        for st_ in node.body:
            if isinstance(st_, ast.AnnAssign) and isinstance(st_.target, ast.Name):
                gql, value = st_.target.id, st_.value
                if isinstance(value, ast.Call) and getattr(value.func, "id", "") == "Field":
                    kws = {k.arg: k.value for k in value.keywords}
                    if "alias" in kws and isinstance(kws["alias"], ast.Constant):
                        gql = kws["alias"].value
                        rest = [k for k in value.keywords if k.arg != "alias"]
                        if not rest:
                            value = None
                        elif len(rest) == 1 and rest[0].arg == "default":
                            value = rest[0].value
                        else:
                            value = ast.Call(func=value.func, args=[], keywords=rest)
                fields.append({"name": gql, "py": st_.target.id, "ann": ast.unparse(st_.annotation), "default": expr_json(value)})
        out[node.name] = fields
    return out


def _generate_source(root: Path, source: str, case: Dict[str, Any]) -> Dict[str, Any]:
    """(forked) one REAL generation; returns the emitted files as text"""
    cfg = dict(case["config"])
    cfg["target_package_name"] = "pkg_" + source
    sub = root / source
    sub.mkdir()
    if source == "file":
        gen = engine.generate_client(sub, case["sdl"], case["queries"], cfg)
    elif source == "split":
        gen = engine.generate_client(sub, case["split"], case["queries"], cfg)
    else:
        cfg["remote_schema_url"] = "http://verif.test/graphql"
        server_sdl = case["sdl"] if source == "intro_desc" else case["sdl_plain"]
        with patched_httpx(graphql_server(server_sdl)):
            gen = engine.generate_client(sub, None, case["queries"], cfg)
    return {f.name: f.read_text() for f in sorted(gen.dir.glob("*.py"))}


def _runtime_inputs(root: Path, source: str, module_name: str) -> Dict[str, Any]:
    """(forked) import one generated package; per input model field: is_required() and the default value"""
    import enum

    from pydantic import BaseModel

    sys.path.insert(0, str(root / source))
    importlib.invalidate_caches()
    pkg = "pkg_" + source
    importlib.import_module(pkg)
    for f in sorted((root / source / pkg).glob("*.py")):
        if f.stem != "__init__":
            importlib.import_module(f"{pkg}.{f.stem}")
    mod = importlib.import_module(f"{pkg}.{module_name}")

    def plain(v: Any) -> Any:
        if isinstance(v, BaseModel):
            return {"$model": type(v).__name__, "v": plain(v.model_dump(by_alias=True))}
        if isinstance(v, enum.Enum):
            return {"$enum": type(v).__name__, "v": v.value}
        if isinstance(v, dict):
            return {str(k): plain(x) for k, x in v.items()}
        if isinstance(v, (list, tuple)):
            return [plain(x) for x in v]
        if v is None or isinstance(v, (bool, int, float, str)):
            return v
        return {"$repr": repr(v)[:120]}

    out: Dict[str, Any] = {}
    for name, obj in vars(mod).items():
        if isinstance(obj, type) and issubclass(obj, BaseModel) and obj.__module__ == mod.__name__:
            fields = {}
            for fname, info in obj.model_fields.items():
                entry: Dict[str, Any] = {"required": info.is_required()}
                if not info.is_required():
                    try:
                        entry["default"] = plain(info.get_default(call_default_factory=True))
                    except Exception as e:  # noqa: BLE001
                        entry["default"] = {"$factory_raises": type(e).__name__}
                fields[info.alias or fname] = entry
            out[name] = fields
    return out


def _oracle_case(root: Path, case: Dict[str, Any], sources: List[str]) -> Dict[str, Any]:
    """child: every generation and every import in its own forked grandchild"""
    out: Dict[str, Any] = {"files": {}, "errors": {}, "runtime": {}}
    input_mod = case["config"].get("input_types_module_name", "input_types")
    for s in sources:
        status, val = engine.forked(_generate_source, root, s, case, timeout=180)
        if status == "ok":
            out["files"][s] = val
            st2, rt = engine.forked(_runtime_inputs, root, s, input_mod, timeout=120)
            out["runtime"][s] = rt if st2 == "ok" else {"$import_error": f"{st2}: {rt[0] if rt else ''}: {rt[1][:200] if rt else ''}"}
        elif status == "exc":
            out["errors"][s] = {"cls": val[0], "msg": val[1][:400]}
        else:
            out["errors"][s] = {"cls": "timeout", "msg": ""}
    return out


oracle_case = engine.with_scratch(_oracle_case)


def judge_packages(case: Dict[str, Any], obs: Dict[str, Any], sources: List[str], res: Result) -> None:
    facts = facts_from_sdl(case["sdl"])  # the trigger predicates read the SDL text itself
    defs = [d for d in facts["defs"] if d["kind"] == "input"]
    base = "file"
    inp_base = {"kind": "packages", "sdl": case["sdl"], "sdl_plain": case.get("sdl_plain", case["sdl"]), "queries": case["queries"],
                "split": case["split"], "config": case["config"]}
    dep_args = facts["dep_args"]
    for other in sources:
        if other == base:
            continue
        inp = {**inp_base, "pair": [base, other]}
        is_intro = other.startswith("intro")
        e1, e2 = obs["errors"].get(base), obs["errors"].get(other)
        if e1 or e2:
            if e1 and e2 and e1["cls"] == e2["cls"]:
                res.count("oracle:both-sources-refuse:" + e1["cls"])
                continue
            trig = None
            sig = "generation-fails-on-one-source"
            if is_intro and e2 and not e1 and e2["cls"] == "InvalidOperationForSchema":
                m = re.search(r"Unknown argument '(\w+)' on field '(\w+)\.(\w+)'", e2["msg"])
                if m and (m.group(2), m.group(3), m.group(1)) in dep_args:
                    trig, sig = TRIG_DEPRECATED, "operation-refused"
                m = re.search(r"The directive '@(\w+)' can only be used once at this location", e2["msg"])
                if m and m.group(1) in facts["repeatable"]:
                    trig, sig = TRIG_REPEATABLE, "operation-refused"
            if is_intro and e2 and not e1 and e2["cls"] == "InvalidInput" and facts["emptied_inputs"]:
                # every field of an input type is deprecated: the introspected type has no fields, the emitted class has an
                # empty body and black refuses the module (C19-F4)
                trig, sig = TRIG_DEPRECATED, "generation-fails-empty-input-class"
            res.failures.append(Failure(sig, trig, inp, f"{base}: {e1} / {other}: {e2}"[:400]))
            continue
        fa, fb = obs["files"][base], obs["files"][other]
        if set(fa) != set(fb):
            res.failures.append(Failure("file-set-differs", None, inp, f"{sorted(set(fa) ^ set(fb))}"))
            continue
        input_file = case["config"].get("input_types_module_name", "input_types") + ".py"
        for fname in sorted(fa):
            if fa[fname] == fb[fname]:
                continue
            ca, cb = canon_module(fa[fname]), canon_module(fb[fname])
            if fname == input_file:
                continue  # judged field by field below
            for part in ("classes", "functions", "assigns", "exprs", "imports"):
                if ca[part] != cb[part]:
                    kind = {"enums.py": "enum-classes-differ", "client.py": "client-methods-differ"}.get(fname, "result-models-differ")
                    detail = f"{fname}:{part}"
                    names = _differing_names(ca[part], cb[part])
                    detail += f" {sorted(names)[:4]}"
                    if is_intro and names and names <= facts["dep_targets"] and fname in ("enums.py", "__init__.py"):
                        # only whole classes that hang on a dropped deprecated input value are missing (C19-F4)
                        res.failures.append(Failure("pruned-by-dropped-deprecated-field", TRIG_DEPRECATED, inp, detail))
                        continue
                    res.failures.append(Failure(kind, None, inp, detail))
                    break
        if input_file in fa:
            ia, ib = input_classes_of_text(fa[input_file]), input_classes_of_text(fb[input_file])
            n_before = len(res.failures)
            odd = set(ia) ^ set(ib)
            if is_intro and odd and odd <= facts["dep_targets"] and set(ib) <= set(ia):
                res.failures.append(Failure("pruned-by-dropped-deprecated-field", TRIG_DEPRECATED, inp, f"{input_file}: {sorted(odd)} pruned"))
                ia = {k: v for k, v in ia.items() if k in ib}
            judge_input_pair({"classes": ia, "enums": {}}, {"classes": ib, "enums": {}}, defs, inp, res)
            if not is_intro:  # two SDL sources: nothing is excused
                for f in res.failures[n_before:]:
                    f.trigger = None
            ca, cb = canon_module(fa[input_file]), canon_module(fb[input_file])
            if ca["exprs"] != cb["exprs"] and len(res.failures) == n_before:
                res.failures.append(Failure("input-module-differs", None, inp, f"{ca['exprs']} vs {cb['exprs']}"[:300]))
        # the imported models: which fields are required, and every default value
        ra, rb = obs["runtime"].get(base, {}), obs["runtime"].get(other, {})
        if "$import_error" in ra or "$import_error" in rb:
            if ("$import_error" in ra) != ("$import_error" in rb):
                res.failures.append(Failure("package-imports-on-one-source-only", None, inp, f"{ra.get('$import_error')} / {rb.get('$import_error')}"[:300]))
            continue
        by_name = {d["name"]: {f["name"]: f for f in d["fields"]} for d in defs}
        for cname in sorted(set(ra) & set(rb)):
            for fname in sorted(set(ra[cname]) & set(rb[cname])):
                x, y = ra[cname][fname], rb[cname][fname]
                if x == y:
                    continue
                spec = by_name.get(cname, {}).get(fname)
                trig = TRIG_DEFAULT if (is_intro and spec is not None and effective_default(spec)) else None
                sig = "required-flip" if x["required"] != y["required"] else "default-lost"
                res.failures.append(Failure(sig, trig, inp, f"runtime {cname}.{fname}: {base} {json.dumps(x)[:90]} vs {other} {json.dumps(y)[:90]}"))
        res.count("oracle:pairs-compared")


def _differing_names(a: Any, b: Any) -> set:
    """names of the classes / exports / imports on which two canonical module parts differ (empty = not name-shaped)"""
    if isinstance(a, dict) and isinstance(b, dict):
        out = set()
        for k in set(a) | set(b):
            if a.get(k) != b.get(k):
                if k == "__all__" and isinstance(a.get(k), list) and isinstance(b.get(k), list):
                    out |= {x.strip("'\"") for x in set(a[k]) ^ set(b[k])}
                else:
                    out.add(k)
        return out
    if isinstance(a, list) and isinstance(b, list) and all(isinstance(x, list) and len(x) == 4 for x in a + b):
        ta, tb = {tuple(x) for x in a}, {tuple(x) for x in b}
        return {x[2] for x in ta ^ tb}
    return set()


def run_oracle(ctx: Ctx, res: Result, n: int, label: str = "oracle", focus: Optional[str] = None) -> None:
    rng = ctx.sub_rng(label)
    cases: List[Dict[str, Any]] = []
    attempts = 0
    while len(cases) < n and attempts < 6 * n + 10:
        attempts += 1
        c = gen_oracle_case(rng, len(cases), focus)
        if c is not None:
            cases.append(c)
    both_intro = ctx.thorough
    jobs = []
    for c in cases:
        srcs = ["file", "split"] + (["intro_desc", "intro_plain"] if both_intro else ["intro_desc" if c["intro_descriptions"] else "intro_plain"])
        jobs.append((c, srcs))
    _quiet_fork_warning()
    outs = engine.pmap_forked(oracle_case, jobs, timeout=600)
    for (c, srcs), (status, obs) in zip(jobs, outs):
        if status != "ok":
            raise common.Infra(f"oracle case failed in the harness: {status} {obs}")
        defs = spec_defs(c["schema"])
        res.seen(["packages", c["sdl"], c["queries"], sorted(c["split"])], nontrivial=True)
        res.count("oracle:cases")
        res.count("oracle:in-F1-region" if trig_default_lost(defs) else "oracle:outside-F1-region")
        if "\nextend " in c["sdl"]:
            res.count("oracle:single-file-with-extension-nodes")
        if any(t.startswith("extend ") or "\nextend " in t for t in c["split"].values()):
            res.count("oracle:split-with-extension-nodes")
        res.count("oracle:split-files", len([k for k in c["split"] if PurePosixPath(k).suffix in EXTS_OK]))
        for s in srcs:
            res.count("oracle:generated:" + s if s in obs["files"] else "oracle:refused:" + s + ":" + obs["errors"].get(s, {}).get("cls", "?"))
        judge_packages(c, obs, srcs, res)
        if c["idx"] == 0:
            res.sample({"observation": "packages", "sources": srcs, "files": sorted(obs["files"].get("file", {})), "split_files": sorted(c["split"])})


# --------------------------------------------------------------------------------------------
# 6. cheap property oracle for the file part: one file vs a split, through the REAL builder
# --------------------------------------------------------------------------------------------


def schema_print_map(sch: Any) -> Dict[str, str]:
    from graphql import print_type
    from graphql.utilities.print_schema import print_directive

    out = {n: print_type(t) for n, t in sch.type_map.items() if not n.startswith("__")}
    for d in sch.directives:
        out["@" + d.name] = print_directive(d)
    out["$roots"] = json.dumps([getattr(sch.query_type, "name", None), getattr(sch.mutation_type, "name", None),
                                getattr(sch.subscription_type, "name", None)])
    return out


def check_split_schemas(ctx: Ctx, res: Result, n: int) -> None:
    S = _schema_mod()
    rng = ctx.sub_rng("split-schemas")
    base = Path(tempfile.mkdtemp(prefix=engine.SCRATCH_PREFIX, dir=engine.scratch_root()))
    try:
        for i in range(n):
            schema = schema_gen.gen_schema(rng, size=rng.choice([1, 2, 3]), subscription=rng.random() < 0.2, custom_root_names=0.3)
            decorate_schema(schema, rng, rng.choice([0.0, 0.4]), rng.choice([0.0, 0.1]), rng.choice([0.0, 0.5, 1.0]))
            single = "\n\n".join(render_defs(schema, True, rng if rng.random() < 0.4 else None)) + "\n"  # 40%: extension nodes in the single file too
            files = split_defs(render_defs(schema, True, rng), rng)
            root = base / f"s{i}"
            (root / "tree").mkdir(parents=True)
            (root / "schema.graphql").write_text(single)
            items = list(files.items())
            rng.shuffle(items)
            for rel, text in items:
                p = root / "tree" / rel
                p.parent.mkdir(parents=True, exist_ok=True)
                p.write_text(text)
            inp = {"kind": "split-schema", "sdl": single, "split": files}
            try:
                a = schema_print_map(S.get_graphql_schema_from_path(str(root / "schema.graphql")))
                b = schema_print_map(S.get_graphql_schema_from_path(str(root / "tree")))
            except (AttributeError, ImportError) as e:
                res.mismatches.append(Mismatch("split-schema", inp, f"observer: {e!r}", None))
                continue
            except Exception as e:  # noqa: BLE001
                res.failures.append(Failure("split-does-not-load", None, inp, f"{type(e).__name__}: {e}"[:300]))
                continue
            finally:
                shutil.rmtree(root, ignore_errors=True)
            res.seen(["split-schema", single, sorted(files)], nontrivial=len(files) > 1)
            res.count("split-schema:cases")
            if a != b:
                diff = sorted(k for k in set(a) | set(b) if a.get(k) != b.get(k))
                res.failures.append(Failure("split-changes-schema", None, inp, f"differs on {diff[:5]}"))
    finally:
        shutil.rmtree(base, ignore_errors=True)


# --------------------------------------------------------------------------------------------
# 7. replay of concrete inputs (finding witnesses, corpus, --replay)
# --------------------------------------------------------------------------------------------


def lit_of_ast(node: Any) -> Dict[str, Any]:
    from graphql import (BooleanValueNode, EnumValueNode, FloatValueNode, IntValueNode, ListValueNode, NullValueNode,
                         ObjectValueNode, StringValueNode)

    if isinstance(node, IntValueNode):
        return {"k": "int", "v": int(node.value)}
    if isinstance(node, FloatValueNode):
        return {"k": "float", "v": node.value}
    if isinstance(node, StringValueNode):
        return {"k": "str", "v": node.value}
    if isinstance(node, BooleanValueNode):
        return {"k": "bool", "v": bool(node.value)}
    if isinstance(node, NullValueNode):
        return {"k": "null"}
    if isinstance(node, EnumValueNode):
        return {"k": "enum", "v": node.value}
    if isinstance(node, ListValueNode):
        return {"k": "list", "v": [lit_of_ast(v) for v in node.values]}
    if isinstance(node, ObjectValueNode):
        return {"k": "obj", "v": [[f.name.value, lit_of_ast(f.value)] for f in node.fields]}
    return {"k": "?"}


def typeref_of_ast(node: Any) -> List[Any]:
    from graphql import ListTypeNode, NonNullTypeNode

    if isinstance(node, NonNullTypeNode):
        return ["nonnull", typeref_of_ast(node.type)]
    if isinstance(node, ListTypeNode):
        return ["list", typeref_of_ast(node.type)]
    return ["named", node.name.value]


def facts_from_sdl(sdl: str) -> Dict[str, Any]:
    """what the trigger predicates need, read from the SDL text itself (input fields with defaults / deprecation,
    deprecated arguments, repeatable directives)"""
    from graphql import (DirectiveDefinitionNode, EnumTypeDefinitionNode, InputObjectTypeDefinitionNode,
                         InputObjectTypeExtensionNode, InterfaceTypeDefinitionNode, InterfaceTypeExtensionNode,
                         ObjectTypeDefinitionNode, ObjectTypeExtensionNode, ScalarTypeDefinitionNode, parse)

    doc = parse(sdl)
    inputs: Dict[str, List[Dict[str, Any]]] = {}
    defs: List[Dict[str, Any]] = []
    dep_args = set()
    dep_arg_types = set()
    repeatable = set()
    for d in doc.definitions:
        if isinstance(d, (InputObjectTypeDefinitionNode, InputObjectTypeExtensionNode)):
            fs = inputs.setdefault(d.name.value, [])
            for f in d.fields or []:
                fs.append({"name": f.name.value, "type": typeref_of_ast(f.type),
                           "default": lit_of_ast(f.default_value) if f.default_value else None,
                           "deprecated": any(x.name.value == "deprecated" for x in f.directives or [])})
        elif isinstance(d, EnumTypeDefinitionNode):
            defs.append({"kind": "enum", "name": d.name.value, "values": [v.name.value for v in d.values or []]})
        elif isinstance(d, ScalarTypeDefinitionNode):
            defs.append({"kind": "scalar", "name": d.name.value})
        elif isinstance(d, (ObjectTypeDefinitionNode, ObjectTypeExtensionNode, InterfaceTypeDefinitionNode, InterfaceTypeExtensionNode)):
            if isinstance(d, (ObjectTypeDefinitionNode, InterfaceTypeDefinitionNode)):
                defs.append({"kind": "composite", "name": d.name.value})
            for f in d.fields or []:
                for a in f.arguments or []:
                    if any(x.name.value == "deprecated" for x in a.directives or []):
                        dep_args.add((d.name.value, f.name.value, a.name.value))
                        dep_arg_types.add(schema_gen.unwrap(typeref_of_ast(a.type)))
        elif isinstance(d, DirectiveDefinitionNode) and d.repeatable:
            repeatable.add(d.name.value)
        else:
            name = getattr(getattr(d, "name", None), "value", None)
            if name:
                defs.append({"kind": "composite", "name": name})
    defs += [{"kind": "input", "name": n, "fields": fs} for n, fs in inputs.items()]
    # types that are reachable through a deprecated input field / argument (with include_all_inputs/enums = false the
    # generator prunes what the operations do not reach, so dropping such a field can prune these types too)
    todo = [schema_gen.unwrap(f["type"]) for fs in inputs.values() for f in fs if f["deprecated"]] + list(dep_arg_types)
    dep_targets: set = set()
    while todo:
        n = todo.pop()
        if n in dep_targets:
            continue
        dep_targets.add(n)
        todo += [schema_gen.unwrap(f["type"]) for f in inputs.get(n, [])]
    emptied = {n for n, fs in inputs.items() if fs and all(f["deprecated"] for f in fs)}
    return {"defs": defs, "dep_args": dep_args, "repeatable": repeatable, "dep_targets": dep_targets, "emptied_inputs": emptied}


_REPLAY_VERBOSE = [False]


def _show(impl: Dict[str, Any]) -> None:
    if _REPLAY_VERBOSE[0]:
        print("observed:", json.dumps(impl, default=repr)[:600])


def replay_input(ctx: Ctx, inp: Dict[str, Any]) -> Result:
    """run ONE concrete input against the real code; failures (with their trigger classification) in the result"""
    res = Result()
    kind = inp.get("kind")
    if kind == "inputs":
        defs = inp.get("defs") or facts_from_sdl(inp["sdl"])["defs"]
        status, val = engine.forked(inputs_chunk, [{"sdl": inp["sdl"], "defs": defs}], timeout=120)
        if status != "ok":
            raise common.Infra(f"replay failed in the harness: {status} {val}")
        o = val[0]
        if "build_error" in o or "observer" in o:
            raise common.Infra(f"replay input does not build: {o}")
        judge_input_pair(o["sdl"], o["intro"], defs, inp, res)
    elif kind == "remote":
        content = inp["body_latin1"].encode("latin1")
        impl = observe_remote(inp["status"], content, None)
        ok, body = _decode(content)
        fc = is_failure(inp["status"], ok, body)
        if fc and impl["o"] == "other":
            res.failures.append(Failure("untyped-builder-exception", TRIG_REJECTED if fc == "malformed-data" else None, inp,
                                        f"{fc}: {impl['exc']} escapes instead of IntrospectionError"))
        elif fc and impl["o"] == "schema":
            res.failures.append(Failure("failed-introspection-accepted", None, inp, fc))
        elif not fc and impl["o"] != "schema":
            res.failures.append(Failure("valid-introspection-refused", None, inp, json.dumps(impl)[:200]))
    elif kind == "remote-raised":
        row = next((r for r in exception_table() if r[0] == inp["raised"]), None)
        if row is None:
            raise common.Infra(f"unknown exception class {inp['raised']!r} (not exported by the installed httpx / not in the table)")
        cls = row[1]
        impl = observe_remote(None, None, lambda: make_exception(cls, inp.get("message", "simulated")))
        _show(impl)
        if listed_failure_exc(cls) and impl["o"] == "other":
            f6 = trig_request_exc_untyped(cls)
            res.failures.append(Failure("untyped-request-exception" if f6 else "untyped-transport-exception", TRIG_REQUEST_EXC if f6 else None, inp,
                                        f"{impl['qual']} escapes instead of IntrospectionError"))
        elif listed_failure_exc(cls) and impl["o"] == "schema":
            res.failures.append(Failure("failed-introspection-accepted", None, inp, "a schema was returned"))
    elif kind == "remote-url":
        impl = observe_remote(200, json.dumps({"data": valid_data()}).encode(), None, url=inp["url"])
        _show(impl)
        if impl["o"] == "other":
            res.failures.append(Failure("untyped-transport-exception", None, inp, f"{impl['exc']} escapes instead of IntrospectionError"))
        elif impl["o"] == "schema":
            res.failures.append(Failure("failed-introspection-accepted", None, inp, "a schema was returned"))
    elif kind == "remote-url-real":
        impl = observe_real_url(inp["url"])
        _show(impl)
        judge_real_transport(inp, impl, res)
    elif kind == "remote-loopback":
        impl = observe_loopback(inp["behaviour"])
        _show(impl)
        judge_real_transport(inp, impl, res, expect="schema" if inp["behaviour"] == "valid" else "failure")
    elif kind == "packages":
        case = {"idx": -1, "sdl": inp["sdl"], "sdl_plain": inp.get("sdl_plain", inp["sdl"]), "queries": inp["queries"],
                "split": inp.get("split") or {"schema.graphql": inp["sdl"]}, "config": inp.get("config", {})}
        srcs = ["file", "split", "intro_desc"]
        status, obs = engine.forked(oracle_case, case, srcs, timeout=600)
        if status != "ok":
            raise common.Infra(f"replay failed in the harness: {status} {obs}")
        judge_packages(case, obs, srcs, res)
    elif kind == "split-schema":
        S = _schema_mod()
        root = Path(tempfile.mkdtemp(prefix=engine.SCRATCH_PREFIX, dir=engine.scratch_root()))
        try:
            (root / "tree").mkdir()
            (root / "schema.graphql").write_text(inp["sdl"])
            for rel, text in inp["split"].items():
                p = root / "tree" / rel
                p.parent.mkdir(parents=True, exist_ok=True)
                p.write_text(text)
            try:
                a = schema_print_map(S.get_graphql_schema_from_path(str(root / "schema.graphql")))
                b = schema_print_map(S.get_graphql_schema_from_path(str(root / "tree")))
                if a != b:
                    res.failures.append(Failure("split-changes-schema", None, inp, str(sorted(k for k in set(a) | set(b) if a.get(k) != b.get(k))[:5])))
            except Exception as e:  # noqa: BLE001
                res.failures.append(Failure("split-does-not-load", None, inp, f"{type(e).__name__}: {e}"[:300]))
        finally:
            shutil.rmtree(root, ignore_errors=True)
    elif kind == "source":
        work = Path(tempfile.mkdtemp(prefix=engine.SCRATCH_PREFIX, dir=engine.scratch_root()))
        try:
            o = observe_source(inp, work)
        finally:
            shutil.rmtree(work, ignore_errors=True)
        c = {k: v for k, v in inp.items() if k != "kind"}
        second = o.pop("second", None)
        judge_source(c, o, res)
        if second is not None:
            judge_source(c, second, res, which="second run in the same process: ")
        _show({k: v for k, v in o.items() if k != "query"})
    elif kind == "suffix":
        root = Path(tempfile.mkdtemp(prefix=engine.SCRATCH_PREFIX, dir=engine.scratch_root()))
        try:
            (root / inp["name"]).write_text("x")
            got = bool(list(_schema_mod().walk_graphql_files(root)))
        finally:
            shutil.rmtree(root, ignore_errors=True)
        want = any(inp["name"].endswith(e) and len(inp["name"]) > len(e) for e in (".graphql", ".graphqls", ".gql"))
        if got != want:
            res.failures.append(Failure("suffix-selection", None, inp, f"yields={got} documented={want}"))
    else:
        raise common.Infra(f"unknown replay input kind {kind!r}")
    return res


# --------------------------------------------------------------------------------------------
# entry points
# --------------------------------------------------------------------------------------------

FINGERPRINT_ITEMS: List[Tuple[str, Optional[str]]] = [
    ("ariadne_codegen/schema.py", "get_graphql_schema_from_url"),
    ("ariadne_codegen/schema.py", "introspect_remote_schema"),
    ("ariadne_codegen/schema.py", "get_graphql_schema_from_path"),
    ("ariadne_codegen/schema.py", "load_graphql_files_from_path"),
    ("ariadne_codegen/schema.py", "walk_graphql_files"),
    ("ariadne_codegen/schema.py", "read_graphql_file"),
    ("ariadne_codegen/settings.py", "BaseSettings.__post_init__"),
    ("ariadne_codegen/settings.py", "resolve_headers"),
    ("ariadne_codegen/settings.py", "get_header_value"),
    ("ariadne_codegen/main.py", "client"),
    ("ariadne_codegen/main.py", "graphql_schema"),
    ("ariadne_codegen/client_generators/input_fields.py", "parse_input_field_type"),
    ("ariadne_codegen/client_generators/input_fields.py", "parse_input_field_default_value"),
    ("ariadne_codegen/client_generators/input_fields.py", "parse_input_const_value_node"),
    ("ariadne_codegen/client_generators/input_types.py", "InputTypesGenerator._parse_input_definition"),
    ("ariadne_codegen/client_generators/enums.py", "EnumsGenerator._parse_enum_definition"),
]


def replay_corpus(ctx: Ctx, res: Result) -> None:
    """finding witnesses (open and fixed) and every file of corpus/C19, replayed first"""
    findings = common.load_findings(PROP)
    for f in findings:
        w = f.get("witness")
        if not w:
            continue
        r = replay_input(ctx, w)
        sigs = f["signature"] if isinstance(f["signature"], list) else [f["signature"]]
        hit = [x for x in r.failures if x.trigger == f.get("trigger") and x.signature in sigs]
        res.witness_status[f["id"]] = "reproduces" if hit else "gone"
        if f.get("status") == "fixed":
            for x in r.failures:  # a repaired defect that fails again is a violation
                x.trigger = None
        res.failures += r.failures
        res.seen(["witness", f["id"]])
    cdir = common.CORPUS / PROP
    if cdir.is_dir():
        for p in sorted(cdir.glob("*.json")):
            payload = json.loads(p.read_text())
            r = replay_input(ctx, payload["input"])
            res.failures += r.failures
            res.seen(["corpus", p.name])
            res.count("corpus:files")


def run(ctx: Ctx, st: Optional[LeanStatus]) -> Result:
    res = Result()
    res.rule = (
        "correspondence: suffix table (fixed names + all names over {a . g q l} up to length 5/6), random directory trees on disk, "
        "graphql-core's Lexer vs Spec/GqlLexer token by token (templates, rendered SDL, fragment and alphabet compositions, mutated SDL; errors by class) "
        "and the token stream of sep.join(texts) for the measured separator and eight others, "
        "the complete introspection table (%d statuses x %d body classes + every exception class of the installed httpx, user subclasses and foreign exceptions (%d classes) "
        "with random messages, weighted 60%% into the TransportError family + unparseable URLs) plus random bodies, the real transport on unreachable URLs and a misbehaving loopback endpoint, "
        "random source configurations through the real main.client and main.graphql_schema (some run twice in one process; environment values that themselves "
        "start with `$`), direct calls of get_graphql_schema_from_url / introspect_remote_schema with arbitrary header dicts, "
        "random input-centric schemas through both real builders; "
        "oracle: random schemas + operations generated from three (thorough: four) sources and compared package by package. "
        "distinct = distinct inputs; non-trivial = a name with a dot, a tree loading > 1 definition, a table cell or a 2xx JSON object body, "
        "a configuration with headers or a refusal, every schema" % (len(STATUSES), len(body_table()), len(exception_table()))
    )
    fp = common.fingerprints(ctx, FINGERPRINT_ITEMS)
    res.extra["fingerprints"] = fp
    replay_corpus(ctx, res)
    ctx.log(f"witnesses: {res.witness_status}")
    check_real_transport(res)
    check_suffixes(ctx, st, res)
    check_trees(ctx, st, res, ctx.budget(400, 3000))
    check_lexer(ctx, st, res, ctx.budget(2500, 20000))
    check_remote(ctx, st, res)
    check_sources(ctx, st, res, ctx.budget(200, 1500))
    check_urlcalls(ctx, st, res, ctx.budget(150, 1000))
    ctx.log(f"files/remote/settings correspondence done: {res.evaluations} evaluations, {len(res.mismatches)} mismatches")
    check_inputs(ctx, st, res, ctx.budget(300, 3000))
    check_split_schemas(ctx, res, ctx.budget(60, 400))
    ctx.log(f"inputs correspondence + split oracle done: {res.evaluations} evaluations, {len(res.mismatches)} mismatches")
    run_oracle(ctx, res, ctx.budget(30, 240))
    res.exhaustive = False
    res.extra["parser_not_definitionwise_witness"] = parser_witness()
    res.extra["introspection_table_cells"] = len(STATUSES) * len(body_table())
    res.oracle_only += [
        "graphql-core's parse / build_ast_schema / build_client_schema / validate and its introspection executor are black boxes: "
        "only when ariadne-codegen calls them and what it does with the outcome is modelled (Spec/BuildClientSchema covers the first two checks)",
        "result models, client methods and operation strings across sources are compared by the package oracle only; the Lean side "
        "contributes ast_uses_confined (no generator outside the input-default path reads a source-sensitive attribute)",
        "finding C19-F5 (repeatable directives) and the deprecated-argument half of C19-F4 live in graphql-core's validation: witness replay only",
        "httpx: URL parsing, what raises InvalidURL, redirects not followed by httpx.post, which exception class the real transport raises for which failure "
        "- observed through a transport-level patch, the real transport on unreachable URLs and a loopback endpoint; the class hierarchy of httpx reaches the model as the MRO of each exception",
        "exceptions of httpx.post outside httpx.InvalidURL / httpx.RequestError (foreign exceptions of a custom transport, UnicodeEncodeError for a non-ASCII header value) are outside the "
        "property: compared with the model (they escape unchanged), never judged",
    ]
    res.assumptions += [
        "graphql-core's parser sees only the token stream (comments dropped) and parses a stream made of complete type-system documents definition by definition "
        "(Lean: DefinitionWise, a hypothesis of joined_text_definitions; checked on every tree of this run; NOT true of the full grammar: `type A` + `{ x: Int }` "
        "is one definition - recorded under extra.parser_not_definitionwise_witness). The lexical half of the former assumption is a theorem now (joined_text_tokens) "
        "over Spec/GqlLexer, which is tied to the real Lexer by the `lex` correspondence",
        "Path.glob('**/*') yields every descendant exactly once, in an unspecified order (CPython 3.12 pathlib)",
        "a spec-conformant endpoint answers the introspection query as graphql-core's executor does (deprecated input values only with includeDeprecated: true)",
    ]
    return res


def search(ctx: Ctx) -> Result:
    """after a broken proof / correspondence: judge the real code with the big budgets"""
    res = Result()
    check_real_transport(res)
    check_remote(ctx, None, res)
    check_sources(ctx, None, res, 1000)
    check_suffixes(ctx, None, res)
    check_inputs(ctx, None, res, 1500)
    check_split_schemas(ctx, res, 300)
    run_oracle(ctx, res, 80, label="search")
    run_oracle(ctx, res, 30, label="search-clean", focus="clean")
    return res


def replay(ctx: Ctx, payload: Dict[str, Any]) -> int:
    inp = payload.get("input")
    if not inp:
        print(json.dumps(payload, indent=1)[:3000])
        return 1
    _REPLAY_VERBOSE[0] = True
    res = replay_input(ctx, inp)
    findings = common.load_findings(PROP)
    rc = 0
    for f in res.failures:
        hit = common.match_finding(f, findings)
        print(("KNOWN-FINDING " + hit["id"]) if hit else "FAILS", f.signature, f.trigger, "-", f.detail[:300])
        rc = 1
    if not res.failures:
        print("ok: the property holds on this input")
    return rc
