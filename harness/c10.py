"""C10 — generation is deterministic and idempotent.

Three layers (DESIGN.md §3 C10):

* ORACLE (the property itself, independent of the Lean model): the real entry points
  `ariadne_codegen.main.client` / `main.graphql_schema` are run in SUBPROCESSES (harness/c10_sub.py)
  under different PYTHONHASHSEED values, with the schema / query files created in different orders,
  into a fresh directory and a second time over what the first run left; the file set, sha256 of
  every file and the printed file list must all be identical.
* CORRESPONDENCE (model = code): the Lean models of the fragments topological sort, the rebuild-call
  ordering, `FragmentsGenerator.generate`, the set-fed import statements (operation modules,
  ClientForwardRefs, ShorterResults), `load_graphql_files_from_path`, and the reference semantics of
  isort's name ordering are compared with the real functions on generated inputs, directly and
  through full generations.  Inside every full generation the set-fed emission points of the result
  modules are observed too (the bases of every generated class against the set `fragments` it was built
  from, every `_get_typename_values`, the fragment definitions appended to every operation string,
  `TypeCollector.collect`), as is the order in which the configured plugins were loaded; the plugin
  explorer + manager are also driven directly on scratch plugin modules whose hooks record their order.
* FINDINGS: every witness in corpus/C10 is replayed on every run.
"""
from __future__ import annotations

import ast
import difflib
import json
import os
import random
import re
import shutil
import subprocess
import sys
import tempfile
import warnings
from concurrent.futures import ThreadPoolExecutor
from pathlib import Path
from typing import Any, Dict, List, Optional, Tuple

from . import c10_sub, common, engine
from .common import Ctx, Failure, LeanStatus, Mismatch, Result



def _quiet() -> None:
    # mp feeder threads + fork; re-applied before every pool because importing ariadne_codegen.config
    # installs simplefilter("default", DeprecationWarning) in front of earlier filters
    warnings.filterwarnings("ignore", category=DeprecationWarning, message=".*multi-threaded.*")


SUB = Path(__file__).with_name("c10_sub.py")
PKG = "gen_pkg"
P_SHORT = "ariadne_codegen.contrib.shorter_results.ShorterResultsPlugin"
P_FWD = "ariadne_codegen.contrib.client_forward_refs.ClientForwardRefsPlugin"
P_EXTRACT = "ariadne_codegen.contrib.extract_operations.ExtractOperationsPlugin"
P_NOREIMP = "ariadne_codegen.contrib.no_reimports.NoReimportsPlugin"

TRIG_TIE = "isortKeyTie"  # C10-F2
TRIG_OWN = "ownPackageImport"  # C10-F3
SIG_TIE = "tied-import-names-reordered"
SIG_OWN = "regenerate-import-sections-differ"

# --------------------------------------------------------------------------------------------
# isort's own keys (used to CLASSIFY inputs/outputs; the Lean copy is checked against these)
# --------------------------------------------------------------------------------------------


def _natural(text: str) -> List[Any]:
    return [int(c) if c.isdigit() else c for c in re.split(r"(\d+)", text)]


def isort_name_key(name: str) -> List[Any]:
    try:
        from isort import sorting
        from isort.settings import DEFAULT_CONFIG

        return _natural(sorting.module_key(name, DEFAULT_CONFIG, True, False))
    except Exception:  # isort moved its internals: fall back to the documented behaviour
        prefix = "A" if name.isupper() and len(name) > 1 else "B" if name[0:1].isupper() else "C"
        return _natural("B" + prefix + name.lower())


def isort_module_key(dotted: str) -> List[Any]:
    try:
        from isort import sorting
        from isort.settings import DEFAULT_CONFIG

        return _natural(sorting.module_key(dotted, DEFAULT_CONFIG))
    except Exception:
        m = re.match(r"^(\.+)\s*(.*)", dotted)
        return _natural("B" + ("_".join(m.groups()) if m else dotted).lower())


def has_name_tie(names: List[str]) -> bool:
    seen: Dict[str, str] = {}
    for n in names:
        k = json.dumps(isort_name_key(n))
        if k in seen and seen[k] != n:
            return True
        seen.setdefault(k, n)
    return False


def pascal(name: str) -> str:
    return "".join(n[:1].upper() + n[1:] for n in name.split("_"))


# --------------------------------------------------------------------------------------------
# case generator: schema (split over files) + operations with fragment dependency graphs + config
# --------------------------------------------------------------------------------------------

SCALAR_CFG = [
    None,
    {"type": "str"},
    {"type": "datetime.datetime"},
    {"type": "decimal.Decimal", "parse": "decimal.Decimal", "serialize": "str"},
    {"type": "uuid.UUID"},
    {"type": "my_scalars.codecs.Money", "parse": "my_scalars.codecs.parse_money", "serialize": "my_scalars.codecs.dump_money"},
]
BUILTIN = ["String", "Int", "Float", "Boolean", "ID"]
LETTERS = "abcdefghijklmnopqrstuvwxyz"


class Names:
    """fresh identifiers; no two of them tie on isort's key unless `ties` asks for it"""

    def __init__(self, rng: random.Random) -> None:
        self.rng = rng
        self.used: set = set()

    def fresh(self, style: str) -> str:
        for _ in range(1000):
            n = self._draw(style)
            low = re.sub(r"\d+", lambda m: str(int(m.group())), pascal(n).lower())
            if low in self.used or n.lower() in ("query", "mutation", "subscription", "id", "client", "enums", "fragments"):
                continue
            self.used.add(low)
            return n
        raise common.Infra("name pool exhausted")

    def _draw(self, style: str) -> str:
        r = self.rng
        core = "".join(r.choice(LETTERS) for _ in range(r.randint(1, 3)))
        tail = r.choice(["", "", "", str(r.randint(0, 12)), r.choice(LETTERS).upper() + r.choice(LETTERS)])
        if style == "type":
            return core.capitalize() + tail
        if style == "enum":
            return r.choice([core.capitalize() + tail, core.upper() + "_" + r.choice(LETTERS).upper(), core.capitalize() + "Kind"])
        if style == "frag":  # fragments: first letter of either case so that dependants sort before or after
            return (core.capitalize() if r.random() < 0.6 else core) + tail
        if style == "op":
            return r.choice(["get", "list", "find", "do", ""]) + core.capitalize() + tail
        if style == "field":
            return core + r.choice(["", "Name", "Count", "At", "_x", "2"])
        return core


def wrap_type(rng: random.Random, t: str, allow_list: bool = True) -> str:
    r = rng.random()
    if r < 0.4:
        return t
    if r < 0.65:
        return t + "!"
    if not allow_list:
        return t
    return rng.choice([f"[{t}]", f"[{t}!]", f"[{t}!]!", f"[{t}]!"])


def gen_case(rng: random.Random, size: int = 2, label: str = "rand", directed: bool = False) -> Dict[str, Any]:
    """A valid (schema, operations, config) triple.  size 1..3 scales the number of types/fragments.

    `directed`: every unordered collection that feeds emitted order gets at least two (mostly three or more)
    members in this case, and every ordered configuration list at least two entries whose order matters:
    a FAMILY of fragments on one object (a base fragment, two or more fragments spreading it, all of them
    spread side by side in one selection -> class bases, mixin imports, related fragments, topological sort),
    and two or more plugins whose hooks do not commute (ShorterResults / ClientForwardRefs)."""
    nm = Names(rng)
    enums = [nm.fresh("enum") for _ in range(rng.randint(2, 2 + 2 * size))]
    # two enums whose names tie on isort's key (they differ only in letter case): every import list they reach
    # TOGETHER keeps its source order through isort, so a list that is deterministic today shows at once when it
    # starts to come out of a set (and the set-fed lists of finding C10-F2 show as that finding)
    twins: Optional[Tuple[str, str]] = None
    if directed or rng.random() < 0.3:
        mid = rng.choice(LETTERS).upper() + rng.choice(LETTERS)
        twins = ("Os" + mid + "Type", "OS" + mid + "Type")
        nm.used.add(twins[0].lower())
        enums += list(twins)
    scalars = [nm.fresh("type") for _ in range(rng.randint(1, 1 + size))]
    ifaces = [nm.fresh("type") for _ in range(rng.randint(1, 2))]
    objs = [nm.fresh("type") for _ in range(rng.randint(3, 3 + 2 * size))]
    unions = [nm.fresh("type") for _ in range(rng.randint(1, 2))]
    inputs = [nm.fresh("type") for _ in range(rng.randint(1, 1 + size))]
    leaf_pool = BUILTIN + enums + scalars
    chunks: List[str] = []
    for e in enums:
        vals = sorted({"".join(rng.choice(LETTERS).upper() for _ in range(rng.randint(1, 3))) + rng.choice(["", "_X", "1"]) for _ in range(rng.randint(2, 5))})
        rng.shuffle(vals)
        chunks.append(f"enum {e} {{ {' '.join(vals)} }}")
    for s in scalars:
        chunks.append(f"scalar {s}")
    iface_fields: Dict[str, List[Tuple[str, str]]] = {}
    for i in ifaces:
        fs = [("id", "ID!")] + [(f"{i[0].lower()}{nm.fresh('field')}", wrap_type(rng, rng.choice(leaf_pool))) for _ in range(rng.randint(1, 2))]
        iface_fields[i] = fs
        chunks.append(f"interface {i} {{ " + " ".join(f"{n}: {t}" for n, t in fs) + " }")
    obj_fields: Dict[str, List[Tuple[str, str, str]]] = {}  # name, type text, named type
    obj_ifaces: Dict[str, List[str]] = {}
    for o in objs:
        impl = [i for i in ifaces if rng.random() < 0.45]
        if directed and objs.index(o) < 3 and ifaces[0] not in impl:
            impl.append(ifaces[0])  # an interface with three implementing types
        obj_ifaces[o] = impl
        fs: List[Tuple[str, str, str]] = [("id", "ID!", "ID")]
        if twins and o == objs[0]:
            fs += [("twinA", twins[0], twins[0]), ("twinB", wrap_type(rng, twins[1]), twins[1])]
        for i in impl:
            for n, t in iface_fields[i]:
                if n not in [f[0] for f in fs]:
                    fs.append((n, t, t.strip("[]!")))
        for _ in range(rng.randint(2, 3 + size)):
            t = rng.choice(leaf_pool)
            fs.append((f"{o[0].lower()}{nm.fresh('field')}", wrap_type(rng, t), t))
        for _ in range(rng.randint(1, 2)):
            t = rng.choice(objs + ifaces + unions)
            fs.append((f"{o[0].lower()}{nm.fresh('field')}", wrap_type(rng, t), t))
        obj_fields[o] = fs
        head = f"type {o}" + (" implements " + " & ".join(impl) if impl else "")
        chunks.append(head + " { " + " ".join(f"{n}: {t}" for n, t, _ in fs) + " }")
    union_members: Dict[str, List[str]] = {}
    for u in unions:
        mem = rng.sample(objs, rng.randint(2, min(len(objs), 2 + 2 * size)))
        union_members[u] = mem
        chunks.append(f"union {u} = " + " | ".join(mem))
    for k, inp in enumerate(inputs):
        fs2 = [(nm.fresh("field"), wrap_type(rng, rng.choice(leaf_pool))) for _ in range(rng.randint(1, 3))]
        if k > 0 and rng.random() < 0.6:
            fs2.append((nm.fresh("field"), wrap_type(rng, rng.choice(inputs[:k]))))
        if rng.random() < 0.3:
            fs2.append((nm.fresh("field"), inp))  # recursive input
        chunks.append(f"input {inp} {{ " + " ".join(f"{n}: {t}" for n, t in fs2) + " }")
    qfields: List[Tuple[str, str, str, List[Tuple[str, str]]]] = []  # name, type text, named, args
    for t in objs + ifaces + unions:
        args = []
        if rng.random() < 0.6:
            args.append(("id", "ID"))
        if rng.random() < 0.4:
            args.append(("flt", rng.choice(inputs)))
        if rng.random() < 0.3:
            args.append(("kind", rng.choice(enums)))
        qfields.append((f"q{t}", wrap_type(rng, t), t, args))
    def fields_sdl(fs: List[Tuple[str, str, str, List[Tuple[str, str]]]]) -> str:
        return " ".join(n + ("(" + ", ".join(f"{a}: {at}" for a, at in args) + ")" if args else "") + f": {t}" for n, t, _, args in fs)
    chunks.append("type Query { " + fields_sdl(qfields) + " }")
    mfields = []
    if rng.random() < 0.5:
        t = rng.choice(objs)
        mfields.append((f"m{t}", t, t, [("inp", rng.choice(inputs) + "!")]))
        chunks.append("type Mutation { " + fields_sdl(mfields) + " }")
    # ---- split the SDL over files whose sorted order differs from any creation order
    rng.shuffle(chunks)
    if rng.random() < 0.25:
        schema: Any = "\n\n".join(chunks) + "\n"
    else:
        schema = {}
        nfiles = rng.randint(2, 6)
        fnames = []
        for i in range(nfiles):
            d = rng.choice(["", "", "sub/", "Sub/", "a-b/", "sub/deep/"])
            fnames.append(d + rng.choice(LETTERS + "ZQ_") + rng.choice(LETTERS) + str(i) + rng.choice([".graphql", ".graphqls", ".gql"]))
        for i, c in enumerate(chunks):
            f = fnames[i % nfiles] if i < nfiles else rng.choice(fnames)
            schema[f] = schema.get(f, "") + c + "\n\n"
        schema["notes.txt"] = "not graphql"  # ignored by walk_graphql_files
    # ---- fragments
    leafset = set(leaf_pool)

    def leaf_fields(o: str) -> List[str]:
        return [n for n, _, t in obj_fields[o] if t in leafset]

    frags: Dict[str, str] = {}  # name -> text
    frags_on: Dict[str, List[str]] = {t: [] for t in objs + ifaces + unions}
    family_obj = rng.choice(objs) if (directed or rng.random() < 0.35) else None
    family: List[str] = []
    for o in objs:
        k = rng.randint(0, 2 + 2 * size) if rng.random() < 0.8 else 0
        if o == family_obj:
            k = max(k, rng.randint(3, 5))
        names_o = [nm.fresh("frag") for _ in range(k)]
        # dependencies go from earlier to later index; names are random, so dependants sort before
        # their dependencies about half of the time
        for idx in range(k - 1, -1, -1):
            fname = names_o[idx]
            sel = rng.sample(leaf_fields(o), rng.randint(1, min(3, len(leaf_fields(o)))))
            later = names_o[idx + 1 :]
            if later and rng.random() < 0.75:
                sel += ["..." + d for d in rng.sample(later, min(len(later), rng.choice([1, 2, 2, 3, 4])))]
            if o == family_obj and later and "..." + names_o[-1] not in sel and rng.random() < 0.85:
                sel.append("..." + names_o[-1])  # the family: several fragments spreading one base fragment
            for n, _, t in obj_fields[o]:
                if t in objs and rng.random() < 0.4:
                    if frags_on[t] and rng.random() < 0.7:
                        sel.append(f"{n} {{ " + " ".join("..." + d for d in rng.sample(frags_on[t], min(len(frags_on[t]), rng.randint(1, 2)))) + " }")
                    else:
                        sel.append(f"{n} {{ id }}")
            rng.shuffle(sel)
            frags[fname] = f"fragment {fname} on {o} {{ " + " ".join(sel) + " }"
        frags_on[o] = names_o
        if o == family_obj:
            family = names_o
    for i in ifaces:
        for _ in range(rng.randint(0, 2)):
            fname = nm.fresh("frag")
            sel = [n for n, _ in iface_fields[i] if rng.random() < 0.7] or ["id"]
            impls = [o for o in objs if i in obj_ifaces[o]]
            if impls and rng.random() < 0.5:
                o = rng.choice(impls)
                sel.append(f"... on {o} {{ {rng.choice(leaf_fields(o))} }}")
            frags[fname] = f"fragment {fname} on {i} {{ " + " ".join(sel) + " }"
            frags_on[i].append(fname)
    for u in unions:
        if rng.random() < 0.6:
            fname = nm.fresh("frag")
            parts = ["__typename"]
            for o in rng.sample(union_members[u], rng.randint(1, len(union_members[u]))):
                inner = [rng.choice(leaf_fields(o))] + ["..." + d for d in rng.sample(frags_on[o], min(len(frags_on[o]), rng.randint(0, 2)))]
                parts.append(f"... on {o} {{ " + " ".join(inner) + " }")
            frags[fname] = f"fragment {fname} on {u} {{ " + " ".join(parts) + " }"
            frags_on[u].append(fname)

    def select(t: str, depth: int = 0) -> str:
        if t in objs:
            sel = rng.sample(leaf_fields(t), rng.randint(1, min(2, len(leaf_fields(t)))))
            if frags_on[t]:
                sel += ["..." + d for d in rng.sample(frags_on[t], min(len(frags_on[t]), rng.choice([0, 1, 2, 3])))]
            for i in obj_ifaces[t]:
                if frags_on[i] and rng.random() < 0.4:
                    sel.append("..." + rng.choice(frags_on[i]))
            if depth < 2:
                for n, _, ft in obj_fields[t]:
                    if ft not in leafset and rng.random() < 0.35:
                        sel.append(f"{n} {{ {select(ft, depth + 1)} }}")
            rng.shuffle(sel)
            return " ".join(sel)
        if t in ifaces:
            sel = ["__typename"] + [n for n, _ in iface_fields[t] if rng.random() < 0.6]
            if frags_on[t] and rng.random() < 0.6:
                sel.append("..." + rng.choice(frags_on[t]))
            for o in [o for o in objs if t in obj_ifaces[o]]:
                if rng.random() < 0.6:
                    sel.append(f"... on {o} {{ {select(o, depth + 1)} }}")
            return " ".join(sel)
        sel = ["__typename"]
        if frags_on[t] and rng.random() < 0.5:
            sel.append("..." + rng.choice(frags_on[t]))
        for o in union_members[t]:
            if rng.random() < 0.7:
                sel.append(f"... on {o} {{ {select(o, depth + 1)} }}")
        return " ".join(sel)

    ops: List[str] = []
    for n, _, t, args in rng.sample(qfields, rng.randint(2, min(len(qfields), 2 + 2 * size))):
        opn = nm.fresh("op")
        vars_ = ", ".join(f"${a}: {at}" for a, at in args)
        call = ", ".join(f"{a}: ${a}" for a, _ in args)
        ops.append(f"query {opn}" + (f"({vars_})" if args else "") + f" {{ {n}" + (f"({call})" if args else "") + f" {{ {select(t)} }} }}")
    for n, _, t, args in mfields:
        opn = nm.fresh("op")
        ops.append(f"mutation {opn}($inp: {args[0][1]}) {{ {n}(inp: $inp) {{ {select(t)} }} }}")
    if family_obj is not None and len(family) >= 3:
        # the whole family side by side in one selection (twice: at the top and below a field when the object refers to itself)
        n, _, t, args = next(q for q in qfields if q[2] == family_obj)
        fam = rng.sample(family[:-1], rng.randint(2, len(family) - 1)) + [family[-1]]
        sel = rng.sample(leaf_fields(family_obj), 1) + ["..." + d for d in fam]
        for fn_, _, ft in obj_fields[family_obj]:
            if ft == family_obj and rng.random() < 0.7:
                sel.append(f"{fn_} {{ " + " ".join("..." + d for d in rng.sample(family, rng.randint(2, len(family)))) + " }")
        rng.shuffle(sel)
        opn = nm.fresh("op")
        vars_ = ", ".join(f"${a}: {at}" for a, at in args)
        call = ", ".join(f"{a}: ${a}" for a, _ in args)
        ops.append(f"query {opn}" + (f"({vars_})" if args else "") + f" {{ {n}" + (f"({call})" if args else "") + " { " + " ".join(sel) + " } }")
    def op_on(t: str, body: str) -> str:
        n, _, _, args = next(q for q in qfields if q[2] == t)
        vars_ = ", ".join(f"${a}: {at}" for a, at in args)
        call = ", ".join(f"{a}: ${a}" for a, _ in args)
        return f"query {nm.fresh('op')}" + (f"({vars_})" if args else "") + f" {{ {n}" + (f"({call})" if args else "") + " { " + body + " } }"

    if twins:  # both tied enums in ONE result module, selected directly (no fragment in between)
        ops.append(op_on(objs[0], "twinA id twinB"))
    for i in ifaces:
        impls = [o for o in objs if i in obj_ifaces[o]]
        if len(impls) >= 2 and (directed or rng.random() < 0.35):
            # an abstract field whose selection reaches its implementing types ONLY through named fragments
            # declared on them (no inline fragment): the classes / Union members of the field come from those fragments
            parts = []
            for o in rng.sample(impls, min(len(impls), rng.randint(2, 3))):
                fname = nm.fresh("frag")
                frags[fname] = f"fragment {fname} on {o} {{ id {rng.choice(leaf_fields(o))} }}"
                parts.append("..." + fname)
            ops.append(op_on(i, "__typename id " + " ".join(parts)))
    interface_fragment_ops = sum(1 for o_ in ops if "__typename id ..." in o_)
    docs = list(frags.values()) + ops
    rng.shuffle(docs)
    if rng.random() < 0.3:
        queries: Any = "\n\n".join(docs) + "\n"
    else:
        queries = {}
        qn = [rng.choice(["", "ops/", "Frag/"]) + rng.choice(LETTERS + "Z") + str(i) + rng.choice([".graphql", ".gql"]) for i in range(rng.randint(2, 5))]
        for i, dtext in enumerate(docs):
            f = qn[i % len(qn)]
            queries[f] = queries.get(f, "") + dtext + "\n\n"
    # ---- configuration
    cfg: Dict[str, Any] = {"include_comments": rng.choice(["stable", "none", "none"])}
    sc = {}
    for s in scalars:
        c = rng.choice(SCALAR_CFG)
        if c:
            sc[s] = dict(c)
    if sc:
        cfg["scalars"] = sc
    plugins = [p for p in (P_SHORT, P_FWD, P_EXTRACT) if rng.random() < 0.4]
    if rng.random() < 0.1:
        plugins.append(P_NOREIMP)
    rng.shuffle(plugins)
    if directed:
        plugins = [P_SHORT, P_FWD] + ([P_EXTRACT] if rng.random() < 0.4 else [])
        rng.shuffle(plugins)
    if plugins:
        cfg["plugins"] = plugins
    for key, val, p in [("convert_to_snake_case", False, 0.25), ("include_all_inputs", False, 0.4), ("include_all_enums", False, 0.4),
                        ("async_client", False, 0.3), ("enable_custom_operations", True, 0.15), ("opentelemetry_client", True, 0.1)]:
        if rng.random() < p:
            cfg[key] = val
    return {"id": label, "strategy": "client", "schema": schema, "queries": queries, "config": cfg,
            "meta": {"fragments": len(frags), "operations": len(ops), "enums": len(enums), "objects": len(objs), "directed": int(directed), "tied_enums": int(bool(twins)), "abstract_via_named_fragments": interface_fragment_ops,
                     "family": len(family) if family_obj is not None else 0, "plugins": len(plugins),
                     "union_members": max(len(m) for m in union_members.values()), "schema_files": len(schema) if isinstance(schema, dict) else 1,
                     "multi_dep_fragments": sum(1 for t in frags.values() if t.count("...") - t.count("... on") >= 2)}}


def schema_case(case: Dict[str, Any], fmt: str) -> Dict[str, Any]:
    cfg = {"target_file_path": "schema_out.py" if fmt == "py" else "schema_out.graphql"}
    return {"id": case["id"] + ":gs-" + fmt, "strategy": "graphqlschema", "schema": case["schema"], "queries": None, "config": cfg, "meta": case.get("meta", {})}


def valid_case(case: Dict[str, Any]) -> bool:
    """pre-filter with graphql-core (pure library): the oracle is about inputs that generate"""
    from graphql import build_ast_schema, parse, specified_rules, validate
    from graphql.validation import NoUnusedFragmentsRule

    def cat(src: Any, exts: Tuple[str, ...]) -> str:
        if isinstance(src, str):
            return src
        return "\n".join(src[k] for k in sorted(src, key=lambda p: Path(p)) if Path(k).suffix in exts)

    try:
        schema = build_ast_schema(parse(cat(case["schema"], (".graphql", ".graphqls", ".gql")) + "\ndirective @mixin(from: String, import: String) repeatable on FIELD | FRAGMENT_DEFINITION"))
        errs = validate(schema, parse(cat(case["queries"], (".graphql", ".graphqls", ".gql"))), [r for r in specified_rules if r is not NoUnusedFragmentsRule])
        return not errs
    except Exception:
        return False


def case_trigger_own(case: Dict[str, Any]) -> bool:
    """trigger of C10-F3: an absolute import configured for a scalar whose root module is the target package"""
    cfg = case.get("config") or {}
    pkg = cfg.get("target_package_name", PKG)
    for sc in (cfg.get("scalars") or {}).values():
        for key in ("type", "parse", "serialize", "import"):
            v = sc.get(key)
            if isinstance(v, str) and "." in v and v.split(".")[0] == pkg:
                return True
    texts = case.get("queries")
    blob = texts if isinstance(texts, str) else "\n".join((texts or {}).values())
    return bool(re.search(r'@mixin\([^)]*from:\s*"' + re.escape(pkg) + r'[."]', blob))


# --------------------------------------------------------------------------------------------
# the oracle: subprocesses under different hash seeds / creation orders / fresh vs again
# --------------------------------------------------------------------------------------------


_ORDER_ROOT: Optional[Tuple[Path, bool]] = None


def order_sensitive_root() -> Tuple[Path, bool]:
    """A scratch root on which the order of a directory listing depends on the order in which the
    entries were created (tmpfs does; ext4 with dir_index does not), so that "file creation order" is a
    factor the oracle really varies.  Falls back to the ordinary scratch root (and says so in evidence)."""
    global _ORDER_ROOT
    if _ORDER_ROOT is not None:
        return _ORDER_ROOT
    cands = [os.environ.get("VERIF_C10_SCRATCH"), "/dev/shm", str(engine.scratch_root())]
    for cand in [c for c in cands if c]:
        try:
            base = Path(tempfile.mkdtemp(prefix=f"verif-c10-probe-{os.getpid()}-", dir=cand))
        except OSError:
            continue
        try:
            seen = []
            for k, order in enumerate((["a", "b", "c", "d", "e"], ["e", "c", "a", "d", "b"])):
                d = base / f"o{k}"
                d.mkdir()
                for n in order:
                    (d / (n + ".graphql")).write_text("")
                seen.append([e.name for e in os.scandir(d)])
            if seen[0] != seen[1]:
                _ORDER_ROOT = (Path(cand), True)
                return _ORDER_ROOT
        finally:
            shutil.rmtree(base, ignore_errors=True)
    _ORDER_ROOT = (engine.scratch_root(), False)
    return _ORDER_ROOT


def _run_job(seed: int, order_seed: int, cases: List[Dict[str, Any]], scratch: Path, texts: bool) -> Dict[str, Any]:
    job = scratch / f"job-{seed}-{order_seed}-{common.stable_hash([c['id'] for c in cases])}{'-t' if texts else ''}.json"
    slim = [{k: v for k, v in c.items() if k != "meta"} for c in cases]
    job.write_text(json.dumps({"scratch": str(scratch), "cases": slim, "order_seed": order_seed, "texts": texts}))
    env = dict(os.environ)
    env["PYTHONHASHSEED"] = str(seed)
    env["PYTHONPATH"] = str(common.REPO)  # the working tree under test first
    env["PYTHONDONTWRITEBYTECODE"] = "1"
    # every hash seed also gets its own time zone (POSIX form, no tzdata needed): a local-time stamp that
    # leaks into a file in a non-timestamp comment mode then differs between combos deterministically
    env["TZ"] = "UTC%+d" % ((seed % 23) - 11)
    try:
        p = subprocess.run([sys.executable, str(SUB), str(job)], capture_output=True, text=True, env=env, timeout=1800, cwd=str(scratch))
    except subprocess.TimeoutExpired as e:
        raise common.Infra(f"c10 worker timed out (hash seed {seed})") from e
    finally:
        job.unlink(missing_ok=True)
    if p.returncode != 0:
        raise common.Infra(f"c10 worker failed (hash seed {seed}): {p.stderr[-400:]}")
    try:
        return json.loads(p.stdout)["results"]
    except (ValueError, KeyError) as e:
        raise common.Infra(f"c10 worker printed garbage: {p.stdout[-200:]!r}") from e


def run_matrix(cases: List[Dict[str, Any]], combos: List[Tuple[int, int]], texts: bool = False, chunk: int = 4) -> Dict[Tuple[int, int], Dict[str, Any]]:
    """every case under every (hash seed, creation-order seed) combo -> {combo: {case id: {"fresh":…, "again":…}}}"""
    # own prefix: other checks running at the same time may sweep `ariadne-verif-*`
    scratch = Path(tempfile.mkdtemp(prefix=f"verif-c10-{os.getpid()}-", dir=order_sensitive_root()[0]))
    try:
        parts = [cases[i : i + chunk] for i in range(0, len(cases), chunk)]
        tasks = [(c, part) for c in combos for part in parts]
        out: Dict[Tuple[int, int], Dict[str, Any]] = {c: {} for c in combos}
        procs = int(os.environ.get("VERIF_PROCS", "14"))
        with ThreadPoolExecutor(max_workers=procs) as ex:
            futs = [(c, ex.submit(_run_job, c[0], c[1], part, scratch, texts)) for c, part in tasks]
            for c, f in futs:
                out[c].update(f.result())
        return out
    finally:
        shutil.rmtree(scratch, ignore_errors=True)


def _norm_module(text: str) -> Optional[str]:
    """AST dump in which the names of every from-import and runs of adjacent from-imports are put
    in a canonical order: two texts with equal normal forms differ only by reordering inside imports."""
    try:
        tree = ast.parse(text)
    except SyntaxError:
        return None

    def fix(body: List[ast.stmt]) -> None:
        i = 0
        while i < len(body):
            if isinstance(body[i], ast.ImportFrom):
                j = i
                while j < len(body) and isinstance(body[j], ast.ImportFrom):
                    body[j].names.sort(key=lambda a: (a.name, a.asname or ""))  # type: ignore[attr-defined]
                    j += 1
                body[i:j] = sorted(body[i:j], key=lambda s: (s.level, s.module or ""))  # type: ignore[attr-defined]
                i = j
            else:
                for fld in ("body", "orelse"):
                    sub = getattr(body[i], fld, None)
                    if isinstance(sub, list):
                        fix(sub)
                i += 1

    fix(tree.body)
    return ast.dump(tree)


def _tie_in_text(text: str) -> bool:
    try:
        tree = ast.parse(text)
    except SyntaxError:
        return False
    mods: Dict[str, str] = {}
    for node in ast.walk(tree):
        if isinstance(node, ast.ImportFrom):
            if has_name_tie([a.name for a in node.names]):
                return True
            dotted = "." * node.level + (node.module or "")
            k = json.dumps(isort_module_key(dotted))
            if mods.setdefault(k, dotted) != dotted:
                return True
    return False


def _reordered_imports(ta: str, tb: str, fname: str) -> List[Tuple[str, int, str]]:
    """(file, level, module) of every from-import whose list of names differs between the two texts"""

    def table(text: str) -> Dict[Tuple[int, str], List[List[str]]]:
        out: Dict[Tuple[int, str], List[List[str]]] = {}
        for node in ast.walk(ast.parse(text)):
            if isinstance(node, ast.ImportFrom):
                out.setdefault((node.level, node.module or ""), []).append([x.name for x in node.names])
        return out

    try:
        x, y = table(ta), table(tb)
    except SyntaxError:
        return [(fname, -1, "?")]
    return [(fname, k[0], k[1]) for k in sorted(set(x) | set(y)) if x.get(k) != y.get(k)]


def _known_set_fed_site(case: Dict[str, Any], fname: str, level: int, module: str) -> bool:
    """the import lists that come out of a set on the UNCHANGED tree (Model/OrderEmit.lean `trigIsortTie`, Proofs/OrderPlugins):
    everything in fragments.py (statements of all fragment generators merged in set-iteration order), `from .fragments import`
    anywhere (mixins of an operation, public names in __init__.py), and the client module (ClientForwardRefs / ShorterResults)"""
    cfg = case.get("config") or {}
    frag = cfg.get("fragments_module_name", "fragments")
    client = cfg.get("client_file_name", "client")
    base = fname.rsplit("/", 1)[-1]
    return base == frag + ".py" or base == client + ".py" or (level == 1 and module == frag)


def classify(case: Dict[str, Any], a: Dict[str, str], b: Dict[str, str], phase: str) -> Tuple[str, Optional[str], str]:
    """(signature, trigger, detail) for two snapshots (file -> TEXT) that should have been identical"""
    if "error" in a or "error" in b:
        return "outcome-differs", None, f"{a.get('error')} vs {b.get('error')}: {(a.get('message') or b.get('message') or '')[:200]}"
    if set(a) != set(b):
        return "file-set-differs", None, f"only in one: {sorted(set(a) ^ set(b))[:6]}"
    diff = sorted(k for k in a if a[k] != b[k])
    detail_lines: List[str] = []
    for k in diff[:3]:
        d = list(difflib.unified_diff(a[k].splitlines(), b[k].splitlines(), lineterm="", n=0))[2:10]
        detail_lines.append(k + ": " + " | ".join(d))
    detail = "; ".join(detail_lines)[:900]
    py = [k for k in diff if k.endswith(".py")]
    if len(py) == len(diff) and all(_norm_module(a[k]) is not None and _norm_module(a[k]) == _norm_module(b[k]) for k in py):
        if phase == "again" and case_trigger_own(case) and all(sorted(l for l in a[k].splitlines() if l.strip()) == sorted(l for l in b[k].splitlines() if l.strip()) for k in py):
            return SIG_OWN, TRIG_OWN, detail
        if all(_tie_in_text(a[k]) for k in py) and all(sorted(re.findall(r"\w+", a[k])) == sorted(re.findall(r"\w+", b[k])) for k in py):
            # finding C10-F2 is the tie at the import lists that ARE fed from a set on the unchanged tree; the same
            # mechanism at any other import list is a new defect and must not be swallowed as known
            new_sites = [site for k in py for site in _reordered_imports(a[k], b[k], k) if not _known_set_fed_site(case, *site)]
            if new_sites:
                return "tied-import-names-reordered-at-new-site", None, f"sites={new_sites[:4]} " + detail
            return SIG_TIE, TRIG_TIE, detail
        return "import-order-differs", None, detail
    return "bytes-differ", None, detail


def judge_matrix(ctx: Ctx, res: Result, cases: List[Dict[str, Any]], combos: List[Tuple[int, int]], label: str) -> Dict[str, str]:
    """Run the matrix and turn every disagreement into a Failure. Returns case id -> verdict."""
    verdict: Dict[str, str] = {}
    ref = combos[0]
    # the combos in batches of 8: as soon as one batch shows a deviation a concrete failing input is in hand and
    # the remaining hash seeds add nothing (on a tree where the property holds every combo is run)
    out: Dict[Tuple[int, int], Dict[str, Any]] = {}
    for i in range(0, len(combos), 8):
        out.update(run_matrix(cases, combos[i : i + 8]))

        def deviates(cid: str) -> bool:
            base0 = out[ref][cid].get("fresh")
            for r in (out[c][cid] for c in combos if c in out):
                for ph in ("fresh", "again"):
                    if ph in r and not (r[ph] == base0 if "error" not in base0 else r[ph].get("error") == base0.get("error")):
                        return True
            return False

        if any(deviates(case["id"]) for case in cases):
            if i + 8 < len(combos):
                ctx.log(f"{label}: deviation within the first {i + 8} of {len(combos)} (hash seed, creation order) combos; the rest is skipped")
            break
    combos = [c for c in combos if c in out]
    suspects: Dict[str, List[Tuple[Tuple[int, int], str]]] = {}
    for case in cases:
        cid = case["id"]
        base = out[ref][cid].get("fresh")
        gens = 0
        for c in combos:
            r = out[c][cid]
            for phase in ("fresh", "again"):
                if phase not in r:
                    continue
                gens += 1
                same = r[phase] == base if "error" not in base else r[phase].get("error") == base.get("error")
                if not same:
                    suspects.setdefault(cid, []).append((c, phase))
        res.count(f"{label}:generations", gens)
        if "error" in base:
            res.count(f"{label}:outcome:" + engine.classify_exception(base["error"]))
            verdict[cid] = "error:" + base["error"]
        else:
            res.count(f"{label}:outcome:generated")
            verdict[cid] = "same"
        res.seen([label, cid, common.stable_hash({k: v for k, v in case.items() if k != "meta"})], nontrivial="error" not in base)
        if label == "oracle" and "error" not in base and sum(1 for x in res.samples if isinstance(x, dict) and "oracle_case" in x) < 2:
            q = case.get("queries")
            res.samples.insert(0, {"oracle_case": cid, "strategy": case["strategy"], "config": case.get("config"), "meta": case.get("meta"),
                                   "operations_excerpt": (q if isinstance(q, str) else "\n".join(q.values()) if q else "")[:600],
                                   "combos(hashseed,creation-order)": [list(c) for c in combos], "files": sorted(base)[:40],
                                   "all_identical": cid not in suspects})
    if not suspects:
        return verdict
    # diagnosis: the deviating cases once more with file TEXTS, under the reference combo and every combo that deviated first
    by_id = {c["id"]: c for c in cases}
    first: Dict[str, Dict[str, Tuple[int, int]]] = {}
    for cid, lst in suspects.items():
        for c, phase in lst:
            first.setdefault(cid, {}).setdefault(phase, c)
    want = list(dict.fromkeys([ref] + [c for d in first.values() for c in d.values()]))[:6]
    tx = run_matrix([by_id[cid] for cid in suspects], want, texts=True, chunk=2)
    probed = 0
    for cid, phases in first.items():
        case = by_id[cid]
        for phase, c in phases.items():
            if c not in tx:
                c = next((w for w in want[1:] if tx[w][cid].get(phase) != tx[ref][cid]["fresh"]), want[-1])
            a = tx[ref][cid]["fresh"]
            b = tx[c][cid].get(phase, tx[c][cid].get("fresh"))
            if a == b:
                # Two runs of the matrix gave different bytes for the same input, yet repeating them does not:
                # the output depends on something that is neither hash seed, creation order nor the existing
                # directory (the clock, typically).  That IS the property failing ("generating twice ... byte-identical").
                h_ref, h_dev = out[ref][cid].get("fresh", {}), out[first[cid][phase]][cid].get(phase, {})
                names = sorted(k for k in set(h_ref) | set(h_dev) if h_ref.get(k) != h_dev.get(k))
                res.count(f"{label}:differs:nondeterministic-bytes")
                verdict[cid] = "differs:nondeterministic-bytes"
                res.failures.append(Failure("nondeterministic-bytes", None,
                                            {"case": {k: v for k, v in case.items() if k != "meta"}, "combos": [list(ref), list(first[cid][phase])], "phase": phase},
                                            f"sha256 differed between two runs of the matrix but not when both were repeated (time/environment dependent output) in {names[:8]}"))
                continue
            factor = []
            if phase == "again" and tx[ref][cid].get("again") != a:
                factor.append("existing-target-directory")
            elif probed < 2 and c != ref:  # separate the two factors that were varied together (first two suspects only)
                probed += 1
                fx = run_matrix([case], [(c[0], ref[1]), (ref[0], c[1])], texts=True, chunk=1)
                if fx[(c[0], ref[1])][cid].get(phase) != a and c[0] != ref[0]:
                    factor.append("hash-seed")
                if fx[(ref[0], c[1])][cid].get(phase) != a and c[1] != ref[1]:
                    factor.append("creation-order")
            sig, trig, detail = classify(case, a, b, phase)
            verdict[cid] = "differs:" + sig
            res.failures.append(Failure(sig, trig, {"case": {k: v for k, v in case.items() if k != "meta"}, "combos": [list(ref), list(c)], "phase": phase},
                                        f"factor={'+'.join(factor) or 'not-separated'} {detail}"))
            res.count(f"{label}:differs:{sig}")
    return verdict


# --------------------------------------------------------------------------------------------
# corpus (finding witnesses, fixed and open)
# --------------------------------------------------------------------------------------------


def load_corpus() -> List[Dict[str, Any]]:
    d = common.CORPUS / "C10"
    return [json.loads(p.read_text()) for p in sorted(d.glob("*.json"))] if d.exists() else []


def replay_corpus(ctx: Ctx, res: Result, seeds: List[int]) -> None:
    items = load_corpus()
    if not items:
        return
    cases = []
    for it in items:
        c = dict(it["case"])
        c["id"] = "corpus:" + it["id"]
        cases.append(c)
    sub = Result()
    verdict = judge_matrix(ctx, sub, cases, [(s, s) for s in seeds], "corpus")
    findings = {f["id"]: f for f in common.load_findings("C10")}
    for it, c in zip(items, cases):
        v = verdict.get(c["id"], "same")
        fid = it.get("finding")
        if fid:
            res.witness_status[fid] = "reproduces" if v.startswith("differs") else "gone"
            if v.startswith("error"):
                res.witness_status[fid] = "gone"
                ctx.log(f"witness of {fid} no longer generates: {v}")
        if fid and findings.get(fid, {}).get("status") == "fixed":
            # a fixed finding that fails again is an unknown failure whatever it looks like
            for f in sub.failures:
                if f.input["case"]["id"] == c["id"]:
                    f.trigger = None
                    f.signature = "regression:" + fid + ":" + f.signature
    res.merge(sub)


# --------------------------------------------------------------------------------------------
# correspondence 1: direct calls of the order functions
# --------------------------------------------------------------------------------------------


def _observe(fn: Any, *a: Any) -> Dict[str, Any]:
    try:
        return {"ok": fn(*a)}
    except KeyError as e:
        return {"err": "KeyError", "key": e.args[0] if e.args else None}
    except ValueError as e:
        m = re.match(r"'(.*)' is not in list", str(e))
        return {"err": "ValueError", "key": m.group(1) if m else None}
    except IsADirectoryError:
        return {"err": "IsADirectoryError"}
    except (AttributeError, ImportError, TypeError) as e:
        return {"observer": f"{type(e).__name__}: {e}"}


def rand_graph(rng: random.Random) -> Tuple[List[str], Dict[str, List[str]]]:
    n = rng.randint(0, 9)
    pool = ["Af", "Gq", "Hx", "Kp", "Mm", "b", "Zz", "a1", "A10", "A9", "ab", "aB", "_x", "Ö", "z", "Hy"]
    names = rng.sample(pool, n)
    deps: Dict[str, List[str]] = {}
    mode = rng.random()
    for i, a in enumerate(names):
        cand = names[i + 1 :] if mode < 0.7 else names  # mode >= 0.7: cycles / self loops possible
        ds = [b for b in cand if rng.random() < 0.4]
        if rng.random() < 0.04:
            ds.append(rng.choice(["Missing", "Nn"]))  # a mixin that was excluded: KeyError in the real code
        deps[a] = ds
    roots = [x for x in names if rng.random() < 0.9]
    return roots, deps


def corr_direct(ctx: Ctx, st: Optional[LeanStatus], res: Result) -> None:
    rng = ctx.sub_rng("direct")
    lines: List[Dict[str, Any]] = []
    expect: List[Tuple[str, Any, Any]] = []
    try:
        from ariadne_codegen.client_generators.fragments import FragmentsGenerator

        fg = object.__new__(FragmentsGenerator)
    except (ImportError, AttributeError) as e:
        res.mismatches.append(Mismatch("sortedFragments", {}, f"observer: {e}", None))
        return
    n = ctx.budget(1500, 15000)
    for _ in range(n):
        roots, deps = rand_graph(rng)
        obs = _observe(lambda: fg._get_sorted_fragments_names(fragments_names=set(roots), dependencies_dict={k: set(v) for k, v in deps.items()}))
        shuffled = list(deps.items())
        rng.shuffle(shuffled)
        lines.append({"op": "sortedFragments", "names": rng.sample(roots, len(roots)), "deps": [[k, rng.sample(v, len(v))] for k, v in shuffled]})
        expect.append(("sortedFragments", {"roots": roots, "deps": deps}, obs))
        res.count("direct:sort:" + ("ok" if "ok" in obs else obs.get("err", "observer")))
        if any(len(v) >= 2 for v in deps.values()):
            res.count("direct:sort:multi-dependency")
    for _ in range(ctx.budget(600, 6000)):
        k = rng.randint(0, 8)
        cls = [rng.choice(["A", "B", "C", "Dd", "E1", "F", "G", "Ab", "AbC"]) + rng.choice(["", "", "X", "Y"]) for _ in range(k)]
        top = [c for c in cls if rng.random() < 0.5]
        rng.shuffle(top)
        if rng.random() < 0.05:
            top.insert(rng.randint(0, len(top)), "Ghost")
        defs = [ast.ClassDef(name=c, bases=[], keywords=[], body=[ast.Pass()], decorator_list=[]) for c in cls]
        obs = _observe(lambda: [e.value.func.value.id for e in fg._get_model_rebuild_calls(top_level_fragments_names=list(top), class_defs=defs)])
        lines.append({"op": "rebuild", "top": top, "classNames": cls})
        expect.append(("rebuild", {"top": top, "classNames": cls}, obs))
        res.count("direct:rebuild:" + ("ok" if "ok" in obs else obs.get("err", "observer")))
    try:
        from ariadne_codegen.client_generators.result_fields import generate_typename_annotation
    except (ImportError, AttributeError) as e:
        res.mismatches.append(Mismatch("typenameLiteral", {}, f"observer: {e}", None))
        generate_typename_annotation = None  # type: ignore[assignment]
    for _ in range(ctx.budget(300, 3000) if generate_typename_annotation else 0):
        vals = rng.sample(NAME_POOL, rng.randint(1, 6))

        def lit() -> List[str]:
            node = generate_typename_annotation(list(vals))
            elts = node.slice.elts if isinstance(node.slice, ast.Tuple) else [node.slice]
            return [e.id.strip('"') for e in elts]

        obs = _observe(lit)
        lines.append({"op": "typenameLiteral", "values": vals})
        expect.append(("typenameLiteral", vals, obs.get("ok", obs)))
        res.count("direct:typename-literal:" + ("1" if len(vals) == 1 else "2+"))
    _compare(ctx, st, res, lines, expect)


def _compare(ctx: Ctx, st: Optional[LeanStatus], res: Result, lines: List[Dict[str, Any]], expect: List[Tuple[str, Any, Any]],
             trigger_of: Any = None) -> None:
    model: Optional[List[Any]] = None
    if st is not None and st.driver_ok and lines:
        model = common.run_driver(ctx.prop, lines)
    for i, (obsname, inp, obs) in enumerate(expect):
        res.seen([obsname, inp])
        if isinstance(obs, dict) and "observer" in obs:
            res.mismatches.append(Mismatch(obsname, inp, "observer: " + obs["observer"], model[i] if model else None))
            continue
        if model is None:
            continue
        m = model[i]
        if obsname == "generateFragments":
            m = canon_frag(m)
        if obsname in ("opImports", "forwardRefs", "extendImports"):
            m, obs = canon_imports(m), canon_imports(obs)
        if isinstance(obs, dict) and "err" in obs and isinstance(m, dict) and m.get("err") == obs["err"] and obs["err"] == "IsADirectoryError":
            continue
        if not common.same_json(obs, m):
            res.mismatches.append(Mismatch(obsname, inp, obs, m, trigger=trigger_of(inp) if trigger_of else None))
        elif len(res.samples) < 4 and obsname in ("sortedFragments", "generateFragments") and i % 7 == 3:
            res.sample({"observation": obsname, "input": inp, "impl": obs, "model": m})


# --------------------------------------------------------------------------------------------
# correspondence 2: isort reference semantics, plugin import builders, directory loading
# --------------------------------------------------------------------------------------------

NAME_POOL = ["FooBar", "Foobar", "FOOBAR", "fooBar", "foobar", "F1", "F01", "F10", "F9", "f1", "Af", "AF", "A", "a", "B", "Ab1c", "Ab01c",
             "Zeta", "alpha", "ALPHA", "Alpha", "_x", "_X", "X_1", "X_01", "x9y10", "x9y9", "x09y10", "Gq", "Hx", "Kp", "Mm", "MmB", "Optional", "List"]
MOD_POOL = [(0, "typing"), (0, "pydantic"), (0, "datetime"), (0, "my_scalars.codecs"), (0, "My_scalars.codecs"), (1, "fragments"), (1, "enums"),
            (1, "base_model"), (1, "q1"), (1, "q01"), (1, "q_2"), (1, "input_types"), (0, ".custom"), (0, "httpx")]


def real_isort_block(stmts: List[Dict[str, Any]]) -> Dict[str, List[str]]:
    import isort

    src = "".join(f"from {'.' * s['level']}{s['module']} import {', '.join(s['names'])}\n" for s in stmts)
    out = isort.code(src)
    got: Dict[str, List[str]] = {}
    for node in ast.parse(out).body:
        if isinstance(node, ast.ImportFrom):
            got.setdefault("." * node.level + (node.module or ""), []).extend(a.name for a in node.names)
    return got


def corr_isort(ctx: Ctx, st: Optional[LeanStatus], res: Result) -> None:
    rng = ctx.sub_rng("isort")
    lines: List[Dict[str, Any]] = []
    expect: List[Tuple[str, Any, Any]] = []
    for _ in range(ctx.budget(500, 5000)):
        names = [rng.choice(NAME_POOL) for _ in range(rng.randint(1, 7))]
        if rng.random() < 0.3:
            names += ["".join(rng.choice("aAbB01_") for _ in range(rng.randint(1, 5))).lstrip("01") or "q" for _ in range(2)]
        obs = _observe(lambda: real_isort_block([{"level": 1, "module": "m", "names": names}])[".m"])
        lines.append({"op": "isortNames", "names": names})
        expect.append(("isort-names", names, obs.get("ok", obs)))
        res.count("isort:names:" + ("tie" if has_name_tie(names) else "no-tie"))
    for _ in range(ctx.budget(250, 2500)):
        stmts = []
        for _ in range(rng.randint(1, 6)):
            lv, mod = rng.choice(MOD_POOL)
            stmts.append({"level": lv, "module": mod, "names": [rng.choice(NAME_POOL) for _ in range(rng.randint(1, 4))]})
        obs = _observe(lambda: real_isort_block(stmts))
        py_name_tie = any(has_name_tie(ns) for ns in (obs.get("ok") or {}).values())
        lines.append({"op": "summary", "stmts": stmts})
        expect.append(("isort-summary", stmts, {"summary": sorted(([k, v] for k, v in obs["ok"].items()), key=lambda kv: kv[0]) if "ok" in obs else obs,
                                                "nameTie": py_name_tie}))
        # metamorphic part of the recorded assumption: without ties the formatted TEXT ignores statement / name order
        if "ok" in obs and not py_name_tie:
            import isort

            def text(ss: List[Dict[str, Any]]) -> str:
                return isort.code("".join(f"from {'.' * s['level']}{s['module']} import {', '.join(s['names'])}\n" for s in ss))

            mods = {("." * s["level"] + s["module"]) for s in stmts}
            if len({json.dumps(isort_module_key(m)) for m in mods}) == len(mods):
                sh = [dict(s, names=rng.sample(s["names"], len(s["names"]))) for s in rng.sample(stmts, len(stmts))]
                if text(sh) != text(stmts):
                    res.mismatches.append(Mismatch("isort-summary-determines-text", stmts, "text differs after shuffling", "equal"))
                res.count("isort:metamorphic")
    model: Optional[List[Any]] = None
    if st is not None and st.driver_ok:
        model = common.run_driver(ctx.prop, lines)
    for i, (obsname, inp, obs) in enumerate(expect):
        res.seen([obsname, inp])
        if model is None:
            continue
        m = model[i]
        if obsname == "isort-summary":
            m = {"summary": m["summary"], "nameTie": m["nameTie"]}
        if not common.same_json(obs, m, ordered=True):
            res.mismatches.append(Mismatch(obsname, inp, obs, m))


def corr_plugins(ctx: Ctx, st: Optional[LeanStatus], res: Result) -> None:
    """ClientForwardRefsPlugin._add_forward_ref_imports and ShorterResultsPlugin.generate_client_module on
    constructed plugin state (sets built in this interpreter; their real iteration order is recorded)."""
    rng = ctx.sub_rng("plugins")
    lines: List[Dict[str, Any]] = []
    expect: List[Tuple[str, Any, Any]] = []
    try:
        from graphql import build_schema

        from ariadne_codegen.contrib.client_forward_refs import ClientForwardRefsPlugin
        from ariadne_codegen.contrib.shorter_results import ShorterResultsPlugin

        schema = build_schema("type Query { a: Int }")
    except (ImportError, AttributeError) as e:
        res.mismatches.append(Mismatch("forwardRefs", {}, f"observer: {e}", None))
        return

    def imp(node: ast.ImportFrom) -> Dict[str, Any]:
        return {"level": node.level, "module": node.module, "names": [a.name for a in node.names]}

    classes = ["GetA", "GetB", "ListC", "In1", "In2", "Color", "Q1", "Q01", "Upload", "AFrag", "Afrag"]
    modules = [".get_a", ".get_b", ".input_types", ".enums", ".q1", ".q01", ".fragments"]
    for _ in range(ctx.budget(300, 3000)):
        imported = {c: rng.choice(modules) for c in rng.sample(classes, rng.randint(1, len(classes)))}
        types = set(rng.sample(sorted(imported), rng.randint(0, len(imported))))
        if rng.random() < 0.03:
            types.add("NotImported")

        def run_fwd() -> List[Dict[str, Any]]:
            p = ClientForwardRefsPlugin(schema=schema, config_dict={})
            p.input_and_return_types = types
            p.imported_classes = dict(imported)
            module = ast.Module(body=[ast.Pass()], type_ignores=[])
            p._add_forward_ref_imports(module, [])
            blocks = [n for n in module.body if isinstance(n, ast.If)]
            return [imp(s) for s in blocks[0].body]

        obs = _observe(run_fwd)
        lines.append({"op": "forwardRefs", "types": list(types), "imported": [[k, v] for k, v in imported.items()]})
        expect.append(("forwardRefs", {"types": list(types), "imported": imported}, obs))
        res.count("plugins:forwardRefs:" + ("ok" if "ok" in obs else obs.get("err", "observer")))
    for _ in range(ctx.budget(300, 3000)):
        stmts = []
        for m in rng.sample(["get_a", "get_b", "enums", "fragments", "input_types"], rng.randint(0, 4)) + (["get_a"] if rng.random() < 0.1 else []):
            stmts.append({"level": 1, "module": m, "names": rng.sample(classes, rng.randint(1, 3))})
        ext = {m: set(rng.sample(classes, rng.randint(1, 4))) for m in rng.sample(["get_a", "get_b", "fragments", "custom.mod", "decimal"], rng.randint(1, 4))}

        def run_short() -> List[Dict[str, Any]]:
            p = ShorterResultsPlugin(schema=schema, config_dict={})
            p.extended_imports = {k: set(v) for k, v in ext.items()}
            body: List[ast.stmt] = [ast.ImportFrom(module=s["module"], names=[ast.alias(name=n) for n in s["names"]], level=s["level"]) for s in stmts]
            body.append(ast.ClassDef(name="Client", bases=[], keywords=[], body=[ast.Pass()], decorator_list=[]))
            module = p.generate_client_module(ast.Module(body=body, type_ignores=[]))
            return [imp(n) for n in module.body if isinstance(n, ast.ImportFrom)]

        obs = _observe(run_short)
        lines.append({"op": "extendImports", "stmts": stmts, "ext": [[k, list(v)] for k, v in ext.items()]})
        expect.append(("extendImports", {"stmts": stmts, "ext": {k: sorted(v) for k, v in ext.items()}}, obs.get("ok", obs)))
        res.count("plugins:shorterResults")
    _compare(ctx, st, res, lines, expect)


PLUG_SRC = {
    "c10_plug_a": (
        "from ariadne_codegen.plugins.base import Plugin\n"
        "class _Rec(Plugin):\n    pass\n"
        "def _mk():\n"
        "    def hook(self, obj, *a, **k):\n        return obj + [type(self).__module__ + '.' + type(self).__qualname__]\n"
        "    return hook\n"
        "for _n, _f in list(vars(Plugin).items()):\n"
        "    if callable(_f) and not _n.startswith('_'):\n        setattr(_Rec, _n, _mk())\n"
        "class Zeta(_Rec):\n    pass\n"
        "class alpha(_Rec):\n    pass\n"
        "class Mid(_Rec):\n    pass\n"
        "class NotAPlugin:\n    pass\n"
        "Beta = Zeta\n"
        "VALUE = 3\n"
    ),
    "c10_plug_b": (
        "from c10_plug_a import _Rec, Mid\n"
        "class Omega(_Rec):\n    pass\n"
        "class Aleph(_Rec):\n    pass\n"
    ),
}
PLUG_POOL = ["c10_plug_a.Zeta", "c10_plug_a.alpha", "c10_plug_a.Mid", "c10_plug_a.Beta", "c10_plug_b.Omega", "c10_plug_b.Aleph", "c10_plug_b.Mid",
             "c10_plug_a", "c10_plug_b", "c10_plug_a.NotAPlugin", "c10_plug_a.Missing", "c10_plug_a.VALUE", "no_such_module_c10.X", "nodots_c10"]


@engine.with_scratch
def _plugins_child(root: Path, trials: List[Tuple[List[str], str]]) -> List[Dict[str, Any]]:
    """`get_plugins_types` -> `PluginManager` -> one hook, on scratch plugin modules whose classes record the
    order in which they were applied"""
    for name, src in PLUG_SRC.items():
        (root / (name + ".py")).write_text(src)
    sys.path.insert(0, str(root))
    from graphql import build_schema

    from ariadne_codegen.exceptions import PluginImportError
    from ariadne_codegen.plugins.explorer import get_plugins_types
    from ariadne_codegen.plugins.manager import PluginManager

    schema = build_schema("type Query { a: Int }")
    out = []
    for strs, hook in trials:
        table = plugin_resolve_table(strs)
        try:
            classes = get_plugins_types(list(strs))
        except PluginImportError as e:
            out.append({"resolve": table, "obs": {"err": "PluginImportError", "msg": str(e)}})
            continue
        pm = PluginManager(schema=schema, config_dict={}, plugins_types=classes)
        applied = pm._apply_plugins_on_object(hook, [])
        out.append({"resolve": table, "obs": {"ok": applied}, "loaded": [_qual(c) for c in classes], "instances": [_qual(type(p)) for p in pm.plugins]})
    return out


def corr_plugin_order(ctx: Ctx, st: Optional[LeanStatus], res: Result) -> None:
    rng = ctx.sub_rng("plugin-order")
    try:
        from ariadne_codegen.plugins.base import Plugin

        hooks = [n for n, f in vars(Plugin).items() if callable(f) and not n.startswith("_")]
    except (ImportError, AttributeError) as e:
        res.mismatches.append(Mismatch("runHook", {}, f"observer: {e}", None))
        return
    trials: List[Tuple[List[str], str]] = []
    for _ in range(ctx.budget(150, 1500)):
        good = rng.random() < 0.8
        pool = PLUG_POOL[:9] if good else PLUG_POOL
        trials.append(([rng.choice(pool) for _ in range(rng.randint(0, 5))], rng.choice(hooks)))
    _quiet()
    parts = [trials[i : i + 50] for i in range(0, len(trials), 50)]
    outs = engine.pmap_forked(_plugins_child, [(p,) for p in parts], timeout=120)
    lines: List[Dict[str, Any]] = []
    expect: List[Tuple[str, Any, Any]] = []
    for part, (status, val) in zip(parts, outs):
        if status != "ok":
            res.mismatches.append(Mismatch("runHook", {"trials": len(part)}, f"observer: {status} {str(val)[:300]}", None))
            continue
        for (strs, hook), r in zip(part, val):
            inp = {"plugins": strs, "hook": hook}
            lines.append({"op": "runHook", "plugins": strs, "resolve": r["resolve"]})
            expect.append(("runHook", inp, r["obs"]))
            if "ok" in r["obs"]:
                lines.append({"op": "pluginsTypes", "plugins": strs, "resolve": r["resolve"]})
                expect.append(("pluginsTypes", inp, {"ok": r["loaded"]}))
                lines.append({"op": "applyHooks", "plugins": r["instances"]})
                expect.append(("applyHooks", inp, r["obs"]["ok"]))
                res.count("plugins:order:" + ("0" if not r["loaded"] else "1" if len(r["loaded"]) == 1 else "2+") + "-classes")
                if any("module" in t[1] for t in r["resolve"]):
                    res.count("plugins:order:from-module")
            else:
                res.count("plugins:order:refused")
    _compare(ctx, st, res, lines, expect)


def _walk_child(entries: List[Dict[str, Any]], order: List[int], where: str) -> Dict[str, Any]:
    root = Path(tempfile.mkdtemp(prefix=f"verif-c10-walk-{os.getpid()}-", dir=where))
    try:
        return _walk_in(root, entries, order)
    finally:
        shutil.rmtree(root, ignore_errors=True)


def _walk_in(root: Path, entries: List[Dict[str, Any]], order: List[int]) -> Dict[str, Any]:
    from ariadne_codegen.schema import load_graphql_files_from_path, walk_graphql_files

    base = root / "in"
    base.mkdir()
    for i in order:
        en = entries[i]
        p = base.joinpath(*en["path"])
        if en["isDir"]:
            p.mkdir(parents=True, exist_ok=True)
        else:
            p.parent.mkdir(parents=True, exist_ok=True)
            p.write_text(en["content"])
    listing = [list(p.relative_to(base).parts) for p in base.glob("**/*")]
    walked = sorted(list(p.relative_to(base).parts) for p in walk_graphql_files(base))
    obs = _observe(lambda: load_graphql_files_from_path(base))
    return {"listing": listing, "walked": walked, "load": obs}


def rand_tree(rng: random.Random) -> List[Dict[str, Any]]:
    dirs = [[], ["sub"], ["Sub"], ["a-b"], ["sub", "deep"], ["z.graphql"]] if rng.random() < 0.15 else [[], ["sub"], ["Sub"], ["a-b"], ["sub", "deep"]]
    files: Dict[Tuple[str, ...], Dict[str, Any]] = {}
    for _ in range(rng.randint(1, 8)):
        d = rng.choice(dirs)
        stem = rng.choice(["a", "b", "B", "a-b", "a_b", "a.b", "schema", "10", "9", "", "x.tar"])
        ext = rng.choice([".graphql", ".graphqls", ".gql", ".graphql", ".txt", ".GQL", ".graphql.bak", "."])
        name = stem + ext
        if name in ("", ".", "..") or (d and tuple(d) == ("z.graphql",) and False):
            continue
        path = tuple(d + [name])
        files[path] = {"path": list(path), "isDir": False, "content": f"type T{len(files)} {{ f: Int }}\n" if rng.random() < 0.9 else "# only a comment\ntype U%d { g: ID }" % len(files)}
    out = list(files.values())
    seen_dirs = set()
    for f in list(files):
        for k in range(1, len(f)):
            seen_dirs.add(f[:k])
    if rng.random() < 0.2:
        seen_dirs.add(("empty.gql",))  # a DIRECTORY whose name ends in .gql: open() raises IsADirectoryError
    for d in seen_dirs:
        if d not in files:
            out.append({"path": list(d), "isDir": True, "content": ""})
    return out


def corr_walk(ctx: Ctx, st: Optional[LeanStatus], res: Result) -> None:
    rng = ctx.sub_rng("walk")
    jobs = []
    for _ in range(ctx.budget(60, 500)):
        entries = rand_tree(rng)
        entries = [e for e in entries if not any(o["path"] == e["path"][: len(o["path"])] and not o["isDir"] and o is not e and len(o["path"]) < len(e["path"]) for o in entries)]
        o1 = list(range(len(entries)))
        rng.shuffle(o1)
        o2 = list(reversed(o1))
        jobs.append((entries, o1, str(order_sensitive_root()[0])))
        jobs.append((entries, o2, str(order_sensitive_root()[0])))
    _quiet()
    outs = engine.pmap_forked(_walk_child, jobs, timeout=60)
    lines: List[Dict[str, Any]] = []
    expect: List[Tuple[str, Any, Any]] = []
    for k, ((entries, order, _w), (status, val)) in enumerate(zip(jobs, outs)):
        if status != "ok":
            res.mismatches.append(Mismatch("loadFiles", entries, f"observer: {status} {val}", None))
            continue
        by_path = {tuple(e["path"]): e for e in entries}
        listed = [by_path[tuple(p)] for p in val["listing"] if tuple(p) in by_path]
        lines.append({"op": "loadFiles", "entries": listed})
        expect.append(("loadFiles", {"entries": entries, "created": order}, val["load"]))
        res.count("walk:" + ("ok" if "ok" in val["load"] else val["load"].get("err", "observer")))
        if k % 2 == 1:
            prev = outs[k - 1]
            if prev[0] == "ok":
                if prev[1]["listing"] != val["listing"]:
                    res.count("walk:glob-order-depends-on-creation-order")
                if prev[1]["load"] != val["load"]:
                    res.failures.append(Failure("creation-order-changes-loaded-schema", None, {"entries": entries, "orders": [jobs[k - 1][1], order]}, ""))
    _compare(ctx, st, res, lines, expect)


# --------------------------------------------------------------------------------------------
# correspondence 3: FragmentsGenerator.generate / operation imports observed inside FULL generations
# --------------------------------------------------------------------------------------------


def _qual(cls: Any) -> str:
    return f"{cls.__module__}.{cls.__qualname__}"


def plugin_resolve_table(strs: List[str]) -> List[List[Any]]:
    """what the import system answers for each configured plugin string, asked through the explorer's own
    helpers (wire form of Model/OrderResult.lean `PluginTarget`); the namespace of a module is listed in
    dict order, `inspect.getmembers` is expected to sort it"""
    import importlib

    from ariadne_codegen.exceptions import PluginImportError
    from ariadne_codegen.plugins import explorer

    table: List[List[Any]] = []
    for s_ in dict.fromkeys(strs):
        if explorer.is_module_str(s_):
            mod = importlib.import_module(s_)
            table.append([s_, {"module": [[k, _qual(v)] for k, v in vars(mod).items() if explorer.is_plugin_type(v)]}])
            continue
        try:
            table.append([s_, {"cls": _qual(explorer.get_plugin_type(s_))}])
        except PluginImportError as e:
            table.append([s_, {"refused": str(e)}])
    return table


@engine.with_scratch
def _e2e_child(root: Path, case: Dict[str, Any]) -> Dict[str, Any]:
    os.chdir(root)
    from ariadne_codegen import main as ac_main
    from ariadne_codegen.client_generators import fragments as frag_mod
    from ariadne_codegen.client_generators import package as pkg_mod
    from ariadne_codegen.client_generators.result_types import ResultTypesGenerator
    from ariadne_codegen.utils import str_to_pascal_case

    rng = random.Random(case["id"])
    schema_path = c10_sub.write_tree(root, case["schema"], "schema.graphql", rng)
    queries_path = c10_sub.write_tree(root, case.get("queries"), "queries.graphql", rng)
    rec: Dict[str, Any] = {"frag_gens": [], "op_gens": [], "bases": [], "typenames": [], "opfrags": []}
    import inspect

    from graphql import FragmentDefinitionNode, is_abstract_type
    from graphql import parse as gql_parse

    ptd_sig = inspect.signature(ResultTypesGenerator._parse_type_definition)

    class Observed(ResultTypesGenerator):
        """records, without re-implementing them, the set-fed emission points inside one result module:
        the set `fragments` each class was built from (in the order this interpreter iterates it) and the
        bases that came out; the inputs and the result of every `_get_typename_values`"""

        def __init__(self, *a: Any, **k: Any) -> None:
            self._c10_frames: List[Dict[str, Any]] = []
            self._c10_depth = 0
            super().__init__(*a, **k)

        def _parse_type_definition(self, *a: Any, **k: Any) -> Any:
            b = ptd_sig.bind(self, *a, **k).arguments
            frame = {"class": b.get("class_name"), "extra": list(b.get("extra_bases") or []), "fragments": None}
            self._c10_frames.append(frame)
            try:
                out = super()._parse_type_definition(*a, **k)
            finally:
                self._c10_frames.pop()
            if out and frame["fragments"] is not None and isinstance(out[0], ast.ClassDef) and out[0].name == frame["class"]:
                rec["bases"].append({"gen": self._operation_name, "class": frame["class"], "fragments": frame["fragments"], "extra": frame["extra"],
                                     "bases": [ast.unparse(x) for x in out[0].bases]})
            return out

        def _resolve_selection_set(self, *a: Any, **k: Any) -> Any:
            self._c10_depth += 1
            try:
                r = super()._resolve_selection_set(*a, **k)
            finally:
                self._c10_depth -= 1
            if self._c10_depth == 0 and self._c10_frames and self._c10_frames[-1]["fragments"] is None:
                self._c10_frames[-1]["fragments"] = list(r[1])
            return r

        def _get_typename_values(self, field_context: Any) -> Any:
            out = super()._get_typename_values(field_context)
            names = [rc.type_name for rc in field_context.related_classes]
            abstract = next((n for n in names if is_abstract_type(self.schema.type_map[n])), None)
            possible = [t.name for t in self.schema.get_possible_types(self.schema.type_map[abstract])] if abstract else []
            rec["typenames"].append({"gen": self._operation_name, "typesNames": names, "abstract": abstract, "possible": possible,
                                     "values": [[k2, list(v)] for k2, v in out.items()]})
            return out

        def get_operation_as_str(self) -> str:
            text = super().get_operation_as_str()
            try:
                names = [d.name.value for d in gql_parse(text).definitions if isinstance(d, FragmentDefinitionNode)]
            except Exception:  # noqa: BLE001 - a plugin rewrote the text into something else: nothing to compare
                return text
            mixins = list(self._fragments_used_as_mixins)
            rec["opfrags"].append({"gen": self._operation_name, "mixins": mixins, "unpacked": list(self._unpacked_fragments),
                                   "closure": [[f, list(self._get_fragments_names(self.fragments_definitions[f].selection_set))] for f in mixins],
                                   "emitted": names})
            return text

    def imp(node: ast.ImportFrom) -> Dict[str, Any]:
        return {"level": node.level, "module": node.module or "", "names": [a.name for a in node.names]}

    def defgen(g: Any) -> Dict[str, Any]:
        return {"classes": [c.name for c in g.get_classes()], "imports": [imp(i) for i in g.get_imports()],
                "publicNames": list(g.get_generated_public_names()), "usedEnums": list(g.get_used_enums()),
                "mixins": sorted(g.get_fragments_used_as_mixins())}

    class FragRec(Observed):  # observes the generators FragmentsGenerator.generate really builds
        def __init__(self, *a: Any, **k: Any) -> None:
            super().__init__(*a, **k)
            rec["frag_gens"].append(self)

    class OpRec(Observed):
        def __init__(self, *a: Any, **k: Any) -> None:
            super().__init__(*a, **k)
            rec["op_gens"].append({"name": self._operation_name, "imports": [imp(i) for i in self._imports],
                                   "mixins_order": list(self._fragments_used_as_mixins), "module": k.get("fragments_module_name")})

    frag_mod.ResultTypesGenerator = FragRec
    pkg_mod.ResultTypesGenerator = OpRec
    orig_get = ac_main.get_package_generator

    def get_pg(**kw: Any) -> Any:
        pg = orig_get(**kw)
        rec["pg"] = pg
        fg = pg.fragments_generator
        orig_gen = fg.generate

        def wrapped(*a: Any, **k: Any) -> Any:
            ex = k.get("exclude_names") if "exclude_names" in k else (a[0] if a else None)
            rec["exclude"] = sorted(ex or [])
            rec["frag_gens"].clear()
            try:
                m = orig_gen(*a, **k)
            finally:
                rec["order"] = list(fg._fragments_names)
            body = list(m.body)
            rec["module"] = {"imports": [imp(n) for n in body if isinstance(n, ast.ImportFrom)],
                             "classes": [n.name for n in body if isinstance(n, ast.ClassDef)],
                             "rebuilds": [n.value.func.value.id for n in body if isinstance(n, ast.Expr)],
                             "publicNames": list(fg._generated_public_names), "usedEnums": list(fg._used_enums)}
            return m

        fg.generate = wrapped
        return pg

    ac_main.get_package_generator = get_pg
    cfg = {"schema_path": schema_path, "target_package_name": PKG}
    if queries_path:
        cfg["queries_path"] = queries_path
    cfg.update(case.get("config") or {})
    outcome: Dict[str, Any] = {}
    import contextlib
    import io

    try:
        with contextlib.redirect_stdout(io.StringIO()):
            ac_main.client({"tool": {"ariadne-codegen": cfg}})
        outcome["ok"] = True
    except KeyError as e:
        import traceback
        outcome = {"err": "KeyError", "key": e.args[0] if e.args else None, "where": traceback.format_exc()[-600:]}
    except ValueError as e:
        import traceback
        outcome = {"err": "ValueError", "key": None, "msg": str(e)[:200], "where": traceback.format_exc()[-600:]}
    except Exception as e:  # noqa: BLE001 - refusals etc: nothing to compare
        return {"skip": type(e).__name__ + ": " + str(e)[:200]}
    if "err" in outcome and "_get_sorted_fragments_names" not in outcome.get("where", "") and "_get_model_rebuild_calls" not in outcome.get("where", ""):
        return {"skip": "crash outside the modelled functions: " + outcome.get("where", outcome.get("msg", ""))[-160:]}
    pg = rec.get("pg")
    out: Dict[str, Any] = {"outcome": outcome, "exclude": rec.get("exclude"), "order": rec.get("order"), "module": rec.get("module")}
    out["all_fragments"] = list(pg.fragments_definitions.keys()) if pg else []
    out["defs"] = {g._operation_name: defgen(g) for g in rec["frag_gens"]}
    out["pascal"] = {f: str_to_pascal_case(f) for f in out["all_fragments"]}
    out["ops"] = rec["op_gens"]
    files: Dict[str, Any] = {}
    pdir = root / PKG
    if outcome.get("ok") and pdir.exists():
        for p in pdir.glob("*.py"):
            try:
                tree = ast.parse(p.read_text())
            except SyntaxError:
                continue
            files[p.name] = {"from": [imp(n) for n in tree.body if isinstance(n, ast.ImportFrom)],
                             "classes": [n.name for n in tree.body if isinstance(n, ast.ClassDef)],
                             "rebuilds": [n.value.func.value.id for n in tree.body if isinstance(n, ast.Expr) and isinstance(n.value, ast.Call)
                                          and isinstance(n.value.func, ast.Attribute) and isinstance(n.value.func.value, ast.Name)]}
    out["files"] = files
    out["fragments_module"] = cfg.get("fragments_module_name", "fragments")
    out["bases"], out["typenames"], out["opfrags"] = rec["bases"], rec["typenames"], rec["opfrags"]
    if pg is not None:
        from ariadne_codegen.client_generators.constants import BASE_MODEL_CLASS_NAME

        out["base_model"] = BASE_MODEL_CLASS_NAME
        pm = getattr(pg, "plugin_manager", None)
        strs = list(cfg.get("plugins") or [])
        out["plugins"] = {"configured": strs, "resolve": plugin_resolve_table(strs),
                          "loaded": [_qual(type(p)) for p in (pm.plugins if pm is not None else [])]}
        if cfg.get("enable_custom_operations"):
            from ariadne_codegen.client_generators.custom_generator_utils import TypeCollector

            tc = TypeCollector(pg.schema)
            got = tc.collect()
            out["collected"] = {"listing": list(tc.collected_types), "sorted": got}
    if pg is not None and outcome.get("ok"):
        out["package"] = {"unpacked": list(pg._unpacked_fragments), "used_enums": list(pg._used_enums), "include_all_enums": bool(pg.include_all_enums),
                          "schema_enums": [c.name for c in pg.enums_generator._class_defs],
                          "enums_module": cfg.get("enums_module_name", "enums")}
    return out


def canon_frag(o: Any) -> Any:
    """FragOut reduced to what can reach a file: class / rebuild ORDER, and the multisets of import
    statements, public names and used enums (their order is erased by isort / membership tests; a
    refactor that walks the set in another order must not disturb the comparison)."""
    if not (isinstance(o, dict) and isinstance(o.get("ok"), dict)):
        return o
    m = o["ok"]
    return {"ok": {"classes": m["classes"], "rebuilds": m["rebuilds"],
                   "imports": sorted(([i["level"], i["module"], i["names"]] for i in m["imports"]), key=json.dumps),
                   "publicNames": sorted(m["publicNames"]), "usedEnums": sorted(m["usedEnums"])}}


def canon_imports(o: Any) -> Any:
    """a list of from-import statements as the multiset of (level, module, sorted names): statement and
    name order are isort's business, never visible in a file"""
    if isinstance(o, dict) and "ok" in o:
        return {"ok": canon_imports(o["ok"])}
    if isinstance(o, list) and all(isinstance(i, dict) and "names" in i for i in o):
        return sorted(([i["level"], i["module"], sorted(i["names"])] for i in o), key=json.dumps)
    return o


def corr_e2e(ctx: Ctx, st: Optional[LeanStatus], res: Result, cases: List[Dict[str, Any]]) -> None:
    _quiet()
    outs = engine.pmap_forked(_e2e_child, [(c,) for c in cases], timeout=180)
    lines: List[Dict[str, Any]] = []
    expect: List[Tuple[str, Any, Any]] = []
    for case, (status, val) in zip(cases, outs):
        cid = case["id"]
        if status != "ok":
            if status == "exc" and val[0] in ("AttributeError", "ImportError", "TypeError"):
                res.mismatches.append(Mismatch("generateFragments", cid, f"observer: {val[0]}: {val[1][:200]}", None))
            else:
                res.count("e2e:child-" + status)
            continue
        if "skip" in val:
            res.count("e2e:refused")
            continue
        res.count("e2e:cases")
        inp_ref = {"case": cid}
        if val.get("order") is not None:
            empty = {"classes": [], "imports": [], "publicNames": [], "usedEnums": [], "mixins": []}
            defs = [[f, val["defs"].get(f, empty)] for f in val["all_fragments"]]
            lines.append({"op": "generateFragments", "defs": defs, "exclude": val["exclude"], "order": val["order"]})
            if val["outcome"].get("ok"):
                obs: Any = canon_frag({"ok": val["module"]})
            else:
                obs = {"err": val["outcome"]["err"], "key": val["outcome"].get("key")}
            expect.append(("generateFragments", dict(inp_ref, exclude=val["exclude"], order=val["order"], deps={k: v["mixins"] for k, v in val["defs"].items()}), obs))
            res.count("e2e:fragments-modules")
            if any(len(v["mixins"]) >= 2 for v in val["defs"].values()):
                res.count("e2e:fragments-with-multi-dependency")
            if val["outcome"].get("ok"):
                f = val["files"].get(val["fragments_module"] + ".py")
                if f is not None:
                    # the glue (unparse -> autoflake -> isort -> black) keeps class and rebuild order
                    if f["classes"] != val["module"]["classes"] or f["rebuilds"] != val["module"]["rebuilds"]:
                        res.mismatches.append(Mismatch("fragments.py-keeps-module-order", inp_ref, {"classes": f["classes"], "rebuilds": f["rebuilds"]},
                                                       {"classes": val["module"]["classes"], "rebuilds": val["module"]["rebuilds"]}))
                    init = val["files"].get("__init__.py", {"from": []})
                    got = [s["names"] for s in init["from"] if s["level"] == 1 and s["module"] == val["fragments_module"]]
                    if P_NOREIMP not in ((case.get("config") or {}).get("plugins") or []):  # that plugin empties __init__.py
                        lines.append({"op": "isortNames", "names": val["module"]["publicNames"]})
                        expect.append(("init-fragments-import", dict(inp_ref, names=val["module"]["publicNames"]), got[0] if got else []))
        pk = val.get("package")
        if pk is not None:
            lines.append({"op": "packageFrag", "fragments": val["all_fragments"], "unpacked": pk["unpacked"]})
            expect.append(("fragments-module-exists", dict(inp_ref, unpacked=sorted(pk["unpacked"])), {"ok": (val["fragments_module"] + ".py") in val["files"]}))
            lines.append({"op": "filterEnums", "schemaEnums": pk["schema_enums"], "used": None if pk["include_all_enums"] else pk["used_enums"]})
            expect.append(("enums-kept", dict(inp_ref, include_all=pk["include_all_enums"]), val["files"].get(pk["enums_module"] + ".py", {}).get("classes", [])))
            res.count("e2e:enums-filtered" if not pk["include_all_enums"] else "e2e:enums-all")
        pasc = [[k, v] for k, v in (val.get("pascal") or {}).items()]
        for b in val.get("bases") or []:
            lines.append({"op": "classBases", "fragments": b["fragments"], "extraBases": b["extra"], "pascal": pasc, "baseModel": val.get("base_model", "BaseModel")})
            expect.append(("classBases", dict(inp_ref, gen=b["gen"], cls=b["class"], fragments=sorted(b["fragments"]), extra=b["extra"]), b["bases"]))
            res.count("e2e:class-bases:" + ("0" if not b["fragments"] else "1" if len(b["fragments"]) == 1 else "2" if len(b["fragments"]) == 2 else "3+") + "-fragments")
        for t in val.get("typenames") or []:
            own = dict((k, v) for k, v in t["values"])
            extra = (own.get(t["abstract"]) or [None])[1:] if t["abstract"] else []
            lines.append({"op": "typenameValues", "typesNames": t["typesNames"], "abstract": t["abstract"], "possible": t["possible"], "order": extra})
            expect.append(("typenameValues", dict(inp_ref, gen=t["gen"], typesNames=t["typesNames"], abstract=t["abstract"], possible=t["possible"]), t["values"]))
            res.count("e2e:typename-values:" + ("no-abstract" if not t["abstract"] else "0" if not extra else "1" if len(extra) == 1 else "2+") + ("" if not t["abstract"] else "-without-class"))
        for o in val.get("opfrags") or []:
            lines.append({"op": "operationFragments", "mixins": o["mixins"], "unpacked": o["unpacked"], "closure": o["closure"]})
            expect.append(("operationFragments", dict(inp_ref, gen=o["gen"], mixins=sorted(o["mixins"]), unpacked=sorted(o["unpacked"])), {"ok": o["emitted"]}))
            res.count("e2e:operation-string:" + ("0" if not o["emitted"] else "1" if len(o["emitted"]) == 1 else "2+") + "-fragments")
        pl = val.get("plugins")
        if pl is not None and val["outcome"].get("ok"):
            lines.append({"op": "pluginsTypes", "plugins": pl["configured"], "resolve": pl["resolve"]})
            expect.append(("pluginsLoaded", dict(inp_ref, configured=pl["configured"]), {"ok": pl["loaded"]}))
            res.count("e2e:plugins:" + ("0" if not pl["loaded"] else "1" if len(pl["loaded"]) == 1 else "2+"))
        if val.get("collected") is not None:
            lines.append({"op": "collectedTypes", "collected": val["collected"]["listing"]})
            expect.append(("collectedTypes", dict(inp_ref, n=len(val["collected"]["listing"])), val["collected"]["sorted"]))
            res.count("e2e:type-collector")
        for op in val.get("ops", []):
            if not val["outcome"].get("ok"):
                break
            fixed = op["imports"][:-1] if op["mixins_order"] and op["module"] else op["imports"]
            lines.append({"op": "opImports", "imports": fixed, "mixins": op["mixins_order"], "pascal": [[k, v] for k, v in val["pascal"].items()],
                          "fragmentsModule": op["module"] or ""})
            expect.append(("opImports", dict(inp_ref, op=op["name"], mixins=sorted(op["mixins_order"])), op["imports"]))
            res.count("e2e:operation-modules")
            if len(op["mixins_order"]) >= 2:
                res.count("e2e:operation-with-2+-mixins")
    _compare(ctx, st, res, lines, expect)


# --------------------------------------------------------------------------------------------
# static audit: the generators only ever WRITE into the target (frame property of the write-log model)
# --------------------------------------------------------------------------------------------

FS_READS = {"read_text", "read_bytes", "open", "exists", "is_file", "is_dir", "iterdir", "glob", "rglob", "stat", "unlink", "rmdir", "rename",
            "replace", "touch", "listdir", "rmtree", "samefile", "resolve"}
EXPECTED_FS = {
    "ariadne_codegen/client_generators/package.py": sorted([["PackageGenerator.generate", "exists", "self.package_path"],
                                                            ["PackageGenerator._copy_files", "read_text", "source_path"]]),
    "ariadne_codegen/graphql_schema_generators/schema.py": [],
    "ariadne_codegen/contrib/extract_operations.py": [],
    "ariadne_codegen/client_generators/init_file.py": [],
    "ariadne_codegen/client_generators/fragments.py": [],
}


def fs_calls(rel: str) -> Any:
    try:
        tree = ast.parse((common.REPO / rel).read_text())
    except (OSError, SyntaxError) as e:
        return f"unreadable: {e}"
    found = []

    def walk(node: ast.AST, qual: str) -> None:
        for ch in ast.iter_child_nodes(node):
            q = qual
            if isinstance(ch, (ast.ClassDef, ast.FunctionDef, ast.AsyncFunctionDef)):
                q = (qual + "." if qual else "") + ch.name
            if isinstance(ch, ast.Call):
                if isinstance(ch.func, ast.Attribute) and ch.func.attr in FS_READS:
                    found.append([qual, ch.func.attr, ast.unparse(ch.func.value)])
                elif isinstance(ch.func, ast.Name) and ch.func.id in ("open",):
                    found.append([qual, "open", ast.unparse(ch.args[0]) if ch.args else ""])
            walk(ch, q)

    walk(tree, "")
    return sorted(found)


def audit_fs(res: Result) -> None:
    for rel, want in EXPECTED_FS.items():
        got = fs_calls(rel)
        res.seen(["fs-audit", rel], nontrivial=False)
        if got != want:
            res.mismatches.append(Mismatch("target-directory-is-write-only", rel, got, want))


# --------------------------------------------------------------------------------------------
# static audit: the inventory of unordered collections (the model's claim "these are ALL the places
# where a set or a directory listing exists in the generator"); a construct that appears anywhere else,
# or a modelled function that gains / loses one, breaks the tie and sends the run to the directed search
# --------------------------------------------------------------------------------------------

SET_METHODS = {"union", "difference", "intersection", "symmetric_difference"}
LISTING_CALLS = {"listdir", "scandir", "glob", "rglob", "iterdir", "walk"}
EXPECTED_UNORDERED = {
    "ariadne_codegen/client_generators/client.py::ClientGenerator.get_variable_names": ["set()"],
    "ariadne_codegen/client_generators/custom_fields.py::CustomFieldsGenerator._generate_class_def_body": ["set()"],
    "ariadne_codegen/client_generators/custom_generator_utils.py::TypeCollector.__init__": ["set()", "set()"],
    "ariadne_codegen/client_generators/fragments.py::FragmentsGenerator.__init__": ["set()"],
    "ariadne_codegen/client_generators/fragments.py::FragmentsGenerator.generate": ["set()"],
    "ariadne_codegen/client_generators/fragments.py::FragmentsGenerator._get_sorted_fragments_names": ["set()"],
    "ariadne_codegen/client_generators/input_types.py::InputTypesGenerator._filter_class_defs": ["set()"],
    "ariadne_codegen/client_generators/input_types.py::InputTypesGenerator._get_dependencies_of_type": ["set()"],
    "ariadne_codegen/client_generators/package.py::PackageGenerator.__init__": ["set()"],
    "ariadne_codegen/client_generators/package.py::PackageGenerator.add_operation": [".union"],
    "ariadne_codegen/client_generators/package.py::PackageGenerator._validate_unique_file_names": ["set()", "set()", "{comprehension}"],
    "ariadne_codegen/client_generators/package.py::PackageGenerator._generate_fragments": [".difference", "set()"],
    "ariadne_codegen/client_generators/result_fields.py::parse_interface_type": ["{comprehension}"],
    "ariadne_codegen/client_generators/result_types.py::ResultTypesGenerator.__init__": ["set()", "set()"],
    "ariadne_codegen/client_generators/result_types.py::ResultTypesGenerator._resolve_selection_set": [".union", ".union", ".union", "set()", "set()"],
    "ariadne_codegen/client_generators/result_types.py::ResultTypesGenerator._get_inline_fragment_root_type": ["{comprehension}"],
    "ariadne_codegen/client_generators/result_types.py::ResultTypesGenerator._add_typename_field_to_selections": ["{comprehension}"],
    "ariadne_codegen/client_generators/result_types.py::ResultTypesGenerator._get_typename_values": ["set()", "set()"],
    "ariadne_codegen/client_generators/result_types.py::ResultTypesGenerator._get_all_related_fragments": [".union", ".union"],
    "ariadne_codegen/client_generators/result_types.py::ResultTypesGenerator._get_fragments_names": [".union", ".union", "set()"],
    "ariadne_codegen/config.py::get_client_settings": [".difference", "{comprehension}"],
    "ariadne_codegen/config.py::get_graphql_schema_settings": [".difference", "{comprehension}"],
    "ariadne_codegen/contrib/client_forward_refs.py::ClientForwardRefsPlugin.__init__": ["set()", "set()"],
    "ariadne_codegen/contrib/client_forward_refs.py::ClientForwardRefsPlugin._update_imports": ["set()"],
    "ariadne_codegen/contrib/shorter_results.py::ShorterResultsPlugin._update_imports": ["set()"],
    "ariadne_codegen/schema.py::walk_graphql_files": ["listing.glob"],
    "ariadne_codegen/schema.py::add_mixin_directive_to_schema": ["{comprehension}"],
    "ariadne_codegen/utils.py::process_name": ["set()", "{literal}"],
}


def unordered_inventory() -> Any:
    """function -> sorted kinds of set constructions / directory listings in its body (the runtime files under
    client_generators/dependencies are copied verbatim into the package and take no part in generation)"""
    out: Dict[str, List[str]] = {}
    try:
        files = sorted((common.REPO / "ariadne_codegen").rglob("*.py"))
    except OSError as e:
        return f"unreadable: {e}"
    for p in files:
        rel = p.relative_to(common.REPO).as_posix()
        if "/dependencies/" in rel:
            continue
        try:
            tree = ast.parse(p.read_text())
        except (OSError, SyntaxError) as e:
            return f"unreadable: {rel}: {e}"

        def walk(node: ast.AST, qual: str) -> None:
            for ch in ast.iter_child_nodes(node):
                q = qual
                if isinstance(ch, (ast.ClassDef, ast.FunctionDef, ast.AsyncFunctionDef)):
                    q = (qual + "." if qual else "") + ch.name
                kind = None
                if isinstance(ch, ast.Call):
                    if isinstance(ch.func, ast.Name) and ch.func.id in ("set", "frozenset"):
                        kind = ch.func.id + "()"
                    elif isinstance(ch.func, ast.Attribute) and ch.func.attr in SET_METHODS:
                        kind = "." + ch.func.attr
                    elif isinstance(ch.func, ast.Attribute) and ch.func.attr in LISTING_CALLS:
                        kind = "listing." + ch.func.attr
                elif isinstance(ch, ast.SetComp):
                    kind = "{comprehension}"
                elif isinstance(ch, ast.Set):
                    kind = "{literal}"
                if kind:
                    out.setdefault(rel + "::" + (qual or "<module>"), []).append(kind)
                walk(ch, q)

        walk(tree, "")
    return {k: sorted(v) for k, v in out.items()}


def audit_unordered(res: Result) -> None:
    got = unordered_inventory()
    res.seen(["unordered-inventory"], nontrivial=False)
    if not isinstance(got, dict):
        res.mismatches.append(Mismatch("unordered-collection-inventory", "ariadne_codegen", got, "readable"))
        return
    for k in sorted(set(got) | set(EXPECTED_UNORDERED)):
        have, want = list(got.get(k, [])), list(EXPECTED_UNORDERED.get(k, []))
        if have == want:
            continue
        extra = list(have)
        for x in want:
            if x in extra:
                extra.remove(x)
        if extra:  # a NEW unordered collection: outside the model until shown otherwise
            res.mismatches.append(Mismatch("unordered-collection-inventory", k, have, want))
        else:  # one fewer: cannot add a dependence on iteration order
            res.count("audit:unordered-collections-removed")
    res.count("audit:functions-with-unordered-collections", len(got))
    gs = [k for k in got if k.startswith("ariadne_codegen/graphql_schema_generators/")]
    res.count("audit:graphqlschema-generators-unordered-collections", len(gs))


# --------------------------------------------------------------------------------------------
# run / search / replay
# --------------------------------------------------------------------------------------------

FINGERPRINTS = [
    ("ariadne_codegen/client_generators/fragments.py", "FragmentsGenerator.generate"),
    ("ariadne_codegen/client_generators/fragments.py", "FragmentsGenerator._get_sorted_class_defs"),
    ("ariadne_codegen/client_generators/fragments.py", "FragmentsGenerator._get_sorted_fragments_names"),
    ("ariadne_codegen/client_generators/fragments.py", "FragmentsGenerator._get_model_rebuild_calls"),
    ("ariadne_codegen/client_generators/result_types.py", "ResultTypesGenerator._add_enums_scalars_fragments_imports"),
    ("ariadne_codegen/client_generators/result_types.py", "ResultTypesGenerator._get_typename_values"),
    ("ariadne_codegen/client_generators/result_types.py", "ResultTypesGenerator.get_operation_as_str"),
    ("ariadne_codegen/client_generators/result_types.py", "ResultTypesGenerator._get_all_related_fragments"),
    ("ariadne_codegen/client_generators/result_types.py", "ResultTypesGenerator._parse_type_definition"),
    ("ariadne_codegen/client_generators/result_fields.py", "generate_typename_annotation"),
    ("ariadne_codegen/client_generators/result_types.py", "ResultTypesGenerator._resolve_selection_set"),
    ("ariadne_codegen/client_generators/result_types.py", "ResultTypesGenerator._get_fragments_names"),
    ("ariadne_codegen/plugins/explorer.py", "get_plugins_types"),
    ("ariadne_codegen/plugins/explorer.py", "get_plugins_types_from_module"),
    ("ariadne_codegen/plugins/manager.py", "PluginManager.__init__"),
    ("ariadne_codegen/plugins/manager.py", "PluginManager._apply_plugins_on_object"),
    ("ariadne_codegen/client_generators/package.py", "PackageGenerator.generate"),
    ("ariadne_codegen/client_generators/package.py", "PackageGenerator._generate_fragments"),
    ("ariadne_codegen/client_generators/package.py", "PackageGenerator._generate_enums"),
    ("ariadne_codegen/client_generators/package.py", "PackageGenerator._copy_files"),
    ("ariadne_codegen/client_generators/init_file.py", "InitFileGenerator.generate"),
    ("ariadne_codegen/client_generators/enums.py", "EnumsGenerator._filter_class_defs"),
    ("ariadne_codegen/client_generators/custom_generator_utils.py", "TypeCollector.collect"),
    ("ariadne_codegen/contrib/client_forward_refs.py", "ClientForwardRefsPlugin._add_forward_ref_imports"),
    ("ariadne_codegen/contrib/shorter_results.py", "ShorterResultsPlugin.generate_client_module"),
    ("ariadne_codegen/schema.py", "load_graphql_files_from_path"),
    ("ariadne_codegen/schema.py", "walk_graphql_files"),
    ("ariadne_codegen/utils.py", "ast_to_str"),
    ("ariadne_codegen/client_generators/comments.py", "get_comment"),
    ("ariadne_codegen/graphql_schema_generators/schema.py", "generate_graphql_schema_python_file"),
    ("ariadne_codegen/graphql_schema_generators/schema.py", "generate_graphql_schema_graphql_file"),
]


def make_cases(ctx: Ctx, label: str, n: int) -> List[Dict[str, Any]]:
    rng = ctx.sub_rng("cases:" + label)
    out: List[Dict[str, Any]] = []
    tries = 0
    while len(out) < n and tries < n * 30:
        tries += 1
        size = rng.choice([1, 2, 2, 3])
        c = gen_case(random.Random(rng.random()), size, f"{label}{len(out)}", directed=len(out) % 3 == 0)
        if valid_case(c):
            out.append(c)
    if len(out) < n:
        raise common.Infra(f"case generator produced only {len(out)}/{n} valid cases")
    return out


def oracle(ctx: Ctx, res: Result, label: str = "oracle", n_seeds: Optional[int] = None, n_cases: Optional[int] = None) -> None:
    seeds = list(range(n_seeds or ctx.budget(8, 64)))
    cases = make_cases(ctx, label, n_cases or ctx.budget(10, 22))
    for c in cases:
        for k, v in c["meta"].items():
            res.distribution[f"{label}:max:{k}"] = max(res.distribution.get(f"{label}:max:{k}", 0), v)
        if c["meta"]["multi_dep_fragments"]:
            res.count(f"{label}:cases-with-multi-dependency-fragments")
        if c["meta"]["family"] >= 3:
            res.count(f"{label}:cases-with-fragment-family")
        if c["meta"]["plugins"] >= 2:
            res.count(f"{label}:cases-with-2+-plugins")
        if c["meta"]["tied_enums"]:
            res.count(f"{label}:cases-with-tied-enum-names")
        if c["meta"]["abstract_via_named_fragments"]:
            res.count(f"{label}:cases-with-abstract-field-via-named-fragments")
        for p in (c["config"].get("plugins") or []):
            res.count(f"{label}:plugin:" + p.rsplit(".", 1)[1])
        res.count(f"{label}:comments:" + c["config"]["include_comments"])
    gs = []
    for c in cases[: ctx.budget(4, 8)]:
        gs += [schema_case(c, "py"), schema_case(c, "graphql")]
    # hash seed i comes with creation order i; the diagnosis step separates the two factors
    judge_matrix(ctx, res, cases + gs, [(s, s) for s in seeds], label)
    res.extra["hash_seeds"] = len(seeds)
    res.extra["creation_order_scratch"] = {"root": str(order_sensitive_root()[0]), "listing_depends_on_creation_order": order_sensitive_root()[1]}


_RUN_FOUND_UNKNOWN = False


def run(ctx: Ctx, st: Optional[LeanStatus]) -> Result:
    global _RUN_FOUND_UNKNOWN
    res = Result()
    res.rule = ("oracle: each generated (schema, operations, config) case is generated by the real CLI entry in subprocesses under "
                "8 (quick) / 64 (thorough) PYTHONHASHSEEDs x shuffled creation orders x {fresh, again over the existing target}; "
                "a case is non-trivial when it generates; correspondence inputs are distinct (observation, input) pairs")
    res.extra["fingerprints"] = common.fingerprints(ctx, FINGERPRINTS)
    audit_fs(res)
    audit_unordered(res)
    replay_corpus(ctx, res, list(range(8)))
    ctx.log(f"corpus replayed: {res.witness_status}")
    corr_direct(ctx, st, res)
    corr_isort(ctx, st, res)
    corr_plugins(ctx, st, res)
    corr_plugin_order(ctx, st, res)
    corr_walk(ctx, st, res)
    ctx.log(f"direct correspondence done ({res.evaluations} evaluations, {len(res.mismatches)} mismatches)")
    e2e_cases = make_cases(ctx, "e2e", ctx.budget(24, 160))
    corr_e2e(ctx, st, res, e2e_cases)
    ctx.log(f"full-generation correspondence done ({len(res.mismatches)} mismatches)")
    oracle(ctx, res)
    known = common.load_findings("C10")
    _RUN_FOUND_UNKNOWN = any(common.match_finding(f, known) is None for f in res.failures)
    res.oracle_only += [
        "that CPython's set iteration order is SOME permutation of the elements and that nothing else varies between interpreter runs "
        "(validated by subprocess runs under different PYTHONHASHSEEDs, not proved)",
        "autoflake / black / the statement-level layout of isort: abstract deterministic `render` in the Lean model; validated end to end by the sha256 oracle",
        "graphqlschema strategy (.py and .graphql targets): the run is modelled as a pipeline (graphqlschema_deterministic) whose schema building, validation and "
        "rendering are abstract deterministic functions; that no set or directory listing exists under graphql_schema_generators/ is audited statically on every run, "
        "the bytes are decided by the sha256 oracle",
        "inside a result module only the order-relevant steps are modelled (sorted-of-set, set difference, union then sorted): WHICH fragments end up in the set of a class, "
        "the closure _get_fragments_names and the possible types of an abstract type are recorded from the real generator, not modelled",
        "what each plugin hook does: an abstract function per plugin class; only the order of loading and of application is modelled (and observed on the real explorer/manager)",
    ]
    res.assumptions += [
        "isort.code with the default configuration orders the names of one from-import by the key modelled in Spec/Isort.lean (stable, de-duplicated); checked against isort on every run",
        "the formatted text depends on the import statements only through Spec.Isort.summary when no two modules tie on isort's module key; checked metamorphically on every run",
        "graphql-core parse/print, ast.unparse, autoflake, black are deterministic functions of their input text",
    ]
    return res


def search(ctx: Ctx) -> Result:
    """after a broken proof / correspondence: a second, differently seeded oracle sample (a set-order
    dependence shows with probability >= 1/2 per extra hash seed, so 16 seeds are plenty)"""
    res = Result()
    if _RUN_FOUND_UNKNOWN:  # a concrete failing input is already in hand
        ctx.log("search skipped: the oracle of this run already produced a failing input")
        return res
    oracle(ctx, res, "search", n_seeds=16, n_cases=24)
    return res


def replay(ctx: Ctx, payload: Dict[str, Any]) -> int:
    inp = payload.get("input")
    if not inp or "case" not in inp:
        print(json.dumps(payload, indent=1)[:3000])
        return 1
    case = inp["case"]
    if "entries" in inp:
        print("creation-order replay is not supported from a file; see detail:", payload.get("detail"))
        return 1
    combos = [tuple(c) for c in inp.get("combos", [[0, 0], [1, 1]])]
    tx = run_matrix([case], combos, texts=True, chunk=1)  # type: ignore[arg-type]
    a = tx[combos[0]][case["id"]]["fresh"]
    phase = inp.get("phase", "fresh")
    b = tx[combos[1]][case["id"]].get(phase, {})
    if a == b:
        print("identical: the failure does not reproduce")
        return 0
    sig, trig, detail = classify(case, a, b, phase)
    print(f"differs: signature={sig} trigger={trig}\n{detail}")
    return 1
